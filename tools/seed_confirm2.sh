#!/bin/sh
# Confirm a seeded change given as files: suite unchanged, demonstration fails with the change and passes without.
# Usage: tools/seed_confirm2.sh <patch.diff> <demo.py> <slug>      (slug = Cnn-short-name)
# Works in a scratch worktree of /repo HEAD under /tmp, removed afterwards.  Saves to /verif/seeded/<slug>/ when confirmed.
PATCH=$(readlink -f "$1"); DEMO=$(readlink -f "$2"); SLUG="$3"; ID=$(echo "$SLUG" | cut -c1-3)
WT=/tmp/wt/confirm_$$
git -C /repo worktree add -q --detach "$WT" HEAD || exit 2
trap 'git -C /repo worktree remove --force "$WT" 2>/dev/null' EXIT INT TERM
cd "$WT" || exit 2
export PYTHONPATH="$WT"
cp "$DEMO" "$WT/demo_$ID.py"
/venv/bin/python demo_$ID.py >/tmp/confirm_$$.out 2>&1; WITHOUT=$?
git apply "$PATCH" || { echo "$SLUG: patch does not apply"; exit 2; }
git diff --stat -- . | tail -1
SUITE=$(/venv/bin/python -m pytest -q -p no:cacheprovider -n 8 --deselect tests/test_benchmark.py::TestBenchmark::test_measure 2>&1 | tail -1)
/venv/bin/python demo_$ID.py >/tmp/confirm_$$.out 2>&1; WITH=$?
tail -2 /tmp/confirm_$$.out; rm -f /tmp/confirm_$$.out
echo "$SLUG: suite: $SUITE | demo with=$WITH without=$WITHOUT"
case "$SUITE" in *"1 failed, 273 passed"*|*"1 failed, 274 passed"*) OK=1;; *) OK=0;; esac
if [ "$WITH" != "0" ] && [ "$WITHOUT" = "0" ] && [ "$OK" = "1" ]; then
  D=/verif/seeded/$SLUG; mkdir -p "$D"; cp "$PATCH" "$D/patch.diff"; cp "$DEMO" "$D/demo_$ID.py"; echo "$SLUG: CONFIRMED, saved to $D"
else
  echo "$SLUG: NOT CONFIRMED"
fi
