#!/usr/bin/env python3
"""tools/seed_table.py <round suffix, e.g. r10>: print the DESIGN.md table rows of one seed round from seeded/*/meta.json."""
import glob
import json
import os
import re
import sys

suffix = sys.argv[1]
print("| seeded change | property | needs to manifest | first run | now reported by |")
print("|---|---|---|---|---|")
for d in sorted(glob.glob(f"/verif/seeded/*-{suffix}?")):
    m = json.load(open(os.path.join(d, "meta.json")))
    slug = os.path.basename(d)
    hist = re.sub(r"^round \d+ \([^)]*\); ", "", m.get("history", ""))
    verdict = m.get("verdict", "")
    keys = verdict.split(": ", 1)[1] if ": " in verdict else verdict
    by = ", ".join(m.get("caught_by") or []) or "-"
    print(f"| `{slug}`: {m['change']} | {m['property']} | {m['needs_to_manifest']} | {hist} | {by}: {keys[:260]} |")
