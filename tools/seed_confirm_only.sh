#!/bin/sh
# tools/seed_confirm_only.sh <worktree> <ID> <slug>: confirm a seeded change (suite + demo both ways) and save it under seeded/.
WT="$1"; ID="$2"; SLUG="$ID-$3"
echo "##### $SLUG"
/verif/tools/seed_confirm.sh "$WT" "$ID" "$SLUG" 2>&1 | grep -E "passed|failed|with=|saved|NOT CONFIRMED|no change"
