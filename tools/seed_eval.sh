#!/bin/sh
# Apply a seeded change to /repo, run every check (quick), undo the change. Usage: tools/seed_eval.sh <patch.diff> [ids...]
set -u
PATCH="$1"; shift
IDS="${*:-C01 C02 C03 C04 C05 C06 C07 C08 C09 C10 C11 C12 C13 C14 C15 C16 C17 C18 C19 C20}"
cd /verif || exit 2
if [ -n "$(git -C /repo status --porcelain)" ]; then echo "refusing: /repo is not clean"; exit 2; fi
git -C /repo apply "$PATCH" || { echo "patch does not apply"; exit 2; }
trap 'git -C /repo checkout -- . ; git -C /repo status --porcelain' EXIT INT TERM
for id in $IDS; do
  out=$(VERIF_SCRATCH_EVIDENCE=1 ./check "$id" 2>&1); rc=$?
  if [ $rc -ne 0 ]; then
    echo "== $id exit=$rc"
    echo "$out" | grep -E "^  fuzzylite/|ANALYSIS-ERROR" | head -4
  fi
done
echo "== done"
