#!/bin/sh
# Confirm a seeded change in its scratch worktree: suite unchanged, demo fails with the change and passes without.
# Usage: tools/seed_confirm.sh <worktree> <ID> <slug>
WT="$1"; ID="$2"; SLUG="$3"
cd "$WT" || exit 2
export PYTHONPATH="$WT"
git diff -- fuzzylite > /tmp/confirm.patch  # unique per invocation is not needed: runs are sequential
[ -s /tmp/confirm.patch ] || { echo "no change applied in $WT"; exit 2; }
echo "--- suite with change"; /venv/bin/python -m pytest -q -p no:cacheprovider -n 8 2>&1 | tail -2
echo "--- demo with change"; /venv/bin/python demo_$ID.py | tail -3; echo "exit=$?"
/venv/bin/python demo_$ID.py >/dev/null 2>&1; WITH=$?
# (git stash is shared between worktrees: revert and re-apply the saved patch instead)
git apply -R /tmp/confirm.patch
echo "--- demo without change"; /venv/bin/python demo_$ID.py | tail -2
/venv/bin/python demo_$ID.py >/dev/null 2>&1; WITHOUT=$?
git apply /tmp/confirm.patch
echo "with=$WITH without=$WITHOUT"
if [ "$WITH" != "0" ] && [ "$WITHOUT" = "0" ]; then
  D=/verif/seeded/$SLUG; mkdir -p $D; cp /tmp/confirm.patch $D/patch.diff; cp demo_$ID.py $D/; echo "saved to $D"
else
  echo "NOT CONFIRMED"
fi
