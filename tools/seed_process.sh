#!/bin/sh
# tools/seed_process.sh <worktree> <ID> <slug>: confirm a seeded change and run every check against it.
WT="$1"; ID="$2"; SLUG="$ID-$3"
echo "##### $SLUG"
/verif/tools/seed_confirm.sh "$WT" "$ID" "$SLUG" 2>&1 | tail -3
/verif/tools/seed_eval.sh /verif/seeded/$SLUG/patch.diff 2>&1 | tail -8
