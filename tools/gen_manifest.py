#!/usr/bin/env python3
"""Generate MANIFEST.json from the per-property rule modules (EXPLANATION / ASSUMPTIONS / LEVEL_TEXT / TECHNIQUE)."""
import importlib
import json
import os
import sys

HERE = os.path.dirname(os.path.dirname(os.path.abspath(__file__)))
sys.path.insert(0, HERE)

NOT_APPLICABLE: dict[str, str] = {}
ALL = [f"C{i:02d}" for i in range(1, 21)]


def main() -> None:
    checks = []
    na = []
    for pid in ALL:
        if pid in NOT_APPLICABLE:
            na.append({"property_id": pid, "reason": NOT_APPLICABLE[pid]})
            continue
        path = os.path.join(HERE, "sa", "rules", f"{pid.lower()}.py")
        if not os.path.exists(path):
            na.append({"property_id": pid, "reason": "static check designed in DESIGN.md section 3 but not built yet; not claimed until it is"})
            continue
        mod = importlib.import_module(f"sa.rules.{pid.lower()}")
        checks.append({
            "property_id": pid,
            "quick_cmd": f"./check {pid} --tier quick",
            "thorough_cmd": f"./check {pid} --tier thorough",
            "evidence_file": f"/verif/evidence/{pid}.json",
            "replay_cmd_template": f"./check {pid} --replay {{path}}",
            "engine": "sa",
            "level_claimed": {
                "category": "other",
                "text": getattr(mod, "LEVEL_TEXT", None) or (
                    "Static analysis of /repo's current source (nothing executed): " + mod.EXPLANATION +
                    ". " + getattr(mod, "LEVEL_SCOPE", "Decides the structural clauses named in DESIGN.md for this property on every path / for every "
                    "abstract case, not the numeric behaviour.")),
                "design_ref": f"DESIGN.md section 3 ({pid})",
            },
            "level_note": "Trusted: CPython's ast parser, the analyser under /verif/sa, the specification tables of "
                          "DESIGN.md Appendix A. Assumed: " + "; ".join(getattr(mod, "ASSUMPTIONS", []) or ["nothing further"]),
            "technique": getattr(mod, "TECHNIQUE", "static analysis: custom AST/CFG/dataflow rules"),
        })
    manifest = {
        "version": 1,
        "setup_cmd": "/venv/bin/python -m compileall -q sa selftest tools >/dev/null 2>&1 || python3 -m compileall -q sa selftest tools",
        "hooks": {
            "guard": "FUZZYLITE_PYFUZZYLITE_VERIF",
            "enable": "none needed: the checks parse /repo with ast and never import or run it; no source commit uses the guard",
            "baseline_off_cmd": "cd /repo && /venv/bin/python -m pytest -ra -q -p no:cacheprovider --timeout=900 --continue-on-collection-errors",
            "source_commits": [],
            "add_only": True,
        },
        "engines": [{
            "name": "sa",
            "path": "/verif/sa",
            "serves_properties": [c["property_id"] for c in checks],
            "kind_free_text": "repository-specific static analyser: program model (classes, MRO, properties), per-function "
                              "CFG with dominance / control dependence / reaching definitions, origin tracing, "
                              "exhaustive guard truth tables over weak orders, abstract interpretation of numpy kernels, "
                              "table extraction and sibling cross-checks, parser automaton extraction",
        }],
        "checks": checks,
        "not_applicable": na,
        "notes": "All checks are static: they parse /repo's working tree on every run and never execute it. Exit 0 = every "
                 "obligation discharged (listed known findings are printed as KNOWN-FINDING); exit 1 + VIOLATION line = an "
                 "unlisted violation; exit 2 + ANALYSIS-ERROR = the analyser could not decide (vanished anchor, unknown "
                 "construct, instance count below floor) - never a silent pass. Thorough tier = same rules plus the "
                 "checker self-test (seeded mutants must be reported, equivalent rewrites must stay silent).",
    }
    with open(os.path.join(HERE, "MANIFEST.json"), "w") as f:
        json.dump(manifest, f, indent=1)
        f.write("\n")
    print(f"claimed {len(checks)}, not applicable {len(na)}")


if __name__ == "__main__":
    main()
