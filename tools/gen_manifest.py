#!/usr/bin/env python3
"""Generate MANIFEST.json from the per-property rule modules (EXPLANATION / ASSUMPTIONS / LEVEL_TEXT / TECHNIQUE)."""
import importlib
import json
import os
import sys

HERE = os.path.dirname(os.path.dirname(os.path.abspath(__file__)))
sys.path.insert(0, HERE)

NOT_APPLICABLE: dict[str, str] = {}
TECHNIQUES = {
    "C01": "static analysis: CFG dominance / must-guard rules, origin tracing (def-use) of operator and operand wiring, abstract interpretation of the seven activate methods on model rule blocks (operator identity; a selected rule fires before the next degree is computed), who-may-call scan",
    "C02": "static analysis: array-taint dataflow over the call graph of Engine.process (sources/sinks/sanitisers), in-place-write / aliasing and coercion rules (scalar() yields plain arrays), ownership (who-may-write) scan, shape-lattice abstract interpretation",
    "C03": "static analysis: abstract interpretation of the membership kernels over an order-type domain with rational-function normal forms (real arithmetic) and an extended-sign domain; def-use rules; shape-lattice abstract interpretation of the kernels (broadcast shape, no mixing of operand dimensions)",
    "C04": "static analysis: abstract interpretation of the norm kernels per order type of the operands, canonical (normal-form) comparison with the documented formulas and laws; shape-lattice abstract interpretation of the kernels (broadcast shape, no mixing of operand dimensions)",
    "C05": "static analysis: abstract interpretation of the hedge kernels per order type, canonical (normal-form) comparison with the documented formulas and laws; shape-lattice abstract interpretation of the kernels (broadcast shape, no mixing of operand dimensions)",
    "C06": "static analysis: operator-table extraction, guard truth tables over weak orders, abstract interpretation of Antecedent.load against the grammar automaton, of Antecedent.activation_degree on model trees, of Rule.load / unload on the four loaded states and of format_infix on a corpus of operands x operator symbols; pushdown abstract interpretation of infix_to_postfix",
    "C07": "static analysis: abstract interpretation of Consequent.modify with a symbolic activation degree on model consequents (uninterpreted hedges and numpy, the real Activated constructor and setter), call-graph who-may-call rules, in-place-write scan, abstract interpretation of Consequent.load against the grammar automaton",
    "C08": "static analysis: abstract interpretation of the seven activate methods on model rule blocks for every weak order of (degrees, 0, threshold) x rule states x parameters, call log compared with the definition; comparator table extraction; size-guard truth table; who-may-call scan",
    "C09": "static analysis: canonical forms of the array expressions (rational normal forms, negation normal forms, spelling identities) compared with the documented formulas and across the three maxima siblings; Boolean truth table of the selection mask; reducer-kind and axis rules; formula normal form of Op.midpoints",
    "C10": "static analysis: abstract interpretation of the two weighted defuzzify methods with symbolic degrees and values (rational normal forms per zero pattern), of infer_type on model components, of Engine.configure on model engines and of the fuzzy output methods (grouped_terms / activation_degree) on model outputs; ownership rules",
    "C11": "static analysis: composition membership(tsukamoto(y)) normalised per order type (rational-function normal forms, factored signs); class-table and def-use rules; shape-lattice abstract interpretation of the kernels (broadcast shape, no mixing of operand dimensions)",
    "C12": "static analysis: CFG must-precede / must-guard rules on OutputVariable.defuzzify and Engine.process, abstract interpretation of the cascade on abstract arrays for all two-call sequences x settings, abstract interpretation of the variable constructors (arguments stored as given), who-may-write scan, freshness of every defuzzifier return value (aliasing rule)",
    "C13": "static analysis: effect (read/write-set) analysis over the call graph, write-before-read of step state, abstract interpretation of the activate methods (deactivate-first, history-free), of restart, of RuleBlock / Rule loading and unloading, of Engine.__init__ and of Consequent.modify (rule untouched); ownership / aliasing rules, copy-hook, shared-mutable and deepcopy-atomic scans",
    "C14": "static analysis: abstract interpretation of the whole round trip (FllExporter.engine, every parameters(), FllImporter.from_string, every configure() / setter / constructor) on model engines with symbolic numbers (sa/objexec.py): text fixed point and field-by-field equality; extraction and entry-by-entry comparison of exporter and importer tables; abstract interpretation of FllImporter.engine on model documents and of the constructors",
    "C15": "static analysis: abstract interpretation of repr(engine) and of the evaluation of the text it yields (every __repr__, Representation.*, the constructors) on model engines with symbolic numbers under the three alias settings: field-by-field equality and text fixed point; abstract interpretation of the constructors (arguments stored as given); constructor-parameter vs emitted-field tables, guard-vs-default rules, alias discipline, __all__ coverage, truthiness scan",
    "C16": "static analysis: abstract interpretation of the text loaders against the grammar automata, of Rule.parse on every token sequence up to a bound, of infix_to_postfix / parse (pushdown) and of the FLL block importers on model inputs (clean rejection); raise-site enumeration over the call graph, subscript guards over token counts",
    "C17": "static analysis: registry table extraction vs the specification ladder and numpy name map; pushdown abstract interpretation of infix_to_postfix / parse against reference transducers; truth tables of the pop rule",
    "C18": "static analysis: taint rule (fractional power -> truncation) on the grid size, abstract interpretation of write_from_scope + Op.increment over symbolic range bounds (exact linear forms) for bounded instance sizes, role-assignment interpretation of the row loop, origin tracing of the write plumbing",
    "C19": "static analysis: abstract interpretation of Engine.is_ready on model engines (seven antecedent shapes with their expression trees x conclusions x present / absent operators) with differential attribution per operator kind; of Antecedent.load followed by activation_degree on the loaded tree (loadable implies evaluable); of the activate methods (operator identity); dereference guards on the processing path, tokeniser agreement",
    "C20": "static analysis: abstract interpretation of the Settings.context generator over symbolic attribute values for all subsets of settings and exit kinds; CFG path rules; table and who-may-read/write scans",
}
ALL = [f"C{i:02d}" for i in range(1, 21)]


def main() -> None:
    checks = []
    na = []
    for pid in ALL:
        if pid in NOT_APPLICABLE:
            na.append({"property_id": pid, "reason": NOT_APPLICABLE[pid]})
            continue
        path = os.path.join(HERE, "sa", "rules", f"{pid.lower()}.py")
        if not os.path.exists(path):
            na.append({"property_id": pid, "reason": "static check designed in DESIGN.md section 3 but not built yet; not claimed until it is"})
            continue
        mod = importlib.import_module(f"sa.rules.{pid.lower()}")
        checks.append({
            "property_id": pid,
            "quick_cmd": f"./check {pid} --tier quick",
            "thorough_cmd": f"./check {pid} --tier thorough",
            "evidence_file": f"/verif/evidence/{pid}.json",
            "replay_cmd_template": f"./check {pid} --replay {{path}}",
            "engine": "sa",
            "level_claimed": {
                "category": "other",
                "text": getattr(mod, "LEVEL_TEXT", None) or (
                    "Static analysis of /repo's current source (nothing executed): " + mod.EXPLANATION +
                    ". " + getattr(mod, "LEVEL_SCOPE", "Decides the structural clauses named in DESIGN.md for this property on every path / for every "
                    "abstract case, not the numeric behaviour.")),
                "design_ref": f"DESIGN.md section 3 ({pid})",
            },
            "level_note": "Trusted: CPython's ast parser, the analyser under /verif/sa, the specification tables of "
                          "DESIGN.md Appendix A. Assumed: " + "; ".join(getattr(mod, "ASSUMPTIONS", []) or ["nothing further"]),
            "technique": getattr(mod, "TECHNIQUE", None) or TECHNIQUES.get(pid, "static analysis: custom AST/CFG/dataflow rules"),
        })
    manifest = {
        "version": 1,
        "setup_cmd": "/venv/bin/python -m compileall -q sa selftest tools >/dev/null 2>&1 || python3 -m compileall -q sa selftest tools",
        "hooks": {
            "guard": "FUZZYLITE_PYFUZZYLITE_VERIF",
            "enable": "none needed: the checks parse /repo with ast and never import or run it; no source commit uses the guard",
            "baseline_off_cmd": "cd /repo && /venv/bin/python -m pytest -ra -q -p no:cacheprovider --timeout=900 --continue-on-collection-errors",
            "source_commits": [],
            "add_only": True,
        },
        "engines": [{
            "name": "sa",
            "path": "/verif/sa",
            "serves_properties": [c["property_id"] for c in checks],
            "kind_free_text": "repository-specific static analyser: program model (classes, MRO, properties), per-function "
                              "CFG with dominance / control dependence / reaching definitions, origin tracing, "
                              "exhaustive guard truth tables over weak orders, abstract interpretation of numpy kernels "
                              "(extended-sign and order-type domains, rational-function normal forms), abstract interpretation of the "
                              "token-driven pushdown parsers and of the settings context manager (sa/absexec.py), "
                              "table extraction and sibling cross-checks, parser automaton extraction",
        }],
        "checks": checks,
        "not_applicable": na,
        "notes": "All checks are static: they parse /repo's working tree on every run and never execute it. Exit 0 = every "
                 "obligation discharged (listed known findings are printed as KNOWN-FINDING); exit 1 + VIOLATION line = an "
                 "unlisted violation; exit 2 + ANALYSIS-ERROR = the analyser could not decide (vanished anchor, unknown "
                 "construct, instance count below floor) - never a silent pass. Thorough tier = same rules plus the "
                 "checker self-test (seeded mutants must be reported, equivalent rewrites must stay silent).",
    }
    with open(os.path.join(HERE, "MANIFEST.json"), "w") as f:
        json.dump(manifest, f, indent=1)
        f.write("\n")
    print(f"claimed {len(checks)}, not applicable {len(na)}")


if __name__ == "__main__":
    main()
