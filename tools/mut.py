#!/usr/bin/env python3
"""tools/mut.py <PROP> <mutant-id>...: run selected self-test mutants / equivalents for one property and print the verdicts."""
import os
import sys

sys.path.insert(0, os.path.dirname(os.path.dirname(os.path.abspath(__file__))))
from sa.selftest import _one, load_registry, patch_registry, violations_of  # noqa: E402

prop, ids = sys.argv[1], set(sys.argv[2:])
reg = [m for m in load_registry() + patch_registry() if m["id"] in ids]
baseline, err = violations_of(prop, "/repo", None)
for m in reg:
    r = _one((prop, "/repo", m, sorted(baseline)))
    print(r["id"], r["result"], r.get("reported") or r.get("error") or r.get("why") or "")
