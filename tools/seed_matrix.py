#!/usr/bin/env python3
"""tools/seed_matrix.py [seed-dir-glob ...]: run every check (in memory, nothing applied to /repo) against seeded
changes and print which rule instances each one newly violates.  Not part of any verdict."""

from __future__ import annotations

import glob
import os
import sys
from concurrent.futures import ProcessPoolExecutor

sys.path.insert(0, os.path.dirname(os.path.dirname(os.path.abspath(__file__))))
from sa.cli import CLAIMED  # noqa: E402
from sa.selftest import patch_overrides, violations_of  # noqa: E402

ROOT = os.environ.get("VERIF_ROOT") or "/repo"


def base(prop):
    got, err = violations_of(prop, ROOT, None)
    return prop, sorted(got), err


def one(args):
    d, prop, baseline = args
    ov = patch_overrides(ROOT, os.path.join(d, "patch.diff"))
    if ov is None:
        return d, prop, None, "patch does not apply"
    try:
        got, err = violations_of(prop, ROOT, ov)
    except Exception as ex:  # noqa: BLE001
        return d, prop, [], f"crash {type(ex).__name__}: {ex}"
    return d, prop, sorted(set(got) - set(baseline)), err


def main():
    pats = sys.argv[1:] or ["/verif/seeded/*"]
    dirs = sorted(d for p in pats for d in glob.glob(p) if os.path.exists(os.path.join(d, "patch.diff")))
    props = os.environ.get("PROPS", "").split() or CLAIMED
    with ProcessPoolExecutor(16) as ex:
        bl = {p: b for p, b, _ in ex.map(base, props)}
        tasks = [(d, p, bl[p]) for d in dirs for p in props]
        res = list(ex.map(one, tasks))
    by = {}
    for d, p, new, err in res:
        by.setdefault(d, []).append((p, new, err))
    for d in dirs:
        own = os.path.basename(d)[:3]
        rows = [(p, n, e) for p, n, e in by[d] if n or e]
        own_hit = any(p == own and n for p, n, e in rows)
        any_hit = any(n for p, n, e in rows)
        tag = "OWN" if own_hit else ("other" if any_hit else "MISSED")
        print(f"## {os.path.basename(d)}: {tag}")
        for p, n, e in rows:
            if n:
                print(f"   {p}: {', '.join(n[:4])}{' ...' if len(n) > 4 else ''}")
            if e:
                print(f"   {p}: ANALYSIS-ERROR {e[:200]}")


if __name__ == "__main__":
    main()
