#!/venv/bin/python
"""tools/seed_meta_batch.py: write meta.json for seeds listed in tools/seed_descriptions.json (slug -> {change, needs, history}),
with `caught_by` computed by running every check in memory against the patch."""
import json
import os
import sys
from concurrent.futures import ProcessPoolExecutor

sys.path.insert(0, os.path.dirname(os.path.dirname(os.path.abspath(__file__))))
from sa.cli import CLAIMED  # noqa: E402
from tools.seed_matrix import base, one  # noqa: E402

VERIF = os.path.dirname(os.path.dirname(os.path.abspath(__file__)))


def main():
    desc = json.load(open(os.path.join(VERIF, "tools", "seed_descriptions.json")))
    slugs = [s for s in desc if os.path.isdir(os.path.join(VERIF, "seeded", s)) and (len(sys.argv) < 2 or s in sys.argv[1:])]
    with ProcessPoolExecutor(16) as ex:
        bl = {p: b for p, b, _ in ex.map(base, CLAIMED)}
        tasks = [(os.path.join(VERIF, "seeded", s), p, bl[p]) for s in slugs for p in CLAIMED]
        res = list(ex.map(one, tasks))
    by = {}
    for d, p, new, err in res:
        by.setdefault(os.path.basename(d), {})[p] = (new, err)
    for s in slugs:
        prop = s[:3]
        caught = sorted(p for p, (new, err) in by[s].items() if new)
        rules = sorted({k for p, (new, err) in by[s].items() for k in (new or [])})
        d = desc[s]
        meta = {
            "property": prop,
            "change": d["change"],
            "needs_to_manifest": d["needs"],
            "files": {"patch": "patch.diff", "demonstration": f"demo_{prop}.py"},
            "confirmed": {
                "how": "tools/seed_confirm.sh / seed_confirm2.sh in a scratch worktree of /repo HEAD (outside /repo and /verif): full pytest suite with the change = baseline; "
                       "demonstration exits 1 with the change and 0 without",
                "checks_run": "tools/seed_matrix.py: the patch applied to an in-memory copy of the package sources, every check run on it (nothing applied to /repo); "
                              "spot-checked with tools/seed_eval.sh (git -C /repo apply, every check quick, git -C /repo checkout -- .)",
            },
            "verdict": ("reported by " + ", ".join(caught) + ": " + "; ".join(rules[:6])) if caught else "not reported",
            "history": d["history"],
            "caught_by": caught,
        }
        with open(os.path.join(VERIF, "seeded", s, "meta.json"), "w") as f:
            json.dump(meta, f, indent=1)
        print(s, "->", caught or "NOT CAUGHT")


if __name__ == "__main__":
    main()
