#!/bin/sh
# Run every check against each behaviour-preserving variant in <dir>/refactor_*.diff: any VIOLATION is a false alarm.
DIR="$1"
cd /verif || exit 2
for f in "$DIR"/refactor_*.diff; do
  [ -s "$f" ] || continue
  echo "#### $(basename $f): $(grep -m1 "^$(basename $f .diff | sed 's/refactor_//'):" $DIR/refactors.txt 2>/dev/null | cut -c1-150)"
  tools/seed_eval.sh "$f" | grep -v "^== done"
done
