#!/usr/bin/env python3
"""tools/dbgn.py <PROP> <patch.diff>: like dbg.py, also printing the notes of the run."""
import os
import sys

sys.path.insert(0, os.path.dirname(os.path.dirname(os.path.abspath(__file__))))
from sa.cli import run_property  # noqa: E402
from sa.pm import Program  # noqa: E402
from sa.selftest import patch_overrides  # noqa: E402

prop, patch = sys.argv[1], sys.argv[2]
ch = run_property(prop, Program("/repo", overrides=patch_overrides("/repo", patch)))
for o in ch.obligations:
    if o.status != "ok":
        print(o.rule, o.construct, "|", o.what[:300], "|", o.loc)
for n in ch.notes:
    print("NOTE", n[:400])
print("INCOMPLETE", getattr(ch, "incomplete", None))
