#!/bin/sh
# tools/seed_round.sh <round-prefix e.g. r7> : confirm every change_X.diff / demo_X.py left by the agents in /tmp/wt/<prefix>_Cnn
# (in parallel, 4 at a time), saving confirmed ones as /verif/seeded/Cnn-<prefix><x>/ ; then print the matrix for the new seeds.
P="$1"
for wt in /tmp/wt/${P}_C*; do
  id=$(basename "$wt" | sed "s/${P}_//")
  for x in A B; do
    [ -f "$wt/change_$x.diff" ] && [ -f "$wt/demo_$x.py" ] || continue
    slug="$id-$P$(echo $x | tr AB ab)"
    [ -d "/verif/seeded/$slug" ] && continue
    [ -n "$(ls -d /verif/seeded/$id-*-$P$(echo $x | tr AB ab) 2>/dev/null)" ] && continue
    echo "$wt/change_$x.diff $wt/demo_$x.py $slug"
  done
done | xargs -P 2 -L 1 /verif/tools/seed_confirm2.sh 2>&1 | grep -E "CONFIRMED|does not apply"
