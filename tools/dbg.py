#!/usr/bin/env python3
"""tools/dbg.py <PROP> <patch.diff>: run one property's rules on a patched in-memory tree and print the non-ok obligations."""
import sys, os
sys.path.insert(0, os.path.dirname(os.path.dirname(os.path.abspath(__file__))))
from sa.selftest import patch_overrides
from sa.pm import Program, AnalysisError
from sa.cli import run_property
prop, patch = sys.argv[1], sys.argv[2]
ov = patch_overrides('/repo', patch)
try:
    ch = run_property(prop, Program('/repo', overrides=ov))
    for o in ch.obligations:
        if o.status != 'ok':
            print(o.rule, o.construct, '|', o.what[:int(sys.argv[3]) if len(sys.argv) > 3 else 500], '|', o.loc)
except AnalysisError as ex:
    print('ANALYSIS-ERROR', ex)
