#!/usr/bin/env python3
"""tools/refactor_matrix.py <dir>: run every check (in memory) against each behaviour-preserving variant <dir>/refactor_*.diff;
any new violation or analysis error is a false alarm of the checker."""
from __future__ import annotations

import glob
import os
import re
import sys
from concurrent.futures import ProcessPoolExecutor

sys.path.insert(0, os.path.dirname(os.path.dirname(os.path.abspath(__file__))))
from sa.cli import CLAIMED  # noqa: E402
from sa.selftest import patch_overrides, violations_of  # noqa: E402

ROOT = "/repo"


def base(prop):
    got, err = violations_of(prop, ROOT, None)
    return prop, sorted(got), err


def one(args):
    f, prop, baseline = args
    ov = patch_overrides(ROOT, f)
    if ov is None:
        return f, prop, None, "patch does not apply"
    try:
        got, err = violations_of(prop, ROOT, ov)
    except Exception as ex:  # noqa: BLE001
        return f, prop, [], f"crash {type(ex).__name__}: {ex}"
    return f, prop, sorted(set(got) - set(baseline)), err


def main():
    d = sys.argv[1]
    files = sorted(glob.glob(os.path.join(d, "refactor_*.diff")), key=lambda f: int(re.findall(r"(\d+)\.diff$", f)[0]))
    desc = {}
    try:
        for line in open(os.path.join(d, "refactors.txt")):
            m = re.match(r"\s*(\d+)\s*[:.]\s*(.*)", line)
            if m:
                desc[int(m.group(1))] = m.group(2)[:110]
    except OSError:
        pass
    with ProcessPoolExecutor(16) as ex:
        bl = {p: b for p, b, _ in ex.map(base, CLAIMED)}
        res = list(ex.map(one, [(f, p, bl[p]) for f in files for p in CLAIMED]))
    by = {}
    for f, p, new, err in res:
        by.setdefault(f, []).append((p, new, err))
    n_bad = 0
    for f in files:
        n = int(re.findall(r"(\d+)\.diff$", f)[0])
        rows = [(p, new, err) for p, new, err in by[f] if new or err]
        if rows:
            n_bad += 1
            print(f"#### {os.path.basename(f)}: {desc.get(n, '')}")
            for p, new, err in rows:
                if new:
                    print(f"   {p}: FALSE ALARM {new[:3]}")
                if err:
                    print(f"   {p}: ERROR {err[:200]}")
    print(f"{len(files)} variants, {n_bad} with false alarms / analysis errors")


if __name__ == "__main__":
    main()
