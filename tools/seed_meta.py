#!/venv/bin/python
"""Write seeded/<slug>/meta.json. Usage: seed_meta.py <slug> <property> <change> <needs> <verdict> <history> [caught_by ids...]"""
import json
import os
import sys

slug, prop, change, needs, verdict, history, *caught = sys.argv[1:]
d = os.path.join(os.path.dirname(os.path.dirname(os.path.abspath(__file__))), "seeded", slug)
meta = {
    "property": prop,
    "change": change,
    "needs_to_manifest": needs,
    "files": {"patch": "patch.diff", "demonstration": f"demo_{prop}.py"},
    "confirmed": {
        "how": "tools/seed_confirm.sh in a scratch worktree of /repo HEAD (outside /repo and /verif): full pytest suite with the change = baseline; demonstration exits 1 with the change and 0 without",
        "checks_run": "tools/seed_eval.sh <patch>: git -C /repo apply, every check quick, git -C /repo checkout -- .",
    },
    "verdict": verdict,
    "history": history,
    "caught_by": caught,
}
with open(os.path.join(d, "meta.json"), "w") as f:
    json.dump(meta, f, indent=1)
print("wrote", d)
