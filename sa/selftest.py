"""Checker self-test: seeded mutants must be reported, behaviour-preserving rewrites must stay silent.

Mutants are text edits applied *in memory* to the current sources of the analysed tree (nothing is written
to disk, nothing is executed). A mutant whose anchor text no longer occurs exactly once is skipped and
reported as such. The self-test never decides a property: a failure is an ANALYSIS-ERROR of the checker.
"""

from __future__ import annotations

import ast
import importlib.util
import os
from concurrent.futures import ProcessPoolExecutor
from typing import Any

from .pm import AnalysisError, Program
from .report import VERIF


def load_registry() -> list[dict[str, Any]]:
    path = os.path.join(VERIF, "selftest", "mutants.py")
    spec = importlib.util.spec_from_file_location("verif_mutants", path)
    mod = importlib.util.module_from_spec(spec)  # type: ignore[arg-type]
    spec.loader.exec_module(mod)  # type: ignore[union-attr]
    return mod.MUTANTS


def apply_edits(root: str, edits: list[tuple[str, str, str]]) -> dict[str, str] | None:
    """Return overrides {relpath: new source}, or None when an anchor text is not unique any more."""
    out: dict[str, str] = {}
    for rel, old, new in edits:
        src = out.get(rel)
        if src is None:
            with open(os.path.join(root, rel), encoding="utf-8") as f:
                src = f.read()
        if src.count(old) != 1:
            return None
        src = src.replace(old, new)
        try:
            ast.parse(src)
        except SyntaxError:
            return None
        out[rel] = src
    return out


def patch_overrides(root: str, patch: str) -> dict[str, str] | None:
    """Apply a unified diff to a scratch copy of the package sources (under the system temp dir, removed at once) and
    return the changed files as in-memory overrides; None when the patch no longer applies."""
    import shutil
    import subprocess
    import tempfile

    tmp = tempfile.mkdtemp(prefix="verif-patch-")
    try:
        shutil.copytree(os.path.join(root, "fuzzylite"), os.path.join(tmp, "fuzzylite"), ignore=shutil.ignore_patterns("examples", "__pycache__", "*.fld", "*.fll"))
        r = subprocess.run(["git", "apply", "--whitespace=nowarn", os.path.abspath(patch)], cwd=tmp, capture_output=True, text=True)
        if r.returncode != 0:
            return None
        out = {}
        for name in os.listdir(os.path.join(tmp, "fuzzylite")):
            if name.endswith(".py"):
                with open(os.path.join(tmp, "fuzzylite", name), encoding="utf-8") as f:
                    new = f.read()
                with open(os.path.join(root, "fuzzylite", name), encoding="utf-8") as f:
                    old = f.read()
                if new != old:
                    out[f"fuzzylite/{name}"] = new
        return out
    finally:
        shutil.rmtree(tmp, ignore_errors=True)


def patch_registry() -> list[dict[str, Any]]:
    """Behaviour-preserving variants (selftest/equivalents/*.diff) and confirmed seeded changes (seeded/*/patch.diff)."""
    import glob
    import json

    out: list[dict[str, Any]] = []
    for f in sorted(glob.glob(os.path.join(VERIF, "selftest", "equivalents", "*.diff"))):
        out.append({"id": "eqv-" + os.path.basename(f)[:-5], "props": None, "patch": f, "kind": "equivalent", "expect": ""})
    for d in sorted(glob.glob(os.path.join(VERIF, "seeded", "*"))):
        meta = os.path.join(d, "meta.json")
        if not os.path.exists(meta):
            continue
        with open(meta, encoding="utf-8") as fh:
            m = json.load(fh)
        caught = m.get("caught_by")
        if caught:
            out.append({"id": "seed-" + os.path.basename(d), "props": caught, "patch": os.path.join(d, "patch.diff"), "kind": "mutant", "expect": ""})
    return out


def violations_of(prop: str, root: str, overrides: dict[str, str] | None) -> tuple[set[str], str | None]:
    from .cli import run_property

    try:
        check = run_property(prop, Program(root, overrides=overrides))
        return {o.key for o in check.obligations if o.status == "violation"}, getattr(check, "incomplete", None)
    except AnalysisError as ex:
        return set(), str(ex)


ROUNDTRIP = {"T10", "RT-sem", "PY-sem", "R1-sem"}
SUBSUMED = {**{r: ROUNDTRIP for r in ("T4", "T5", "T6", "T7", "T8", "T13", "T14", "T17", "R1", "R2", "R5", "R6", "R8", "R9", "H7", "OutputVariable", "")},
            "T10": ROUNDTRIP}


def _one(args: tuple[str, str, dict[str, Any], list[str]]) -> dict[str, Any]:
    prop, root, m, baseline = args
    ov = patch_overrides(root, m["patch"]) if "patch" in m else apply_edits(root, m["edits"])
    if ov is None:
        return {"id": m["id"], "result": "skipped", "why": "anchor text no longer applies"}
    try:
        got, err = violations_of(prop, root, ov)
    except Exception as ex:  # noqa: BLE001
        return {"id": m["id"], "result": "crash", "why": f"{type(ex).__name__}: {ex}"}
    new = sorted(got - set(baseline))
    kind = m.get("kind", "mutant")
    if kind == "equivalent":
        ok = not new and err is None
        return {"id": m["id"], "result": "silent" if ok else "FALSE-ALARM", "reported": new, "error": err}
    if err is not None and m.get("expect") == "ANALYSIS-ERROR":
        return {"id": m["id"], "result": "rejected", "error": err}
    exp = m.get("expect", "")
    hit = [k for k in new if exp in k]
    if not hit and exp.split("/")[0] in SUBSUMED and any(k.split("/")[0] in SUBSUMED[exp.split("/")[0]] for k in new):
        # the table rule the mutant was written against is the fallback of an interpretation that now decides the clause: the mutant counts as
        # reported when that interpretation reports it (under its own keys: the field that does not come back, the aspect that fails)
        hit = [k for k in new if k.split("/")[0] in SUBSUMED[exp.split("/")[0]]]
    if hit:
        return {"id": m["id"], "result": "killed", "reported": new}
    if err is not None:
        return {"id": m["id"], "result": "analysis-error", "error": err}
    return {"id": m["id"], "result": "MISSED", "reported": new, "expected": exp}


def run_for(prop: str, root: str, jobs: int | None = None) -> dict[str, Any]:
    reg = [m for m in load_registry() if prop in m["props"]]
    reg += [m for m in patch_registry() if m["props"] is None or prop in m["props"]]
    baseline, err = violations_of(prop, root, None)
    if err:
        raise AnalysisError(f"self-test baseline failed: {err}")
    tasks = [(prop, root, m, sorted(baseline)) for m in reg]
    jobs = jobs or min(16, max(1, len(tasks)))
    if len(tasks) <= 2:
        results = [_one(t) for t in tasks]
    else:
        with ProcessPoolExecutor(max_workers=jobs) as ex:
            results = list(ex.map(_one, tasks))
    summary = {
        "mutants": sum(1 for m in reg if m.get("kind", "mutant") == "mutant"),
        "equivalents": sum(1 for m in reg if m.get("kind") == "equivalent"),
        "killed": sum(1 for r in results if r["result"] in ("killed", "rejected")),
        "silent": sum(1 for r in results if r["result"] == "silent"),
        "skipped": [r["id"] for r in results if r["result"] == "skipped"],
        "failed": [r for r in results if r["result"] in ("MISSED", "FALSE-ALARM", "crash", "analysis-error")],
        "results": results,
    }
    for r in results:
        print(f"  selftest {r['id']:<40} {r['result']}" + (f" {r.get('reported') or r.get('error') or r.get('why')}" if r["result"] not in ("killed", "silent") else ""))
    if summary["failed"]:
        raise AnalysisError(f"checker self-test failed for {prop}: " + "; ".join(f"{r['id']}={r['result']}" for r in summary["failed"]))
    return summary


def main() -> int:
    import sys

    from .cli import CLAIMED

    props = [a.upper() for a in sys.argv[1:]] or CLAIMED
    rc = 0
    for prop in props:
        print(f"== {prop}")
        try:
            s = run_for(prop, os.environ.get("VERIF_ROOT") or "/repo")
            print(f"   killed {s['killed']}/{s['mutants']}  silent {s['silent']}/{s['equivalents']}  skipped {len(s['skipped'])}")
        except AnalysisError as ex:
            print(f"   SELFTEST-FAILED {ex}")
            rc = 2
    return rc


if __name__ == "__main__":
    raise SystemExit(main())
