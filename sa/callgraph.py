"""Name-based class-hierarchy call graph over the analysed package (sound over-approximation).

Receivers are resolved through origin tracing where possible (`self`, class names, annotated
parameters, constructor results); otherwise every in-package method of that name is a callee.
Property reads/writes are edges to the getters/setters of that name.
"""

from __future__ import annotations

import ast

from .cfg import cfg_of
from .pm import ClassInfo, FunctionInfo, Program, dotted
from .sym import Resolver, Term

BUILTIN_RECEIVERS = {"dict", "list", "set", "tuple", "str", "frozenset", "collections.deque", "vars", "sorted", "reversed"}


def _annotation_classes(p: Program, fn: FunctionInfo, name: str) -> list[ClassInfo]:
    for prm in fn.params:
        if prm.name == name and prm.annotation is not None:
            out = []
            for x in ast.walk(prm.annotation):
                d = None
                if isinstance(x, ast.Name):
                    d = x.id
                elif isinstance(x, ast.Constant) and isinstance(x.value, str):
                    d = x.value
                if d:
                    c = p.resolve_class_name(d, fn.module, fn.cls)
                    if c is not None:
                        out.append(c)
            return out
    return []


class CallGraph:
    def __init__(self, p: Program):
        self.p = p
        self.by_method: dict[str, list[FunctionInfo]] = {}
        self.getters: dict[str, list[FunctionInfo]] = {}
        self.setters: dict[str, list[FunctionInfo]] = {}
        for c in p.classes.values():
            for n, f in c.methods.items():
                self.by_method.setdefault(n, []).append(f)
            for n, f in c.getters.items():
                self.getters.setdefault(n, []).append(f)
            for n, f in c.setters.items():
                self.setters.setdefault(n, []).append(f)
        self._edges: dict[str, set[str]] = {}
        self._fn: dict[str, FunctionInfo] = {f.qualname: f for f in p.functions.values()}

    def _methods_of(self, classes: list[ClassInfo], name: str) -> list[FunctionInfo]:
        out: list[FunctionInfo] = []
        for c in classes:
            f = c.lookup(name)
            if f is not None:
                out.append(f)
            for sub in self.p.subclasses(c.qualname):
                if name in sub.methods:
                    out.append(sub.methods[name])
        return out

    def receiver_classes(self, r: Resolver, t: Term) -> list[ClassInfo] | None:
        """Classes a receiver term may be an instance of; None = unknown."""
        p = self.p
        fn = r.fn
        if t == ("param", "self") and fn.cls is not None:
            return [fn.cls]
        if t == ("param", "cls") and fn.cls is not None:
            return [fn.cls]
        if t[0] == "param":
            cs = _annotation_classes(p, fn, t[1])
            return cs or None
        if t[0] == "call" and t[1][0] == "global":
            c = self._class_of_global(t[1][1])
            if c is not None:
                return [c]
            if t[1][1] in BUILTIN_RECEIVERS:
                return []
        if t[0] == "global":
            c = self._class_of_global(t[1])
            if c is not None:
                return [c]  # Class.method(...)
            if t[1] in ("fuzzylite.library.settings",):
                return [p.cls("Settings")]
            if t[1] in ("fuzzylite.library.representation",):
                return [p.cls("Representation")]
            if not t[1].startswith(p.package):
                return []  # external module / builtin
        if t[0] in ("list", "dict", "set", "tuple", "const", "fstr"):
            return []
        if t[0] == "phi":
            acc: list[ClassInfo] = []
            for a in t[1]:
                cs = self.receiver_classes(r, a)
                if cs is None:
                    return None
                acc += cs
            return acc
        return None

    def _class_of_global(self, name: str) -> ClassInfo | None:
        parts = name.split(".")
        for i in range(len(parts), 0, -1):
            if ".".join(parts[:i]) in self.p.modules:
                qual = ".".join(parts[i:])
                return self.p.classes.get(qual)
        return None

    def callees(self, fn: FunctionInfo) -> set[str]:
        if fn.qualname in self._edges:
            return self._edges[fn.qualname]
        out: set[str] = set()
        r = Resolver(self.p, fn)
        cfg = r.cfg
        for n in cfg.stmt_nodes():
            for e in cfg.exprs_of(n):
                for x in ast.walk(e):
                    if isinstance(x, ast.Call):
                        out |= self._call_targets(r, x, n)
                    elif isinstance(x, ast.Attribute) and isinstance(x.ctx, ast.Load) and x.attr in self.getters:
                        out |= self._prop_targets(r, x, n, self.getters)
            for t in cfg.stores_at(n):
                if isinstance(t, ast.Attribute) and t.attr in self.setters:
                    out |= self._prop_targets(r, t, n, self.setters)
        self._edges[fn.qualname] = out
        return out

    def _prop_targets(self, r: Resolver, x: ast.Attribute, n, table) -> set[str]:
        recv = r.term(x.value, n)
        cs = self.receiver_classes(r, recv)
        if cs is None:
            return {f.qualname for f in table[x.attr]}
        out = set()
        for c in cs:
            for k in [c] + self.p.subclasses(c.qualname):
                f = (k.lookup_getter(x.attr) if table is self.getters else k.lookup_setter(x.attr))
                if f is not None:
                    out.add(f.qualname)
        return out

    def _call_targets(self, r: Resolver, c: ast.Call, n) -> set[str]:
        p = self.p
        f = c.func
        out: set[str] = set()
        if isinstance(f, ast.Name):
            t = r.term(f, n)
            if t[0] == "global":
                cls = self._class_of_global(t[1])
                if cls is not None:
                    init = cls.lookup("__init__")
                    if init is not None:
                        out.add(init.qualname)
                else:
                    last = t[1].split(".")[-1]
                    if t[1].startswith(p.package) and last in p.functions:
                        out.add(last)
            return out
        if isinstance(f, ast.Attribute):
            recv = r.term(f.value, n)
            name = f.attr
            # super().m()
            if recv[0] == "call" and recv[1] == ("global", "super") and r.fn.cls is not None:
                for k in r.fn.cls.mro[1:]:
                    if name in k.methods:
                        out.add(k.methods[name].qualname)
                        break
                return out
            full = r.term(f, n)
            if full[0] == "global":
                cls = self._class_of_global(full[1])
                if cls is not None:  # Outer.Inner(...) constructor
                    init = cls.lookup("__init__")
                    if init is not None:
                        out.add(init.qualname)
                    return out
                owner = self._class_of_global(full[1].rsplit(".", 1)[0])
                if owner is not None:
                    m = owner.lookup(name)
                    if m is not None:
                        out.add(m.qualname)
                    return out
                if not full[1].startswith(p.package):
                    return out
            cs = self.receiver_classes(r, recv)
            if cs is None:
                for m in self.by_method.get(name, []):
                    out.add(m.qualname)
            else:
                for m in self._methods_of(cs, name):
                    out.add(m.qualname)
        return out

    def reachable(self, roots: list[str], stop: set[str] | None = None) -> dict[str, str | None]:
        """qualname -> predecessor (for path reconstruction)."""
        pred: dict[str, str | None] = {}
        work = []
        for rt in roots:
            f = self.p.func(rt)
            pred[f.qualname] = None
            work.append(f.qualname)
        while work:
            q = work.pop(0)
            if stop and q in stop:
                continue
            f = self._fn.get(q)
            if f is None:
                continue
            for c in sorted(self.callees(f)):
                if c not in pred:
                    pred[c] = q
                    work.append(c)
        return pred

    def path_to(self, pred: dict[str, str | None], q: str) -> list[str]:
        out = [q]
        while pred.get(out[-1]) is not None:
            out.append(pred[out[-1]])  # type: ignore[arg-type]
        return list(reversed(out))
