"""Bounded inlining of single-use private helpers (undoes "extract method" refactorings before analysis).

A call `self._helper(args)` (also `cls._helper`, `ClassName._helper`) is replaced by the helper's body when
  * the helper is a method of the same class hierarchy, its name starts with one underscore,
  * it has exactly one call site in the whole package (shared multi-statement helpers such as `_parse` stay calls),
    or its body is a single `return <expr>` (then every call site can be expanded),
  * it is not recursive, has no decorators other than staticmethod/classmethod, no *args/**kwargs, no yield,
  * either its body is a single `return <expr>` (expression inlining anywhere), or the call is the whole value of an
    assignment / expression statement / return and the helper returns only in its last statement (statement inlining).
Parameters are substituted by the argument expressions (analysis only: evaluation order is irrelevant here); the
helper's locals are renamed to avoid capture. Line numbers of inlined statements keep pointing at the helper.
"""

from __future__ import annotations

import ast
import copy
from typing import Any

from .pm import ClassInfo, FunctionInfo, Program


def _strip_doc(body: list[ast.stmt]) -> list[ast.stmt]:
    if body and isinstance(body[0], ast.Expr) and isinstance(body[0].value, ast.Constant) and isinstance(body[0].value.value, str):
        return body[1:]
    return body


def call_site_counts(p: Program) -> dict[str, int]:
    counts = p.__dict__.get("_helper_call_counts")
    if counts is None:
        counts = {}
        for mod in p.modules.values():
            for x in ast.walk(mod.tree):
                if isinstance(x, ast.Call) and isinstance(x.func, ast.Attribute) and x.func.attr.startswith("_") and not x.func.attr.startswith("__"):
                    counts[x.func.attr] = counts.get(x.func.attr, 0) + 1
                elif isinstance(x, ast.Attribute) and x.attr.startswith("_") and not x.attr.startswith("__") and isinstance(x.ctx, ast.Load):
                    # a bare reference (p = self._precedence) makes the helper multi-use
                    counts.setdefault(x.attr, 0)
            for x in ast.walk(mod.tree):
                if isinstance(x, ast.Assign) and isinstance(x.value, ast.Attribute) and x.value.attr.startswith("_"):
                    counts[x.value.attr] = counts.get(x.value.attr, 0) + 2
        p.__dict__["_helper_call_counts"] = counts
    return counts


def _helper_for(p: Program, fn: FunctionInfo, call: ast.Call) -> FunctionInfo | None:
    f = call.func
    if not (isinstance(f, ast.Attribute) and f.attr.startswith("_") and not f.attr.startswith("__")):
        return None
    if fn.cls is None:
        return None
    recv_ok = isinstance(f.value, ast.Name) and (f.value.id in ("self", "cls") or f.value.id == fn.cls.name)
    if not recv_ok:
        return None
    target = fn.cls.lookup(f.attr)
    if target is None or target is fn or target.cls is None:
        return None
    body = _strip_doc(target.node.body)
    single_expr = len(body) == 1 and isinstance(body[0], ast.Return) and body[0].value is not None
    if call_site_counts(p).get(f.attr, 0) != 1 and not single_expr:
        return None
    if any(d not in ("staticmethod", "classmethod") for d in target.decorators):
        return None
    a = target.node.args
    if a.vararg or a.kwarg or any(isinstance(x, ast.Starred) for x in call.args) or any(k.arg is None for k in call.keywords):
        return None
    if any(isinstance(x, (ast.Yield, ast.YieldFrom, ast.Global, ast.Nonlocal, ast.FunctionDef, ast.Lambda)) for x in ast.walk(target.node) if x is not target.node):
        return None
    return target


def _bind(target: FunctionInfo, call: ast.Call) -> dict[str, ast.expr] | None:
    params = [x for x in target.params]
    names = [x.name for x in params]
    bound: dict[str, ast.expr] = {}
    skip = 0 if target.is_static else 1
    recv = call.func.value  # type: ignore[union-attr]
    if skip:
        bound[names[0]] = recv
    pos = names[skip:]
    if len(call.args) > len(pos):
        return None
    for n, a in zip(pos, call.args):
        bound[n] = a
    for k in call.keywords:
        if k.arg in bound or k.arg not in names:
            return None
        bound[k.arg] = k.value  # type: ignore[index]
    for prm in params:
        if prm.name not in bound:
            if prm.default is None:
                return None
            bound[prm.name] = prm.default  # type: ignore[assignment]
    return bound


class _Subst(ast.NodeTransformer):
    def __init__(self, mapping: dict[str, ast.expr], rename: dict[str, str]):
        self.mapping = mapping
        self.rename = rename

    def visit_Name(self, node: ast.Name) -> Any:
        if node.id in self.rename:
            return ast.copy_location(ast.Name(id=self.rename[node.id], ctx=node.ctx), node)
        if node.id in self.mapping and isinstance(node.ctx, ast.Load):
            return ast.copy_location(copy.deepcopy(self.mapping[node.id]), node)
        return node


def _locals_of(target: FunctionInfo) -> set[str]:
    params = {x.name for x in target.params}
    out = set()
    for x in ast.walk(target.node):
        if isinstance(x, ast.Name) and isinstance(x.ctx, (ast.Store, ast.Del)):
            out.add(x.id)
    return out  # parameters that are re-assigned become locals too


def _prepare(target: FunctionInfo, bound: dict[str, ast.expr], tag: str) -> tuple[list[ast.stmt], list[ast.stmt]]:
    """(prologue assignments for re-assigned parameters, substituted body)."""
    assigned = _locals_of(target)
    rename = {n: f"_{tag}_{n}" for n in assigned}
    prologue: list[ast.stmt] = []
    mapping = {}
    for name, arg in bound.items():
        if name in assigned:
            a = ast.Assign(targets=[ast.Name(id=rename[name], ctx=ast.Store())], value=copy.deepcopy(arg), lineno=target.node.lineno, col_offset=0)
            prologue.append(ast.fix_missing_locations(a))
        else:
            mapping[name] = arg
    body = [_Subst(mapping, rename).visit(copy.deepcopy(s)) for s in _strip_doc(target.node.body)]
    return prologue, body


def _returns_only_last(body: list[ast.stmt]) -> bool:
    rets = [x for s in body for x in ast.walk(s) if isinstance(x, ast.Return)]
    if not rets:
        return True
    return len(rets) == 1 and isinstance(body[-1], ast.Return)


class _Inliner(ast.NodeTransformer):
    def __init__(self, p: Program, fn: FunctionInfo, depth: int):
        self.p = p
        self.fn = fn
        self.depth = depth
        self.count = 0
        self.inlined: list[str] = []

    # expression inlining: helper body is `return <expr>`
    def visit_Call(self, node: ast.Call) -> Any:
        self.generic_visit(node)
        target = _helper_for(self.p, self.fn, node)
        if target is None:
            return node
        body = _strip_doc(target.node.body)
        if len(body) == 1 and isinstance(body[0], ast.Return) and body[0].value is not None:
            bound = _bind(target, node)
            if bound is None:
                return node
            self.count += 1
            _, nb = _prepare(target, bound, f"inl{self.count}")
            self.inlined.append(target.qualname)
            return ast.copy_location(nb[0].value, node)  # type: ignore[union-attr]
        return node

    def _stmt_inline(self, stmt: ast.stmt, call: ast.Call, how: str, tgt: Any = None) -> list[ast.stmt] | None:
        target = _helper_for(self.p, self.fn, call)
        if target is None:
            return None
        body = _strip_doc(target.node.body)
        if not _returns_only_last(body):
            return None
        bound = _bind(target, call)
        if bound is None:
            return None
        self.count += 1
        prologue, nb = _prepare(target, bound, f"inl{self.count}")
        self.inlined.append(target.qualname)
        out = list(prologue)
        last = nb[-1] if nb else None
        if isinstance(last, ast.Return):
            out += nb[:-1]
            val = last.value if last.value is not None else ast.Constant(value=None)
            if how == "assign":
                new = copy.copy(stmt)
                new.value = val  # type: ignore[attr-defined]
                out.append(ast.copy_location(new, last))
            elif how == "return":
                out.append(ast.copy_location(ast.Return(value=val), stmt))
            else:
                out.append(ast.copy_location(ast.Expr(value=val), last))
        else:
            out += nb
            if how == "assign":
                new = copy.copy(stmt)
                new.value = ast.Constant(value=None)  # type: ignore[attr-defined]
                out.append(ast.copy_location(new, stmt))
            elif how == "return":
                out.append(ast.copy_location(ast.Return(value=None), stmt))
        for o in out:
            ast.fix_missing_locations(o)
        return out

    def _block(self, stmts: list[ast.stmt]) -> list[ast.stmt]:
        out: list[ast.stmt] = []
        for s in stmts:
            rep = None
            if isinstance(s, ast.Expr) and isinstance(s.value, ast.Call):
                rep = self._stmt_inline(s, s.value, "expr")
            elif isinstance(s, (ast.Assign, ast.AnnAssign, ast.AugAssign)) and isinstance(getattr(s, "value", None), ast.Call):
                rep = self._stmt_inline(s, s.value, "assign")  # type: ignore[arg-type]
            elif isinstance(s, ast.Return) and isinstance(s.value, ast.Call):
                rep = self._stmt_inline(s, s.value, "return")
            if rep is not None:
                out += [self.visit(x) for x in rep]
                continue
            out.append(self.visit(s))
        return out

    def generic_visit(self, node: ast.AST) -> ast.AST:
        for fld in ("body", "orelse", "finalbody"):
            v = getattr(node, fld, None)
            if isinstance(v, list) and v and isinstance(v[0], ast.stmt):
                setattr(node, fld, self._block(v))
        if isinstance(node, ast.Try):
            for h in node.handlers:
                h.body = self._block(h.body)
        # expressions
        for fld, value in ast.iter_fields(node):
            if fld in ("body", "orelse", "finalbody", "handlers") and isinstance(value, list) and value and isinstance(value[0], (ast.stmt, ast.ExceptHandler)):
                continue
            if isinstance(value, list):
                new = []
                for item in value:
                    new.append(self.visit(item) if isinstance(item, ast.AST) else item)
                setattr(node, fld, new)
            elif isinstance(value, ast.AST):
                setattr(node, fld, self.visit(value))
        return node


def inlined_function(p: Program, fn: FunctionInfo, depth: int = 2) -> tuple[ast.FunctionDef, list[str]]:
    """A deep copy of fn's AST with single-use private helpers inlined (up to `depth` rounds)."""
    node = copy.deepcopy(fn.node)
    done: list[str] = []
    for _ in range(depth):
        inl = _Inliner(p, fn, depth)
        node = inl.generic_visit(node)  # type: ignore[assignment]
        ast.fix_missing_locations(node)
        if not inl.inlined:
            break
        done += inl.inlined
    return node, done


# ------------------------------------------------------------------------------------------------ constant loops
class _ConstSubst(ast.NodeTransformer):
    def __init__(self, name: str, value: ast.expr):
        self.name = name
        self.value = value

    def visit_Name(self, node: ast.Name) -> Any:
        if node.id == self.name and isinstance(node.ctx, ast.Load):
            return ast.copy_location(copy.deepcopy(self.value), node)
        return node


class _Unroller(ast.NodeTransformer):
    """`for k in ("a", "b"): body` -> body[k:="a"]; body[k:="b"] (loops over a short literal sequence of constants whose
    variable is only read, without break/continue/else): the analysis then sees each iteration as straight-line code."""

    LIMIT = 16

    def __init__(self) -> None:
        self.count = 0

    def visit_For(self, node: ast.For) -> Any:
        self.generic_visit(node)
        it = node.iter
        if not (isinstance(node.target, ast.Name) and isinstance(it, (ast.Tuple, ast.List)) and 0 < len(it.elts) <= self.LIMIT
                and all(isinstance(e, ast.Constant) for e in it.elts) and not node.orelse):
            return node
        name = node.target.id
        for x in node.body:
            for y in ast.walk(x):
                if isinstance(y, (ast.Break, ast.Continue, ast.FunctionDef, ast.Lambda, ast.ListComp, ast.SetComp, ast.DictComp, ast.GeneratorExp)):
                    return node
                if isinstance(y, ast.Name) and y.id == name and not isinstance(y.ctx, ast.Load):
                    return node
        out: list[ast.stmt] = []
        for e in it.elts:
            for st in node.body:
                out.append(_ConstSubst(name, e).visit(copy.deepcopy(st)))
        self.count += 1
        return out


def unrolled(node: ast.FunctionDef) -> ast.FunctionDef:
    u = _Unroller()
    new = u.visit(node)
    if u.count:
        ast.fix_missing_locations(new)
    return new
