"""Bounded inlining of single-use private helpers (undoes "extract method" refactorings before analysis).

A call `self._helper(args)` (also `cls._helper`, `ClassName._helper`) is replaced by the helper's body when
  * the helper is a method of the same class hierarchy, its name starts with one underscore,
  * it has exactly one call site in the whole package (shared multi-statement helpers such as `_parse` stay calls),
    or its body is a single `return <expr>` (then every call site can be expanded),
  * it is not recursive, has no decorators other than staticmethod/classmethod, no *args/**kwargs, no yield,
  * either its body is a single `return <expr>` (expression inlining anywhere), or the call is the whole value of an
    assignment / expression statement / return and the helper returns only in its last statement (statement inlining).
Parameters are substituted by the argument expressions (analysis only: evaluation order is irrelevant here); the
helper's locals are renamed to avoid capture. Line numbers of inlined statements keep pointing at the helper.
"""

from __future__ import annotations

import ast
import copy
from typing import Any

from .pm import ClassInfo, FunctionInfo, Program


def _strip_doc(body: list[ast.stmt]) -> list[ast.stmt]:
    if body and isinstance(body[0], ast.Expr) and isinstance(body[0].value, ast.Constant) and isinstance(body[0].value.value, str):
        return body[1:]
    return body


def call_site_counts(p: Program) -> dict[str, int]:
    counts = p.__dict__.get("_helper_call_counts")
    if counts is None:
        counts = {}
        for mod in p.modules.values():
            for x in ast.walk(mod.tree):
                if isinstance(x, ast.Call) and isinstance(x.func, ast.Attribute) and x.func.attr.startswith("_") and not x.func.attr.startswith("__"):
                    counts[x.func.attr] = counts.get(x.func.attr, 0) + 1
                elif isinstance(x, ast.Attribute) and x.attr.startswith("_") and not x.attr.startswith("__") and isinstance(x.ctx, ast.Load):
                    # a bare reference (p = self._precedence) makes the helper multi-use
                    counts.setdefault(x.attr, 0)
            for x in ast.walk(mod.tree):
                if isinstance(x, ast.Assign) and isinstance(x.value, ast.Attribute) and x.value.attr.startswith("_"):
                    counts[x.value.attr] = counts.get(x.value.attr, 0) + 2
        p.__dict__["_helper_call_counts"] = counts
    return counts


def _helper_for(p: Program, fn: FunctionInfo, call: ast.Call) -> FunctionInfo | None:
    f = call.func
    if not (isinstance(f, ast.Attribute) and f.attr.startswith("_") and not f.attr.startswith("__")):
        return None
    if fn.cls is None:
        return None
    recv_ok = isinstance(f.value, ast.Name) and (f.value.id in ("self", "cls") or f.value.id == fn.cls.name)
    if not recv_ok:
        return None
    target = fn.cls.lookup(f.attr)
    if target is None or target is fn or target.cls is None:
        return None
    body = _strip_doc(target.node.body)
    single_expr = len(body) == 1 and isinstance(body[0], ast.Return) and body[0].value is not None
    if call_site_counts(p).get(f.attr, 0) != 1 and not single_expr:
        return None
    if any(d not in ("staticmethod", "classmethod") for d in target.decorators):
        return None
    a = target.node.args
    if a.vararg or a.kwarg or any(isinstance(x, ast.Starred) for x in call.args) or any(k.arg is None for k in call.keywords):
        return None
    if any(isinstance(x, (ast.Yield, ast.YieldFrom, ast.Global, ast.Nonlocal, ast.FunctionDef, ast.Lambda)) for x in ast.walk(target.node) if x is not target.node):
        return None
    return target


def _bind(target: FunctionInfo, call: ast.Call) -> dict[str, ast.expr] | None:
    params = [x for x in target.params]
    names = [x.name for x in params]
    bound: dict[str, ast.expr] = {}
    skip = 0 if target.is_static else 1
    recv = call.func.value  # type: ignore[union-attr]
    if skip:
        bound[names[0]] = recv
    pos = names[skip:]
    if len(call.args) > len(pos):
        return None
    for n, a in zip(pos, call.args):
        bound[n] = a
    for k in call.keywords:
        if k.arg in bound or k.arg not in names:
            return None
        bound[k.arg] = k.value  # type: ignore[index]
    for prm in params:
        if prm.name not in bound:
            if prm.default is None:
                return None
            bound[prm.name] = prm.default  # type: ignore[assignment]
    return bound


class _Subst(ast.NodeTransformer):
    def __init__(self, mapping: dict[str, ast.expr], rename: dict[str, str]):
        self.mapping = mapping
        self.rename = rename

    def visit_Name(self, node: ast.Name) -> Any:
        if node.id in self.rename:
            return ast.copy_location(ast.Name(id=self.rename[node.id], ctx=node.ctx), node)
        if node.id in self.mapping and isinstance(node.ctx, ast.Load):
            return ast.copy_location(copy.deepcopy(self.mapping[node.id]), node)
        return node


def _locals_of(target: FunctionInfo) -> set[str]:
    params = {x.name for x in target.params}
    out = set()
    for x in ast.walk(target.node):
        if isinstance(x, ast.Name) and isinstance(x.ctx, (ast.Store, ast.Del)):
            out.add(x.id)
    return out  # parameters that are re-assigned become locals too


def _prepare(target: FunctionInfo, bound: dict[str, ast.expr], tag: str) -> tuple[list[ast.stmt], list[ast.stmt]]:
    """(prologue assignments for re-assigned parameters, substituted body)."""
    assigned = _locals_of(target)
    rename = {n: f"_{tag}_{n}" for n in assigned}
    prologue: list[ast.stmt] = []
    mapping = {}
    for name, arg in bound.items():
        if name in assigned:
            a = ast.Assign(targets=[ast.Name(id=rename[name], ctx=ast.Store())], value=copy.deepcopy(arg), lineno=target.node.lineno, col_offset=0)
            prologue.append(ast.fix_missing_locations(a))
        else:
            mapping[name] = arg
    body = [_Subst(mapping, rename).visit(copy.deepcopy(s)) for s in _strip_doc(target.node.body)]
    return prologue, body


def _returns_only_last(body: list[ast.stmt]) -> bool:
    rets = [x for s in body for x in ast.walk(s) if isinstance(x, ast.Return)]
    if not rets:
        return True
    return len(rets) == 1 and isinstance(body[-1], ast.Return)


def _single_exit(body: list[ast.stmt], result: str) -> list[ast.stmt] | None:
    """Rewrite a body with structured early returns (guard clauses, if/elif/else chains ending in return) into one whose only return is
    its last statement: every `return E` becomes `result = E` and the statements after a returning branch move into the else branch.
    None when a return sits inside a loop / try / with (not restructured)."""
    for s in body:
        for x in ast.walk(s):
            if isinstance(x, (ast.For, ast.While, ast.Try, ast.With)) and any(isinstance(y, ast.Return) for y in ast.walk(x)):
                return None

    def always_returns(stmts: list[ast.stmt]) -> bool:
        if not stmts:
            return False
        last = stmts[-1]
        if isinstance(last, (ast.Return, ast.Raise)):
            return True
        if isinstance(last, ast.If):
            return bool(last.orelse) and always_returns(last.body) and always_returns(last.orelse)
        return False

    def conv(stmts: list[ast.stmt]) -> list[ast.stmt]:
        out: list[ast.stmt] = []
        for i, st in enumerate(stmts):
            if isinstance(st, ast.Return):
                val = st.value if st.value is not None else ast.Constant(value=None)
                out.append(ast.copy_location(ast.Assign(targets=[ast.Name(id=result, ctx=ast.Store())], value=val), st))
                return out
            if isinstance(st, ast.If) and any(isinstance(y, ast.Return) for y in ast.walk(st)):
                rest = stmts[i + 1:]
                body_ = conv(st.body + ([] if always_returns(st.body) else rest))
                else_ = conv((st.orelse or []) + ([] if (st.orelse and always_returns(st.orelse)) else rest))
                new = ast.copy_location(ast.If(test=st.test, body=body_ or [ast.Pass()], orelse=else_), st)
                out.append(new)
                return out
            out.append(st)
        return out

    new = conv(copy.deepcopy(body))
    new.append(ast.Return(value=ast.Name(id=result, ctx=ast.Load())))
    for n_ in new:
        ast.fix_missing_locations(n_)
    return new


class _Inliner(ast.NodeTransformer):
    def __init__(self, p: Program, fn: FunctionInfo, depth: int):
        self.p = p
        self.fn = fn
        self.depth = depth
        self.count = 0
        self.inlined: list[str] = []

    # expression inlining: helper body is `return <expr>`
    def visit_Call(self, node: ast.Call) -> Any:
        self.generic_visit(node)
        target = _helper_for(self.p, self.fn, node)
        if target is None:
            return node
        body = _strip_doc(target.node.body)
        if len(body) == 1 and isinstance(body[0], ast.Return) and body[0].value is not None:
            bound = _bind(target, node)
            if bound is None:
                return node
            self.count += 1
            _, nb = _prepare(target, bound, f"inl{self.count}")
            self.inlined.append(target.qualname)
            return ast.copy_location(nb[0].value, node)  # type: ignore[union-attr]
        return node

    def _stmt_inline(self, stmt: ast.stmt, call: ast.Call, how: str, tgt: Any = None) -> list[ast.stmt] | None:
        target = _helper_for(self.p, self.fn, call)
        if target is None:
            return None
        body = _strip_doc(target.node.body)
        restructured = None
        if not _returns_only_last(body):
            restructured = _single_exit(body, f"__result_{target.name}")
            if restructured is None:
                return None
        bound = _bind(target, call)
        if bound is None:
            return None
        self.count += 1
        if restructured is not None:
            import dataclasses

            node2 = copy.copy(target.node)
            node2.body = restructured
            shadow = dataclasses.replace(target, node=node2)
            prologue, nb = _prepare(shadow, bound, f"inl{self.count}")
        else:
            prologue, nb = _prepare(target, bound, f"inl{self.count}")
        self.inlined.append(target.qualname)
        out = list(prologue)
        last = nb[-1] if nb else None
        if isinstance(last, ast.Return):
            out += nb[:-1]
            val = last.value if last.value is not None else ast.Constant(value=None)
            if how == "assign":
                new = copy.copy(stmt)
                new.value = val  # type: ignore[attr-defined]
                out.append(ast.copy_location(new, last))
            elif how == "return":
                out.append(ast.copy_location(ast.Return(value=val), stmt))
            else:
                out.append(ast.copy_location(ast.Expr(value=val), last))
        else:
            out += nb
            if how == "assign":
                new = copy.copy(stmt)
                new.value = ast.Constant(value=None)  # type: ignore[attr-defined]
                out.append(ast.copy_location(new, stmt))
            elif how == "return":
                out.append(ast.copy_location(ast.Return(value=None), stmt))
        for o in out:
            ast.fix_missing_locations(o)
        return out

    def _block(self, stmts: list[ast.stmt]) -> list[ast.stmt]:
        out: list[ast.stmt] = []
        for s in stmts:
            rep = None
            if isinstance(s, ast.Expr) and isinstance(s.value, ast.Call):
                rep = self._stmt_inline(s, s.value, "expr")
            elif isinstance(s, (ast.Assign, ast.AnnAssign, ast.AugAssign)) and isinstance(getattr(s, "value", None), ast.Call):
                rep = self._stmt_inline(s, s.value, "assign")  # type: ignore[arg-type]
            elif isinstance(s, ast.Return) and isinstance(s.value, ast.Call):
                rep = self._stmt_inline(s, s.value, "return")
            if rep is not None:
                out += [self.visit(x) for x in rep]
                continue
            hoisted = self._hoist(s)
            if hoisted is not None:
                out += self._block(hoisted)
                continue
            out.append(self.visit(s))
        return out

    def _hoist(self, s: ast.stmt) -> list[ast.stmt] | None:
        """`x = f(a) + self._helper(b)`: a multi-statement helper called inside the expression of a simple statement is bound to a
        temporary first (`__h = self._helper(b); x = f(a) + __h`), after which statement inlining applies. Only calls that are
        evaluated unconditionally (not inside `and`/`or`, a conditional expression, a lambda or a comprehension) are hoisted."""
        if not isinstance(s, (ast.Assign, ast.AnnAssign, ast.AugAssign, ast.Return, ast.Expr)) or getattr(s, "value", None) is None:
            return None
        found: list[ast.Call] = []

        def rec(x: ast.AST, top: bool) -> None:
            if isinstance(x, (ast.BoolOp, ast.IfExp, ast.Lambda, ast.ListComp, ast.SetComp, ast.DictComp, ast.GeneratorExp)):
                return
            if isinstance(x, ast.Call) and not top:
                t = _helper_for(self.p, self.fn, x)
                if t is not None:
                    body = _strip_doc(t.node.body)
                    if not (len(body) == 1 and isinstance(body[0], ast.Return)) and _returns_only_last(body) and _bind(t, x) is not None:
                        found.append(x)
                        return
            for c in ast.iter_child_nodes(x):
                rec(c, False)

        rec(s.value, True)  # type: ignore[arg-type]
        if not found:
            return None
        call = found[0]
        self.count += 1
        name = f"__hoisted{self.count}"

        class _Sub(ast.NodeTransformer):
            def visit_Call(self_inner, node: ast.Call) -> Any:  # noqa: N805
                if node is call:
                    return ast.copy_location(ast.Name(id=name, ctx=ast.Load()), node)
                return self_inner.generic_visit(node)

        new_s = copy.copy(s)
        new_s.value = _Sub().visit(copy.deepcopy(s.value) if False else s.value)  # type: ignore[attr-defined]
        pre = ast.copy_location(ast.Assign(targets=[ast.Name(id=name, ctx=ast.Store())], value=call), s)
        ast.fix_missing_locations(pre)
        ast.fix_missing_locations(new_s)
        return [pre, new_s]

    def generic_visit(self, node: ast.AST) -> ast.AST:
        for fld in ("body", "orelse", "finalbody"):
            v = getattr(node, fld, None)
            if isinstance(v, list) and v and isinstance(v[0], ast.stmt):
                setattr(node, fld, self._block(v))
        if isinstance(node, ast.Try):
            for h in node.handlers:
                h.body = self._block(h.body)
        # expressions
        for fld, value in ast.iter_fields(node):
            if fld in ("body", "orelse", "finalbody", "handlers") and isinstance(value, list) and value and isinstance(value[0], (ast.stmt, ast.ExceptHandler)):
                continue
            if isinstance(value, list):
                new = []
                for item in value:
                    new.append(self.visit(item) if isinstance(item, ast.AST) else item)
                setattr(node, fld, new)
            elif isinstance(value, ast.AST):
                setattr(node, fld, self.visit(value))
        return node


def inlined_function(p: Program, fn: FunctionInfo, depth: int = 2) -> tuple[ast.FunctionDef, list[str]]:
    """A deep copy of fn's AST with single-use private helpers inlined (up to `depth` rounds)."""
    node = copy.deepcopy(fn.node)
    done: list[str] = []
    for _ in range(depth):
        inl = _Inliner(p, fn, depth)
        node = inl.generic_visit(node)  # type: ignore[assignment]
        ast.fix_missing_locations(node)
        if not inl.inlined:
            break
        done += inl.inlined
    return node, done


# ------------------------------------------------------------------------------------------------ constant loops
class _ConstSubst(ast.NodeTransformer):
    def __init__(self, name: str, value: ast.expr):
        self.name = name
        self.value = value

    def visit_Name(self, node: ast.Name) -> Any:
        if node.id == self.name and isinstance(node.ctx, ast.Load):
            return ast.copy_location(copy.deepcopy(self.value), node)
        return node


class _Unroller(ast.NodeTransformer):
    """`for k in ("a", "b"): body` -> body[k:="a"]; body[k:="b"] (loops over a short literal sequence of constants whose
    variable is only read, without break/continue/else): the analysis then sees each iteration as straight-line code."""

    LIMIT = 16

    def __init__(self, literals: dict[str, ast.AST] | None = None) -> None:
        self.count = 0
        self.literals = literals or {}  # local names bound exactly once to a list / tuple literal

    def _rows(self, node: ast.For) -> Any:
        """`for a, b in [(x1, y1), (x2, y2)]` (the literal given directly or through a local bound once): the rows as
        [{a: x1, b: y1}, ...]; None when the loop does not have this shape."""
        it = node.iter
        if isinstance(it, ast.Name) and it.id in self.literals:
            it = self.literals[it.id]
        if not (isinstance(it, (ast.Tuple, ast.List)) and 0 < len(it.elts) <= self.LIMIT and not node.orelse):
            return None
        tg = node.target
        names = [tg.id] if isinstance(tg, ast.Name) else ([e.id for e in tg.elts] if isinstance(tg, ast.Tuple) and all(isinstance(e, ast.Name) for e in tg.elts) else None)
        if names is None or isinstance(tg, ast.Name):
            return None
        rows = []
        for e in it.elts:
            if not (isinstance(e, ast.Tuple) and len(e.elts) == len(names)) or any(isinstance(x, ast.Starred) for x in e.elts):
                return None
            rows.append(dict(zip(names, e.elts)))
        return names, rows

    def visit_For(self, node: ast.For) -> Any:
        self.generic_visit(node)
        it = node.iter
        multi = self._rows(node)
        if multi is not None:
            names, rows = multi
            for x in node.body:
                for y in ast.walk(x):
                    if isinstance(y, (ast.Break, ast.Continue, ast.FunctionDef, ast.Lambda)):
                        return node
                    if isinstance(y, ast.Name) and y.id in names and not isinstance(y.ctx, ast.Load):
                        return node
            out_: list[ast.stmt] = []
            for row in rows:
                for st in node.body:
                    new = copy.deepcopy(st)
                    for nm, val in row.items():
                        new = _ConstSubst(nm, val).visit(new)
                    out_.append(new)
            self.count += 1
            return out_
        if not (isinstance(node.target, ast.Name) and isinstance(it, (ast.Tuple, ast.List)) and 0 < len(it.elts) <= self.LIMIT
                and all(isinstance(e, ast.Constant) for e in it.elts) and not node.orelse):
            return node
        name = node.target.id
        for x in node.body:
            for y in ast.walk(x):
                if isinstance(y, (ast.Break, ast.Continue, ast.FunctionDef, ast.Lambda, ast.ListComp, ast.SetComp, ast.DictComp, ast.GeneratorExp)):
                    return node
                if isinstance(y, ast.Name) and y.id == name and not isinstance(y.ctx, ast.Load):
                    return node
        out: list[ast.stmt] = []
        for e in it.elts:
            for st in node.body:
                out.append(_ConstSubst(name, e).visit(copy.deepcopy(st)))
        self.count += 1
        return out


def unrolled(node: ast.FunctionDef) -> ast.FunctionDef:
    counts: dict[str, int] = {}
    lits: dict[str, ast.AST] = {}
    for x in ast.walk(node):
        if isinstance(x, ast.Name) and isinstance(x.ctx, (ast.Store, ast.Del)):
            counts[x.id] = counts.get(x.id, 0) + 1
        if isinstance(x, (ast.Assign, ast.AnnAssign)) and x.value is not None and isinstance(x.value, (ast.List, ast.Tuple)):
            tgs = x.targets if isinstance(x, ast.Assign) else [x.target]
            if len(tgs) == 1 and isinstance(tgs[0], ast.Name):
                lits[tgs[0].id] = x.value
    lits = {k: v for k, v in lits.items() if counts.get(k) == 1 and not any(
        isinstance(y, ast.Call) and isinstance(y.func, ast.Attribute) and isinstance(y.func.value, ast.Name) and y.func.value.id == k for y in ast.walk(node))}
    u = _Unroller(lits)
    new = u.visit(node)
    if u.count:
        ast.fix_missing_locations(new)
    return new


# ------------------------------------------------------------------------------------------------ index loops
def _same_expr(a: ast.AST, b: ast.AST) -> bool:
    return ast.dump(a) == ast.dump(b)


def _len_of(e: ast.AST) -> ast.expr | None:
    if isinstance(e, ast.Call) and isinstance(e.func, ast.Name) and e.func.id == "len" and len(e.args) == 1 and not e.keywords:
        return e.args[0]
    return None


def _is_const(e: ast.AST, v: int) -> bool:
    if isinstance(e, ast.Constant) and e.value == v and not isinstance(e.value, bool):
        return True
    return v < 0 and isinstance(e, ast.UnaryOp) and isinstance(e.op, ast.USub) and isinstance(e.operand, ast.Constant) and e.operand.value == -v


class _SubscriptSubst(ast.NodeTransformer):
    def __init__(self, seq: ast.expr, index: str, elem: str):
        self.seq, self.index, self.elem = seq, index, elem
        self.other_index_uses = 0

    def visit_Subscript(self, node: ast.Subscript) -> Any:
        if isinstance(node.ctx, ast.Load) and isinstance(node.slice, ast.Name) and node.slice.id == self.index and _same_expr(node.value, self.seq):
            return ast.copy_location(ast.Name(id=self.elem, ctx=ast.Load()), node)
        return self.generic_visit(node)

    def visit_Name(self, node: ast.Name) -> Any:
        if node.id == self.index:
            self.other_index_uses += 1
        return node


class _IndexLoops(ast.NodeTransformer):
    """`for i in range(len(X)): ... X[i] ...`  ->  `for i, e in enumerate(X): ... e ...`   and
    `for i in range(len(X) - 1, -1, -1): ... X[i] ...` (i used only to subscript X)  ->  `for e in reversed(X): ... e ...`,
    when neither X nor i is assigned in the body: every rule then sees an index loop as the for-each loop it is."""

    def __init__(self) -> None:
        self.count = 0

    def visit_For(self, node: ast.For) -> Any:
        self.generic_visit(node)
        it = node.iter
        if not (isinstance(node.target, ast.Name) and isinstance(it, ast.Call) and isinstance(it.func, ast.Name) and it.func.id == "range" and not it.keywords):
            return node
        idx = node.target.id
        seq: ast.expr | None = None
        backward = False
        a = it.args
        if len(a) == 1:
            seq = _len_of(a[0])
        elif len(a) == 2 and _is_const(a[0], 0):
            seq = _len_of(a[1])
        elif len(a) == 3 and _is_const(a[1], -1) and _is_const(a[2], -1) and isinstance(a[0], ast.BinOp) and isinstance(a[0].op, ast.Sub) and _is_const(a[0].right, 1):
            seq = _len_of(a[0].left)
            backward = True
        if seq is None or not isinstance(seq, (ast.Name, ast.Attribute)):
            return node
        base_names = {x.id for x in ast.walk(seq) if isinstance(x, ast.Name)}
        for st in node.body + node.orelse:
            for y in ast.walk(st):
                if isinstance(y, ast.Name) and isinstance(y.ctx, (ast.Store, ast.Del)) and (y.id == idx or y.id in base_names):
                    return node
                if isinstance(y, (ast.FunctionDef, ast.Lambda)):
                    return node
        if not any(isinstance(y, ast.Subscript) and isinstance(y.slice, ast.Name) and y.slice.id == idx and _same_expr(y.value, seq)
                   for st in node.body for y in ast.walk(st)):
            return node
        elem = f"__elem_{idx}"
        sub = _SubscriptSubst(seq, idx, elem)
        body = [sub.visit(copy.deepcopy(st)) for st in node.body]
        if backward:
            if sub.other_index_uses:
                return node
            new = ast.For(target=ast.Name(id=elem, ctx=ast.Store()), iter=ast.Call(func=ast.Name(id="reversed", ctx=ast.Load()), args=[copy.deepcopy(seq)], keywords=[]),
                          body=body, orelse=node.orelse, type_comment=None)
        elif not sub.other_index_uses and not any(isinstance(y, ast.Name) and y.id == idx for st in node.orelse for y in ast.walk(st)):
            # the index is used for nothing but picking the element: a plain for-each loop
            new = ast.For(target=ast.Name(id=elem, ctx=ast.Store()), iter=copy.deepcopy(seq), body=body, orelse=node.orelse, type_comment=None)
        else:
            new = ast.For(target=ast.Tuple(elts=[ast.Name(id=idx, ctx=ast.Store()), ast.Name(id=elem, ctx=ast.Store())], ctx=ast.Store()),
                          iter=ast.Call(func=ast.Name(id="enumerate", ctx=ast.Load()), args=[copy.deepcopy(seq)], keywords=[]),
                          body=body, orelse=node.orelse, type_comment=None)
        self.count += 1
        return ast.copy_location(new, node)


def index_loops_normalised(node: ast.FunctionDef) -> ast.FunctionDef:
    t = _IndexLoops()
    new = t.visit(node)
    if t.count:
        ast.fix_missing_locations(new)
    return new


# ------------------------------------------------------------------------------------------------ loop-built collections
def _empty_collection(e: ast.AST) -> str | None:
    if isinstance(e, ast.List) and not e.elts:
        return "list"
    if isinstance(e, ast.Dict) and not e.keys:
        return "dict"
    if isinstance(e, ast.Call) and isinstance(e.func, ast.Name) and e.func.id in ("list", "set", "dict") and not e.args and not e.keywords:
        return e.func.id
    return None


def _mentions(x: ast.AST, name: str) -> bool:
    return any(isinstance(y, ast.Name) and y.id == name for y in ast.walk(x))


class _LoopsToComprehensions(ast.NodeTransformer):
    """`X = []` ... `for T in IT: X.append(E)`  ->  `X = [E for T in IT]` (likewise `set()`/`.add`, `{}`/`X[K] = V`, and one
    enclosing `if C:` becomes the comprehension's condition), when nothing between the two statements mentions X and the loop
    has no other statement, no else, no break/continue: a collection filled by a loop is then the comprehension it is."""

    def __init__(self) -> None:
        self.count = 0

    def _try(self, init: ast.stmt, loop: ast.stmt, between: list[ast.stmt]) -> ast.stmt | None:
        if not (isinstance(init, (ast.Assign, ast.AnnAssign)) and isinstance(loop, ast.For) and not loop.orelse and len(loop.body) == 1):
            return None
        tg = init.targets[0] if isinstance(init, ast.Assign) and len(init.targets) == 1 else (init.target if isinstance(init, ast.AnnAssign) else None)
        if not isinstance(tg, ast.Name) or init.value is None:
            return None
        kind = _empty_collection(init.value)
        if kind is None:
            return None
        name = tg.id
        if any(_mentions(b, name) for b in between) or _mentions(loop.iter, name):
            return None
        st = loop.body[0]
        conds: list[ast.expr] = []
        while isinstance(st, ast.If) and not st.orelse and len(st.body) == 1:
            conds.append(st.test)
            st = st.body[0]
        if any(_mentions(c, name) for c in conds):
            return None
        gen = ast.comprehension(target=loop.target, iter=loop.iter, ifs=conds, is_async=0)
        comp: ast.expr | None = None
        if isinstance(st, ast.Expr) and isinstance(st.value, ast.Call) and isinstance(st.value.func, ast.Attribute) and isinstance(st.value.func.value, ast.Name) \
                and st.value.func.value.id == name and len(st.value.args) == 1 and not st.value.keywords and not _mentions(st.value.args[0], name):
            if kind == "list" and st.value.func.attr == "append":
                comp = ast.ListComp(elt=st.value.args[0], generators=[gen])
            elif kind == "set" and st.value.func.attr == "add":
                comp = ast.SetComp(elt=st.value.args[0], generators=[gen])
        elif isinstance(st, ast.Assign) and len(st.targets) == 1 and isinstance(st.targets[0], ast.Subscript) and isinstance(st.targets[0].value, ast.Name) \
                and st.targets[0].value.id == name and kind == "dict" and not _mentions(st.value, name) and not _mentions(st.targets[0].slice, name):
            comp = ast.DictComp(key=st.targets[0].slice, value=st.value, generators=[gen])
        if comp is None:
            return None
        new = copy.copy(init)
        new.value = ast.copy_location(comp, loop)  # type: ignore[attr-defined]
        self.count += 1
        return ast.copy_location(new, loop)

    def _block(self, stmts: list[ast.stmt]) -> list[ast.stmt]:
        out = list(stmts)
        changed = True
        while changed:
            changed = False
            for j, s in enumerate(out):
                if not isinstance(s, ast.For):
                    continue
                for i in range(j - 1, -1, -1):
                    rep = self._try(out[i], s, out[i + 1:j])
                    if rep is not None:
                        out = out[:i] + out[i + 1:j] + [rep] + out[j + 1:]
                        changed = True
                        break
                if changed:
                    break
        return out

    def generic_visit(self, node: ast.AST) -> ast.AST:
        super().generic_visit(node)
        for fld in ("body", "orelse", "finalbody"):
            v = getattr(node, fld, None)
            if isinstance(v, list) and v and isinstance(v[0], ast.stmt):
                setattr(node, fld, self._block(v))
        return node


def loops_as_comprehensions(node: ast.FunctionDef) -> ast.FunctionDef:
    t = _LoopsToComprehensions()
    new = t.visit(node)
    if t.count:
        ast.fix_missing_locations(new)
    return new


class DesugarMatch(ast.NodeTransformer):
    """`match subject:` with literal / or / wildcard / capture patterns, guards, and fixed-length sequence patterns against a tuple display
    -> the if / elif / else chain that compares with == (what such a match means for str, int and None subjects), captured names bound at the
    head of the branch. Anything else (class, mapping and star patterns) is left alone, so that the analyses that meet it say that they do not
    model it."""

    counter = 0

    def visit_Match(self, node: ast.Match) -> ast.AST:  # type: ignore[name-defined]
        self.generic_visit(node)

        def test_of(pat: ast.AST, subj: ast.expr, binds: list) -> ast.expr | None | bool:
            """The test a pattern makes on `subj` (True: always matches, None: a pattern outside this reading); captured names go to `binds`."""
            if isinstance(pat, ast.MatchValue):
                return ast.Compare(left=subj, ops=[ast.Eq()], comparators=[pat.value])
            if isinstance(pat, ast.MatchSingleton):
                return ast.Compare(left=subj, ops=[ast.Is()], comparators=[ast.Constant(value=pat.value)])
            if isinstance(pat, ast.MatchOr):
                parts = [test_of(q, subj, binds) for q in pat.patterns]
                if any(q is None for q in parts):
                    return None
                if any(q is True for q in parts):
                    return True
                return ast.BoolOp(op=ast.Or(), values=parts)  # type: ignore[arg-type]
            if isinstance(pat, ast.MatchAs):
                inner: ast.expr | None | bool = True if pat.pattern is None else test_of(pat.pattern, subj, binds)
                if inner is None:
                    return None
                if pat.name is not None:
                    binds.append((pat.name, subj))
                return inner
            if isinstance(pat, ast.MatchClass) and not pat.patterns:
                # `case C():` / `case C(attr=pattern)`: an instance test, then the keyword patterns against the attributes
                parts3: list = [ast.Call(func=ast.Name(id="isinstance", ctx=ast.Load()), args=[subj, pat.cls], keywords=[])]
                for attr, q in zip(pat.kwd_attrs, pat.kwd_patterns):
                    tq = test_of(q, ast.Attribute(value=subj, attr=attr, ctx=ast.Load()), binds)
                    if tq is None:
                        return None
                    if tq is not True:
                        parts3.append(tq)
                return parts3[0] if len(parts3) == 1 else ast.BoolOp(op=ast.And(), values=parts3)
            if isinstance(pat, ast.MatchSequence) and isinstance(subj, ast.Tuple) and len(pat.patterns) == len(subj.elts) and \
                    not any(isinstance(q, ast.MatchStar) for q in pat.patterns):
                parts2 = [test_of(q, e_, binds) for q, e_ in zip(pat.patterns, subj.elts)]
                if any(q is None for q in parts2):
                    return None
                real = [q for q in parts2 if q is not True]
                if not real:
                    return True
                return real[0] if len(real) == 1 else ast.BoolOp(op=ast.And(), values=real)  # type: ignore[arg-type,return-value]
            return None

        class _Subst(ast.NodeTransformer):
            def __init__(self, m: dict):
                self.m = m

            def visit_Name(self, n: ast.Name) -> ast.AST:
                return self.m[n.id] if isinstance(n.ctx, ast.Load) and n.id in self.m else n

        DesugarMatch.counter += 1
        subject = node.subject
        out: list[ast.stmt] = []
        if isinstance(subject, ast.Tuple):  # match (a, b): each element is evaluated once, in order
            elts = []
            for k, e_ in enumerate(subject.elts):
                if isinstance(e_, (ast.Name, ast.Constant)):
                    elts.append(e_)
                else:
                    nm = f"_match_subject_{DesugarMatch.counter}_{k}"
                    out.append(ast.Assign(targets=[ast.Name(id=nm, ctx=ast.Store())], value=e_))
                    elts.append(ast.Name(id=nm, ctx=ast.Load()))
            name: ast.expr = ast.Tuple(elts=elts, ctx=ast.Load())
        elif isinstance(subject, (ast.Name, ast.Constant)):
            name = subject
        else:
            name = ast.Name(id=f"_match_subject_{DesugarMatch.counter}", ctx=ast.Load())
            out.append(ast.Assign(targets=[ast.Name(id=name.id, ctx=ast.Store())], value=subject))
        chain: ast.If | None = None
        last: ast.If | None = None
        tail: list[ast.stmt] = []
        import copy as _copy

        for case in node.cases:
            binds: list = []
            t = test_of(case.pattern, name, binds)
            if t is None:
                return node
            pre = [ast.Assign(targets=[ast.Name(id=b, ctx=ast.Store())], value=_copy.deepcopy(v)) for b, v in binds]
            guard = _Subst({b: v for b, v in binds}).visit(_copy.deepcopy(case.guard)) if case.guard is not None and binds else case.guard
            if t is True and guard is None:
                tail = pre + case.body
                break
            cond = guard if t is True else (t if guard is None else ast.BoolOp(op=ast.And(), values=[t, guard]))
            new = ast.If(test=cond, body=pre + case.body, orelse=[])
            if chain is None:
                chain = new
            else:
                last.orelse = [new]  # type: ignore[union-attr]
            last = new
        if chain is None:
            out += tail
        else:
            last.orelse = tail  # type: ignore[union-attr]
            out.append(chain)
        for x in out:
            ast.copy_location(x, node)
            for y in ast.walk(x):
                if not hasattr(y, "lineno"):
                    ast.copy_location(y, node)
        ast.fix_missing_locations(ast.Module(body=out, type_ignores=[]))
        return out if len(out) != 1 else out[0]
