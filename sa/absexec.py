"""Abstract interpretation of the token-driven pushdown parsers (Function.infix_to_postfix, Function.parse).

The parsers read one token at a time and otherwise only manipulate a stack and an output queue; what they do with a
token depends on the token's *class* (operand, function, operator of some precedence/associativity, parenthesis,
comma) and on the classes of the symbols on the stack - never on the token's spelling. The interpreter below walks
the function's syntax tree over an abstract store

    token        -> Tok(kind, level, assoc)            (a token class, not a string)
    registry     -> Objects / Elem(kind, level, assoc)  (factory.objects[...], element.precedence, is_function() ...)
    stack/queue  -> Python lists of abstract symbols    (exact up to a depth bound)
    formula text -> Opaque                              (may only flow into messages, logging and the tokeniser)

for one loop iteration at a time, which yields the parser's transition relation as a pushdown transducer
`(configuration, token class) -> (configuration', emitted symbols) | raise <Class> | internal <Class>`, and once per
configuration for the code after the loop (end of input). Nothing of /repo is imported or run; a construct the
interpreter does not model aborts the analysis (fail closed, exit 2), it is never guessed.
"""

from __future__ import annotations

import ast
from dataclasses import dataclass
from typing import Any, Callable

from .pm import AnalysisError, unparse


class Unknown(Exception):
    pass


class Raised(Exception):
    def __init__(self, cls: str, node: ast.AST | None = None):
        self.cls = cls
        self.node = node


class Internal(Exception):
    def __init__(self, cls: str, why: str, node: ast.AST | None = None):
        self.cls = cls
        self.why = why
        self.node = node


class _Break(Exception):
    pass


class _Continue(Exception):
    pass


class _Return(Exception):
    def __init__(self, value: Any):
        self.value = value


@dataclass(frozen=True)
class Tok:
    kind: str  # operand | function | operator | lparen | rparen | comma
    level: int = 0
    assoc: int = 0
    arity: int = 0
    tag: str = ""

    def text(self) -> str | None:
        return {"lparen": "(", "rparen": ")", "comma": ",", "is": "is", "and": "and", "or": "or", "if": "if", "then": "then", "with": "with"}.get(self.kind)

    def __repr__(self) -> str:
        if self.kind == "operator":
            return f"op{self.level}{'L' if self.assoc < 0 else 'R'}{self.arity}"
        if self.kind == "function":
            return f"fn{self.arity}"
        return self.text() or (self.tag or "x")


@dataclass(frozen=True)
class Elem:
    kind: str  # function | operator
    level: int
    assoc: int
    arity: int = 0


@dataclass(frozen=True)
class Opaque:
    what: str = "text"


STR_METHODS = {"split", "rsplit", "strip", "lstrip", "rstrip", "startswith", "endswith", "lower", "upper", "replace", "find", "rfind", "index", "partition", "rpartition",
               "splitlines", "isidentifier", "isdigit", "isalpha", "isalnum", "isspace", "count", "title", "capitalize", "casefold", "removeprefix", "removesuffix", "center",
               "ljust", "rjust", "zfill"}


@dataclass(frozen=True)
class Sym:
    """An unknown value with a name: it can be stored, passed and compared for identity; nothing can be computed from it except by
    applying an uninterpreted function to it (App)."""
    name: str


@dataclass(frozen=True)
class App:
    """The application of an uninterpreted function (a numpy function, a hedge, a norm) to values."""
    fn: str
    args: tuple
    kwargs: tuple = ()


@dataclass(frozen=True)
class SymModule:
    """A module whose functions are uninterpreted: `np.f(a, k=b)` evaluates to App("np.f", (a,), (("k", b),))."""
    name: str
    constants: tuple = ()


@dataclass(frozen=True)
class FString:
    """A formatted string: its literal pieces and the values formatted into it."""
    parts: tuple


@dataclass(frozen=True)
class ExcValue:
    cls: str


@dataclass(frozen=True)
class Joined:
    items: tuple


@dataclass(frozen=True)
class Obj:
    """An object built by the code under analysis (e.g. Function.Node(element=..., left=..., right=...))."""
    cls: str
    fields: tuple  # ((name, value), ...)

    def get(self, name: str) -> Any:
        return dict(self.fields).get(name)


class MObj:
    """A mutable object built by the code under analysis (attribute stores allowed)."""

    def __init__(self, cls: str, fields: dict[str, Any]):
        self.cls = cls
        self.fields = fields

    def frozen(self) -> tuple:
        return ("O", self.cls) + tuple(sorted((k, freeze(v)) for k, v in self.fields.items()))


class Lin:
    """A linear combination of symbols with exact rational coefficients (plus a constant): the values of range bounds and grid
    points. Products of two symbolic values are outside the model."""

    __slots__ = ("terms",)

    def __init__(self, terms: dict[str, Any] | None = None):
        from fractions import Fraction

        self.terms = {k: Fraction(v) for k, v in (terms or {}).items() if v != 0}

    @staticmethod
    def sym(name: str) -> "Lin":
        return Lin({name: 1})

    @staticmethod
    def lift(x: Any) -> "Lin | None":
        from fractions import Fraction

        if isinstance(x, Lin):
            return x
        if isinstance(x, bool):
            return None
        if isinstance(x, int):
            return Lin({"": Fraction(x)})
        if isinstance(x, float) and x == int(x):
            return Lin({"": Fraction(int(x))})
        if isinstance(x, Fraction):
            return Lin({"": x})
        return None

    def add(self, o: "Lin", sign: int = 1) -> "Lin":
        t = dict(self.terms)
        for k, v in o.terms.items():
            t[k] = t.get(k, 0) + sign * v
        return Lin(t)

    def scale(self, c: Any) -> "Lin":
        from fractions import Fraction

        return Lin({k: v * Fraction(c) for k, v in self.terms.items()})

    def const(self) -> Any:
        return self.terms.get("", 0) if set(self.terms) <= {""} else None

    def key(self) -> tuple:
        return tuple(sorted(self.terms.items()))

    def __eq__(self, o: object) -> bool:
        return isinstance(o, Lin) and self.key() == o.key()

    def __hash__(self) -> int:
        return hash(self.key())

    def __repr__(self) -> str:
        if not self.terms:
            return "0"
        return " + ".join((f"{v}*{k}" if v != 1 else k) if k else str(v) for k, v in sorted(self.terms.items()))


class TokenStream:
    """The tokens of the text being parsed (`<text>.split()`); `enumerated` when wrapped in enumerate()."""

    def __init__(self, enumerated: bool = False):
        self.enumerated = enumerated


class Objects:
    """factory.objects"""


class Registry:
    """settings.factory_manager.function"""


class KindView:
    """factory.operators() / factory.functions(): the registered elements of one kind, keyed by name."""

    def __init__(self, kind: str):
        self.kind = kind


class SettingsV:
    pass


class ListIter:
    """A one-shot iterator over a concrete sequence (`iter(xs)`, `reversed(xs)`): `next()` advances it, a loop / comprehension / list() continues from
    where it stands and leaves it exhausted - iterating it a second time yields nothing."""

    def __init__(self, items: list):
        self.items = items
        self.pos = 0


class Manager:
    pass


class Logger:
    pass


class Closure:
    def __init__(self, node: ast.FunctionDef | ast.Lambda, env: dict[str, Any]):
        self.node = node
        self.env = env


BUILTIN_EXC = {"SyntaxError", "ValueError", "RuntimeError", "KeyError", "IndexError", "TypeError", "LookupError", "AssertionError",
               "Exception", "BaseException", "KeyboardInterrupt", "GeneratorExit", "SystemExit", "AttributeError", "StopIteration"}
EXC_PARENTS = {
    "SyntaxError": "Exception", "ValueError": "Exception", "RuntimeError": "Exception", "TypeError": "Exception", "AssertionError": "Exception",
    "AttributeError": "Exception", "StopIteration": "Exception", "LookupError": "Exception", "KeyError": "LookupError", "IndexError": "LookupError",
    "Exception": "BaseException", "KeyboardInterrupt": "BaseException", "GeneratorExit": "BaseException", "SystemExit": "BaseException",
}


_STDLIB: dict[str, Any] = {}


def stdlib(name: str) -> "MObj":
    """Models of the pure functions of functools / operator / itertools, by their documented meaning, on the interpreter's values."""
    if name in _STDLIB:
        return _STDLIB[name]

    def binop(op_cls: type) -> Callable[..., Any]:
        def f(ex: "AbsExec", e: ast.AST, args: list, kw: dict) -> Any:
            node = ast.copy_location(ast.BinOp(left=ast.Name(id="<a>", ctx=ast.Load()), op=op_cls(), right=ast.Name(id="<b>", ctx=ast.Load())), e)
            return ex.ev(node, {"<a>": args[0], "<b>": args[1]})
        return f

    def compare(op_cls: type) -> Callable[..., Any]:
        def f(ex: "AbsExec", e: ast.AST, args: list, kw: dict) -> Any:
            node = ast.copy_location(ast.Compare(left=ast.Name(id="<a>", ctx=ast.Load()), ops=[op_cls()], comparators=[ast.Name(id="<b>", ctx=ast.Load())]), e)
            return ex.ev(node, {"<a>": args[0], "<b>": args[1]})
        return f

    def reduce_(ex: "AbsExec", e: ast.AST, args: list, kw: dict) -> Any:
        items = list(ex.iterate(args[1], e))
        if len(args) > 2:
            acc = args[2]
        elif items:
            acc, items = items[0], items[1:]
        else:
            raise Internal("TypeError", "reduce() of empty iterable with no initial value", e)
        for x in items:
            acc = ex.apply_value(args[0], [acc, x], e)
        return acc

    def partial_(ex: "AbsExec", e: ast.AST, args: list, kw: dict) -> Any:
        f0, pre, prekw = args[0], list(args[1:]), dict(kw)
        return lambda ex_, e_, a_, k_: ex_.apply_value(f0, pre + list(a_), e_, {**prekw, **k_})

    def chain_(ex: "AbsExec", e: ast.AST, args: list, kw: dict) -> Any:
        return [x for a in args for x in ex.iterate(a, e)]

    def methodcaller(ex: "AbsExec", e: ast.AST, args: list, kw: dict) -> Any:
        mname, margs, mkw = args[0], list(args[1:]), dict(kw)
        return lambda ex_, e_, a_, k_: ex_.method(a_[0], mname, margs, mkw, e_)

    def attrgetter(ex: "AbsExec", e: ast.AST, args: list, kw: dict) -> Any:
        names = list(args)

        def get(ex_: "AbsExec", e_: ast.AST, a_: list, k_: dict) -> Any:
            vals = []
            for nm in names:
                v = a_[0]
                for part in nm.split("."):
                    v = ex_.attr(v, part, e_)
                vals.append(v)
            return vals[0] if len(vals) == 1 else tuple(vals)
        return get

    def itemgetter(ex: "AbsExec", e: ast.AST, args: list, kw: dict) -> Any:
        idx = list(args)

        def get(ex_: "AbsExec", e_: ast.AST, a_: list, k_: dict) -> Any:
            vals = [ex_.ev(ast.copy_location(ast.Subscript(value=ast.Name(id="<v>", ctx=ast.Load()), slice=ast.Constant(value=i), ctx=ast.Load()), e_), {"<v>": a_[0]}) for i in idx]
            return vals[0] if len(vals) == 1 else tuple(vals)
        return get

    if name == "functools":
        m = MObj("module", {"reduce": reduce_, "partial": partial_})
    elif name == "itertools":
        ch = MObj("function", {"from_iterable": lambda ex, e, args, kw: [x for a in ex.iterate(args[0], e) for x in ex.iterate(a, e)], "__call__": chain_})
        m = MObj("module", {"chain": ch})
    else:
        m = MObj("module", {"add": binop(ast.Add), "sub": binop(ast.Sub), "mul": binop(ast.Mult), "truediv": binop(ast.Div), "floordiv": binop(ast.FloorDiv), "mod": binop(ast.Mod),
                            "pow": binop(ast.Pow), "and_": binop(ast.BitAnd), "or_": binop(ast.BitOr), "xor": binop(ast.BitXor),
                            "lt": compare(ast.Lt), "le": compare(ast.LtE), "eq": compare(ast.Eq), "ne": compare(ast.NotEq), "ge": compare(ast.GtE), "gt": compare(ast.Gt),
                            "is_": compare(ast.Is), "is_not": compare(ast.IsNot), "contains": lambda ex, e, args, kw: ex.contains(args[0], args[1], e),
                            "not_": lambda ex, e, args, kw: not ex.truth(args[0], e), "truth": lambda ex, e, args, kw: ex.truth(args[0], e),
                            "neg": lambda ex, e, args, kw: ex.ev(ast.copy_location(ast.UnaryOp(op=ast.USub(), operand=ast.Name(id="<a>", ctx=ast.Load())), e), {"<a>": args[0]}),
                            "methodcaller": methodcaller, "attrgetter": attrgetter, "itemgetter": itemgetter})
    _STDLIB[name] = m
    return m


def exc_matches(cls: str, handler: str) -> bool:
    while cls is not None:
        if cls == handler:
            return True
        cls = EXC_PARENTS.get(cls)  # type: ignore[assignment]
    return False


def elem_of(t: Any) -> Elem | None:
    if isinstance(t, Tok) and t.kind in ("function", "operator"):
        return Elem(t.kind, t.level, t.assoc, t.arity)
    return None


class AbsExec:
    def __init__(self, qual: str, hooks: dict[str, Callable[..., Any]] | None = None, helpers: dict[str, Any] | None = None):
        self.qual = qual
        self.hooks = hooks or {}
        self._generators: list[list[Any]] = []
        self.function_resolver: Callable[[str], Any] | None = None  # name -> FunctionInfo of a module-level function of the package
        self.concrete_strings = False  # interpret the methods of Python strings on concrete strings (split, strip, ...)
        self.static_resolver: Callable[[str, str], Any] | None = None  # (name of a class or its alias, function) -> FunctionInfo of an in-package static function
        self.globals: dict[str, Any] = {}  # module-level names, visible in the interpreted function and in every inlined helper
        self.helpers = helpers or {}  # name -> FunctionInfo of in-package helper methods that may be interpreted when called on cls / self
        self.properties: dict[tuple[str, str], tuple[Any, Any]] = {}  # (class of the model object, attribute) -> (getter, setter) FunctionInfo
        self.steps = 0

    # ------------------------------------------------------------------ helpers
    def unknown(self, e: ast.AST, why: str = "") -> Unknown:
        return Unknown(f"{self.qual}:{getattr(e, 'lineno', '?')}: `{unparse(e)[:70]}` is outside the parser model{(' (' + why + ')') if why else ''}")

    def used(self, *vals: Any) -> None:
        """Tell the `use` hook (if any) that these values were consulted by an operator, a comparison, a truth test or an ordering."""
        h = self.hooks.get("use")
        if h is not None:
            for v in vals:
                h(self, v)

    def truth(self, v: Any, e: ast.AST) -> bool:
        self.used(v)
        if "truth" in self.hooks:
            t_ = self.hooks["truth"](self, v)
            if t_ is not NotImplemented:
                return bool(t_)
        if isinstance(v, bool) or v is None or isinstance(v, (int, str, float)):
            return bool(v)
        if isinstance(v, (list, tuple, set, frozenset, dict)):
            return len(v) > 0
        if isinstance(v, Opaque) and v.what.startswith("nonempty"):
            return True
        if isinstance(v, (Sym, App)) and "decide" in self.hooks:
            return bool(self.hooks["decide"](self, v, e))  # a test on a symbolic value: the analysis explores both outcomes
        if isinstance(v, MObj) and "__bool__" in v.fields:
            return bool(v.fields["__bool__"])
        if isinstance(v, MObj) and "__len__" in v.fields:
            return v.fields["__len__"] > 0
        if isinstance(v, (Tok, Elem, Obj, MObj, Closure, Objects, Registry, Lin, KindView)):
            return True
        raise self.unknown(e, f"truth value of {type(v).__name__}")

    def eq(self, a: Any, b: Any, e: ast.AST) -> bool:
        if isinstance(a, Tok) and isinstance(b, str):
            return a.text() == b
        if isinstance(b, Tok) and isinstance(a, str):
            return b.text() == a
        if isinstance(a, Opaque) or isinstance(b, Opaque):
            raise self.unknown(e, "comparison with the formula text")
        return a == b

    def contains(self, c: Any, x: Any, e: ast.AST) -> bool:
        if isinstance(c, MObj) and "contains" in self.hooks:
            return bool(self.hooks["contains"](self, e, c, x))
        if isinstance(c, Objects):
            return elem_of(x) is not None
        if isinstance(c, KindView):
            el = elem_of(x)
            return el is not None and el.kind == c.kind
        if isinstance(c, (set, frozenset, list, tuple)):
            return any(self.eq(x, y, e) for y in c)
        if isinstance(c, dict):
            return any(self.eq(x, y, e) for y in c)
        raise self.unknown(e, "membership test")

    # ------------------------------------------------------------------ expressions
    def ev(self, e: ast.AST, env: dict[str, Any]) -> Any:
        self.steps += 1
        if self.steps > getattr(self, "max_steps", 200_000):
            raise AnalysisError(f"{self.qual}: abstract interpretation does not terminate")
        if isinstance(e, ast.Constant):
            return e.value
        if isinstance(e, ast.Name):
            if e.id in env:
                return env[e.id]
            if e.id in self.globals:
                return self.globals[e.id]
            if e.id in self.hooks:
                return self.hooks[e.id]
            if e.id in BUILTIN_EXC:
                return ("exc-class", e.id)
            if e.id in ("len", "reversed", "list", "tuple", "any", "all", "sum", "bool", "isinstance", "set", "frozenset", "iter", "str", "enumerate", "sorted", "min", "max", "range", "type", "locals", "vars", "setattr", "getattr", "hasattr", "delattr", "dict", "zip", "round", "pow", "abs", "int", "float", "map", "filter", "format"):
                return ("builtin", e.id)
            if e.id in ("functools", "operator", "itertools") and "stdlib:off" not in self.hooks:
                return stdlib(e.id)
            if e.id in ("reduce", "partial", "chain", "methodcaller", "attrgetter", "itemgetter") and "stdlib:off" not in self.hooks:
                for mod_ in ("functools", "itertools", "operator"):
                    if e.id in stdlib(mod_).fields:
                        return stdlib(mod_).fields[e.id]
            if e.id == "settings":
                return SettingsV()
            if e.id == "ExitStack":
                return ("ctor", "ExitStack")
            return Opaque(e.id)
        if isinstance(e, ast.JoinedStr):
            parts: list[Any] = []
            failed = False
            for v in e.values:  # every part is evaluated (its effects - an iterator consumed - happen) even when another one is outside the model
                try:
                    parts.append(v.value if isinstance(v, ast.Constant) else self.ev(v.value, env))  # type: ignore[attr-defined]
                except (Unknown, Internal, Raised):
                    failed = True
            if failed:
                return Opaque("fstring")
            if self.concrete_strings and all(isinstance(x, (str, int)) and not isinstance(x, bool) for x in parts) and \
                    not any(getattr(v, "format_spec", None) or getattr(v, "conversion", -1) not in (-1,) for v in e.values if isinstance(v, ast.FormattedValue)):
                return "".join(str(x) for x in parts)
            return FString(tuple(parts))
        if isinstance(e, ast.Attribute):
            return self.attr(self.ev(e.value, env), e.attr, e)
        if isinstance(e, ast.NamedExpr):
            v = self.ev(e.value, env)
            env[e.target.id] = v
            return v
        if isinstance(e, ast.BoolOp):
            v: Any = None
            for x in e.values:
                v = self.ev(x, env)
                t = self.truth(v, x)
                if isinstance(e.op, ast.And) and not t:
                    return v
                if isinstance(e.op, ast.Or) and t:
                    return v
            return v
        if isinstance(e, ast.UnaryOp):
            v = self.ev(e.operand, env)
            if isinstance(e.op, ast.Not):
                return not self.truth(v, e.operand)
            self.used(v)
            if isinstance(v, (Sym, App)):
                return App(f"unop:{type(e.op).__name__}", (v,))
            if isinstance(e.op, ast.USub) and isinstance(v, (int, float)):
                return -v
            raise self.unknown(e)
        if isinstance(e, ast.IfExp):
            return self.ev(e.body if self.truth(self.ev(e.test, env), e.test) else e.orelse, env)
        if isinstance(e, ast.Compare):
            left = self.ev(e.left, env)
            for op, c in zip(e.ops, e.comparators):
                right = self.ev(c, env)
                if not isinstance(op, (ast.Is, ast.IsNot)):
                    self.used(left, right)
                if "compare" in self.hooks and not isinstance(op, (ast.Is, ast.IsNot, ast.In, ast.NotIn)):
                    sym_ = {ast.Lt: "<", ast.LtE: "<=", ast.Gt: ">", ast.GtE: ">=", ast.Eq: "==", ast.NotEq: "!="}[type(op)]
                    r_ = self.hooks["compare"](self, sym_, left, right)
                    if r_ is not NotImplemented:
                        if len(e.ops) == 1:
                            return r_
                        if not self.truth(r_, e):
                            return False
                        left = right
                        continue
                if isinstance(left, (Sym, App)) or isinstance(right, (Sym, App)):
                    if isinstance(op, (ast.Is, ast.IsNot)):
                        r = (left == right) == isinstance(op, ast.Is)
                    else:
                        r = App(f"cmp:{type(op).__name__}", (freeze(left), freeze(right)))
                        if len(e.ops) > 1:
                            r = self.truth(r, e)
                    if r is False:
                        return False
                    left = right
                    if len(e.ops) == 1:
                        return r
                    continue
                if isinstance(op, ast.Eq):
                    r = self.eq(left, right, e)
                elif isinstance(op, ast.NotEq):
                    r = not self.eq(left, right, e)
                elif isinstance(op, ast.In):
                    r = self.contains(right, left, e)
                elif isinstance(op, ast.NotIn):
                    r = not self.contains(right, left, e)
                elif isinstance(op, ast.Is):
                    r = left is right or (left is None and right is None) or (isinstance(left, bool) and left == right)
                elif isinstance(op, ast.IsNot):
                    r = not (left is right or (left is None and right is None) or (isinstance(left, bool) and left == right))
                elif isinstance(left, (int, float)) and isinstance(right, (int, float)):
                    r = {ast.Lt: left < right, ast.LtE: left <= right, ast.Gt: left > right, ast.GtE: left >= right}[type(op)]
                else:
                    raise self.unknown(e, "ordering of non-integers")
                if not r:
                    return False
                left = right
            return True
        if isinstance(e, (ast.Set, ast.List, ast.Tuple)):
            items = []
            for x in e.elts:
                if isinstance(x, ast.Starred):
                    items += list(self.iterate(self.ev(x.value, env), x))
                else:
                    items.append(self.ev(x, env))
            return items if isinstance(e, ast.List) else (tuple(items) if isinstance(e, ast.Tuple) else set(items))
        if isinstance(e, ast.Dict):
            return {self.ev(k, env): self.ev(v, env) for k, v in zip(e.keys, e.values) if k is not None}
        if isinstance(e, ast.Subscript):
            base = self.ev(e.value, env)
            if isinstance(base, str):
                if isinstance(e.slice, ast.Slice):
                    lo_ = self.ev(e.slice.lower, env) if e.slice.lower else None
                    hi_ = self.ev(e.slice.upper, env) if e.slice.upper else None
                    st_ = self.ev(e.slice.step, env) if e.slice.step else None
                    if all(v is None or isinstance(v, int) for v in (lo_, hi_, st_)):
                        return base[lo_:hi_:st_]
                else:
                    i_ = self.ev(e.slice, env)
                    if isinstance(i_, int):
                        if not -len(base) <= i_ < len(base):
                            raise Internal("IndexError", f"`{unparse(e)}`", e)
                        return base[i_]
                raise self.unknown(e, "string subscript")
            if isinstance(base, MObj) and "subscript" in self.hooks:
                def sl(x: ast.AST) -> Any:
                    if isinstance(x, ast.Slice):
                        return ("slice", self.ev(x.lower, env) if x.lower else None, self.ev(x.upper, env) if x.upper else None, self.ev(x.step, env) if x.step else None)
                    return self.ev(x, env)
                idx_ = tuple(sl(x) for x in e.slice.elts) if isinstance(e.slice, ast.Tuple) else sl(e.slice)
                return self.hooks["subscript"](self, e, base, idx_)
            if isinstance(e.slice, ast.Slice):
                lo = self.ev(e.slice.lower, env) if e.slice.lower else None
                hi = self.ev(e.slice.upper, env) if e.slice.upper else None
                st = self.ev(e.slice.step, env) if e.slice.step else None
                if isinstance(base, (list, tuple)):
                    return base[lo:hi:st]
                raise self.unknown(e)
            idx = self.ev(e.slice, env)
            if isinstance(base, KindView):
                el = elem_of(idx)
                if el is None or el.kind != base.kind:
                    raise Internal("KeyError", f"`{unparse(e)}` looks up a token that is not a registered {base.kind}", e)
                return el
            if isinstance(base, Objects):
                el = elem_of(idx)
                if el is None:
                    raise Internal("KeyError", f"`{unparse(e)}` looks up a token that is not a registered function or operator", e)
                return el
            if isinstance(base, (list, tuple)) and isinstance(idx, float):
                raise Internal("TypeError", f"`{unparse(e)}`: list indices must be integers, not float", e)
            if isinstance(base, (list, tuple)) and isinstance(idx, int):
                if not -len(base) <= idx < len(base):
                    raise Internal("IndexError", f"`{unparse(e)}` on a sequence of length {len(base)}", e)
                return base[idx]
            if isinstance(base, dict):
                if idx not in base:
                    raise Internal("KeyError", f"`{unparse(e)}`", e)
                return base[idx]
            raise self.unknown(e)
        if isinstance(e, ast.BinOp):
            a, b = self.ev(e.left, env), self.ev(e.right, env)
            self.used(a, b)
            if isinstance(a, str) and isinstance(b, str) and isinstance(e.op, ast.Add):
                return a + b
            if isinstance(a, str) and isinstance(b, int) and not isinstance(b, bool) and isinstance(e.op, ast.Mult):
                return a * b
            if isinstance(a, (Sym, App)) or isinstance(b, (Sym, App)):
                return App(f"binop:{type(e.op).__name__}", (freeze(a), freeze(b)))
            num = (int, float)
            if isinstance(a, num) and isinstance(b, num) and not isinstance(a, bool) and not isinstance(b, bool):
                try:
                    if isinstance(e.op, ast.Add):
                        return a + b
                    if isinstance(e.op, ast.Sub):
                        return a - b
                    if isinstance(e.op, ast.Mult):
                        return a * b
                    if isinstance(e.op, ast.Div):
                        return a / b
                    if isinstance(e.op, ast.FloorDiv):
                        return a // b
                    if isinstance(e.op, ast.Mod):
                        return a % b
                    if isinstance(e.op, ast.Pow):
                        return a ** b
                    if isinstance(a, int) and isinstance(b, int):
                        if isinstance(e.op, ast.BitAnd):
                            return a & b
                        if isinstance(e.op, ast.BitOr):
                            return a | b
                        if isinstance(e.op, ast.BitXor):
                            return a ^ b
                        if isinstance(e.op, ast.LShift):
                            return a << b
                        if isinstance(e.op, ast.RShift):
                            return a >> b
                except ZeroDivisionError:
                    raise Internal("ZeroDivisionError", f"`{unparse(e)}`", e) from None
            if isinstance(a, Lin) or isinstance(b, Lin):
                la, lb = Lin.lift(a), Lin.lift(b)
                if la is not None and lb is not None:
                    if isinstance(e.op, ast.Add):
                        return la.add(lb)
                    if isinstance(e.op, ast.Sub):
                        return la.add(lb, -1)
                    if isinstance(e.op, ast.Mult) and (la.const() is not None or lb.const() is not None):
                        return lb.scale(la.const()) if la.const() is not None else la.scale(lb.const())
                    if isinstance(e.op, ast.Div) and lb.const() is not None:
                        if lb.const() == 0:
                            raise Internal("ZeroDivisionError", f"`{unparse(e)}`", e)
                        from fractions import Fraction

                        return la.scale(Fraction(1) / lb.const())
                raise self.unknown(e, "arithmetic on symbolic values outside the linear model")
            if isinstance(a, list) and isinstance(b, int) and isinstance(e.op, ast.Mult):
                return list(a) * b
            if isinstance(a, (list, set, frozenset)) and isinstance(b, (list, set, frozenset)) and isinstance(e.op, (ast.BitAnd, ast.BitOr, ast.Sub)) \
                    and (isinstance(a, list) or isinstance(b, list)):
                # views of dictionary keys behave like sets
                if isinstance(e.op, ast.BitAnd):
                    return [x for x in a if x in b]
                if isinstance(e.op, ast.Sub):
                    return [x for x in a if x not in b]
                return list(a) + [x for x in b if x not in a]
            container = (list, dict, MObj)
            if (isinstance(a, container) and isinstance(b, (int, float))) or (isinstance(b, container) and isinstance(a, (int, float))):
                if not (isinstance(e.op, ast.Mult) and (isinstance(a, list) or isinstance(b, list))):
                    raise Internal("TypeError", f"`{unparse(e)}`: unsupported operand types ({type(a).__name__} and {type(b).__name__})", e)
            if isinstance(a, list) and isinstance(b, list) and isinstance(e.op, ast.Add):
                return a + b
            strish = lambda v: isinstance(v, (Opaque, str, FString)) or (isinstance(v, tuple) and v and v[0] in ("joined", "escaped"))  # noqa: E731
            if self.concrete_strings and isinstance(a, str) and isinstance(b, str) and isinstance(e.op, ast.Add):
                return a + b
            if strish(a) and strish(b) and isinstance(e.op, ast.Add):
                pa = a.parts if isinstance(a, FString) else (a,)
                pb = b.parts if isinstance(b, FString) else (b,)
                return FString(tuple(pa) + tuple(pb))
            if isinstance(a, (Opaque, str, FString)) and isinstance(b, (Opaque, str, FString)):
                return Opaque("text")
            if isinstance(a, str) and isinstance(e.op, ast.Mult):
                return Opaque("text")
            if isinstance(a, (set, frozenset)) and isinstance(b, (set, frozenset)):
                if isinstance(e.op, ast.BitOr):
                    return set(a) | set(b)
                if isinstance(e.op, ast.Sub):
                    return set(a) - set(b)
                if isinstance(e.op, ast.BitAnd):
                    return set(a) & set(b)
            raise self.unknown(e)
        if isinstance(e, (ast.GeneratorExp, ast.ListComp, ast.SetComp)):
            out: list[Any] = []
            self.comp(e, 0, dict(env), out)
            return out if not isinstance(e, ast.SetComp) else frozenset(out)
        if isinstance(e, ast.Lambda):
            return Closure(e, env)
        if isinstance(e, ast.Yield):
            if self._generators:  # inside a helper generator that is run to the end: the values are collected (see call_closure)
                self._generators[-1].append(self.ev(e.value, env) if e.value is not None else None)
                return None
            hook = self.hooks.get("yield")
            if hook is None:
                raise self.unknown(e, "yield")
            return hook(self, e, self.ev(e.value, env) if e.value is not None else None, env)
        if isinstance(e, ast.DictComp):
            outd: dict[Any, Any] = {}
            self.dictcomp(e, 0, dict(env), outd)
            return outd
        if isinstance(e, ast.Call):
            return self.call(e, env)
        raise self.unknown(e)

    def dictcomp(self, e: ast.DictComp, i: int, env: dict[str, Any], out: dict[Any, Any]) -> None:
        if i == len(e.generators):
            out[self.ev(e.key, env)] = self.ev(e.value, env)
            return
        g = e.generators[i]
        for v in self.iterate(self.ev(g.iter, env), g.iter):
            self.bind(g.target, v, env)
            if all(self.truth(self.ev(c, env), c) for c in g.ifs):
                self.dictcomp(e, i + 1, env, out)

    def comp(self, e: Any, i: int, env: dict[str, Any], out: list[Any]) -> None:
        if i == len(e.generators):
            out.append(self.ev(e.elt, env))
            return
        g = e.generators[i]
        for v in self.iterate(self.ev(g.iter, env), g.iter):
            self.bind(g.target, v, env)
            if all(self.truth(self.ev(c, env), c) for c in g.ifs):
                self.comp(e, i + 1, env, out)

    def iterate(self, v: Any, e: ast.AST):
        hook = getattr(self, "iterate_hook", None)
        if hook is not None:
            got = hook(v)
            if got is not None:
                return got
        if isinstance(v, ListIter):
            rest = v.items[v.pos:]
            v.pos = len(v.items)
            return rest
        if isinstance(v, (list, tuple)):
            return list(v)
        if isinstance(v, (set, frozenset)):
            return sorted(v, key=repr)
        if isinstance(v, dict):
            return list(v)
        raise self.unknown(e, "iteration over a value that is not a modelled sequence")

    def attr(self, v: Any, name: str, e: ast.AST) -> Any:
        if v is None:
            raise Internal("AttributeError", f"`{unparse(e)}`: attribute `{name}` of None", e)
        if isinstance(v, (Sym, App)):
            return ("bound", v, name)
        if isinstance(v, SymModule):
            consts = dict(v.constants)
            if name in consts:
                return consts[name]
            return lambda ex_, e_, args, kw, f=f"{v.name}.{name}": App(f, tuple(freeze(a) for a in args), tuple(sorted((k, freeze(x)) for k, x in kw.items())))
        if isinstance(v, SettingsV):
            if name == "debugging":
                return getattr(self, "debugging", False)
            if name == "factory_manager":
                return Manager()
            if name == "logger":
                return Logger()
            return Opaque(f"settings.{name}")
        if isinstance(v, Manager):
            if name == "function":
                return Registry()
            return Opaque(f"manager.{name}")
        if isinstance(v, Registry):
            if name == "objects":
                return Objects()
            return ("bound", v, name)
        if isinstance(v, Elem):
            if name == "precedence":
                return v.level
            if name == "associativity":
                return v.assoc
            if name == "arity":
                return v.arity
            if name in ("is_function", "is_operator"):
                return ("bound", v, name)
            if name in ("name", "description", "method"):
                return Opaque(f"element.{name}")
            if name == "type":
                return ("element-type", v.kind)
            raise self.unknown(e, "element attribute")
        if isinstance(v, Obj):
            d = dict(v.fields)
            if name in d:
                return d[name]
            return ("bound", v, name)
        if isinstance(v, MObj) and (v.cls, name) in self.properties and name not in v.fields:
            getter = self.properties[(v.cls, name)][0]
            if getter is not None:
                node = getter.node
                return self.call_closure(Closure(node, {}), [v], {}, e)
        if isinstance(v, MObj):
            if name == "__dict__":
                return v.fields
            if name in v.fields:
                return v.fields[name]
            return ("bound", v, name)
        if isinstance(v, (Lin, int, float, FString)):
            return ("bound", v, name)
        if isinstance(v, KindView):
            return ("bound", v, name)
        if isinstance(v, (list, tuple, Objects, Logger, Opaque, str, dict, frozenset, set)) and not (isinstance(v, tuple) and v and v[0] in ("class",)):
            return ("bound", v, name)
        if isinstance(v, tuple) and v and v[0] in ("class",):
            return ("class-attr", v[1], name)
        if f"method:{name}" in self.hooks:
            return ("bound", v, name)  # a method of a model object supplied by the rule
        raise self.unknown(e, f"attribute of {type(v).__name__}")

    def call(self, e: ast.Call, env: dict[str, Any]) -> Any:
        f = self.ev(e.func, env)
        if isinstance(f, tuple) and f and f[0] == "bound" and isinstance(f[1], Logger):
            for a in list(e.args) + [k.value for k in e.keywords]:  # logging: the message may format anything, but evaluating it has its effects (an iterator consumed)
                try:
                    self.ev(a.value if isinstance(a, ast.Starred) else a, env)
                except (Unknown, Internal, Raised):
                    pass
            return None
        args: list[Any] = []
        for a in e.args:
            if isinstance(a, ast.Starred):
                args += list(self.iterate(self.ev(a.value, env), a))
            else:
                args.append(self.ev(a, env))
        kw = {k.arg: self.ev(k.value, env) for k in e.keywords if k.arg is not None}
        for k in e.keywords:
            if k.arg is None:  # **mapping
                m_ = self.ev(k.value, env)
                if not isinstance(m_, dict):
                    raise self.unknown(e, "** of a value that is not a dictionary")
                kw.update(m_)
        if isinstance(f, Closure):
            return self.call_closure(f, args, kw, e)
        if isinstance(f, MObj) and f.cls == "function" and callable(f.fields.get("__call__")):
            return f.fields["__call__"](self, e, args, kw)
        if callable(f) and not isinstance(f, tuple):
            return f(self, e, args, kw)
        if isinstance(f, tuple) and f and f[0] == "exc-class":
            return ExcValue(f[1])
        if isinstance(f, tuple) and f == ("ctor", "ExitStack"):
            return MObj("ExitStack", {"callbacks": []})
        if isinstance(f, tuple) and f and f[0] == "builtin":
            if f[1] == "dict" and kw and not args:
                return dict(kw)
            self._call_kw = kw
            try:
                return self.builtin(f[1], args, e, env)
            finally:
                self._call_kw = {}
        if isinstance(f, tuple) and f and f[0] == "bound":
            return self.method(f[1], f[2], args, kw, e)
        if isinstance(f, Opaque):
            if f.what == "deque":
                return list(args[0]) if args else []
            if self.function_resolver is not None and isinstance(e.func, ast.Name):
                h = self.function_resolver(e.func.id)
                if h is not None:
                    return self.call_closure(Closure(h.node, {}), args, kw, e)
            return Opaque("call")
        raise self.unknown(e, "call target")

    def call_closure(self, c: Closure, args: list[Any], kw: dict[str, Any], e: ast.AST) -> Any:
        node = c.node
        a = node.args
        names = [x.arg for x in a.posonlyargs + a.args]
        env = dict(c.env)
        defaults = [None] * (len(names) - len(a.defaults)) + list(a.defaults)
        for n, d in zip(names, defaults):
            if d is not None:
                env[n] = self.ev(d, c.env)
        for n, v in zip(names, args):
            env[n] = v
        if a.vararg is not None:
            env[a.vararg.arg] = tuple(args[len(names):])
        if a.kwarg is not None:
            named_ = set(names) | {x.arg for x in a.kwonlyargs}
            env[a.kwarg.arg] = {k: v for k, v in kw.items() if k not in named_}
            env.update({k: v for k, v in kw.items() if k in named_})
        else:
            env.update(kw)
        for x_, d_ in zip(a.kwonlyargs, a.kw_defaults):
            if x_.arg not in env and d_ is not None:
                env[x_.arg] = self.ev(d_, c.env)
        if isinstance(node, ast.Lambda):
            return self.ev(node.body, env)
        declared = [n_ for st_ in ast.walk(node) if isinstance(st_, (ast.Nonlocal, ast.Global)) for n_ in st_.names]
        if declared:
            # `nonlocal x`: assignments in the body are assignments to the enclosing function's variable
            try:
                try:
                    self.block(node.body, env)
                except _Return as r:
                    return r.value
                return None
            finally:
                for n_ in declared:
                    if n_ in env:
                        c.env[n_] = env[n_]
        if _is_generator(node):
            # a helper generator: run to the end and hand back the list of what it yields (its side effects happen earlier than they would
            # lazily; analyses that order such effects against the consumer's must not inline generators)
            self._generators.append([])
            try:
                try:
                    self.block(node.body, env)
                except _Return:
                    pass
                return list(self._generators[-1])
            finally:
                self._generators.pop()
        try:
            self.block(node.body, env)
        except _Return as r:
            return r.value
        return None

    def builtin(self, name: str, args: list[Any], e: ast.AST, env: dict[str, Any] | None = None) -> Any:
        h_ = self.hooks.get(f"builtin:{name}")
        if h_ is not None:
            r_ = h_(self, e, args)
            if r_ is not NotImplemented:
                return r_
        if args and isinstance(args[0], TokenStream):
            if name == "enumerate":
                return TokenStream(enumerated=True)
            if name in ("list", "tuple", "iter"):
                return args[0]
            if name == "len":
                return Opaque("number of tokens")
        if name == "isinstance" and len(args) == 2 and "instance-of" in self.hooks:
            r_ = self.hooks["instance-of"](self, args[0], args[1])
            if r_ is not NotImplemented:
                return bool(r_)
        if name == "isinstance" and len(args) == 2:
            classes = args[1] if isinstance(args[1], tuple) and args[1] and isinstance(args[1][0], tuple) else (args[1],)
            names_ = {c[1] for c in classes if isinstance(c, tuple) and len(c) == 2 and c[0] == "class"}
            if len(names_) == len(classes):
                if isinstance(args[0], MObj):
                    return args[0].cls in names_ or bool(set(args[0].fields.get("__bases__", ())) & names_)
                if args[0] is None or isinstance(args[0], (Tok, Elem, int, float, str, list, dict)):
                    return False
            raise self.unknown(e, "isinstance")
        if name == "locals" and env is not None:
            return {k: v for k, v in env.items() if not k.startswith("<") and not isinstance(v, Closure) and k in env.get("<locals>", env)}
        if name == "vars" and len(args) == 1 and isinstance(args[0], MObj):
            return args[0].fields  # the live attribute dictionary
        if name == "setattr" and len(args) == 3 and isinstance(args[0], MObj) and isinstance(args[1], str):
            prop = self.properties.get((args[0].cls, args[1]))
            if prop is not None and prop[1] is not None:  # a property with a setter: setattr() goes through it, as an assignment does
                self.call_closure(Closure(prop[1].node, {}), [args[0], args[2]], {}, e)
                return None
            args[0].fields[args[1]] = args[2]
            return None
        if name == "getattr" and len(args) >= 2 and isinstance(args[0], MObj) and isinstance(args[1], str):
            if args[1] not in args[0].fields and (args[0].cls, args[1]) in self.properties:
                return self.attr(args[0], args[1], e)  # a property: getattr() runs its getter
            if args[1] in args[0].fields:
                return args[0].fields[args[1]]
            if len(args) == 3:
                return args[2]
            raise Internal("AttributeError", f"getattr of missing attribute {args[1]}", e)
        if name == "hasattr" and len(args) == 2 and isinstance(args[0], MObj) and isinstance(args[1], str):
            return args[1] in args[0].fields
        if name == "delattr" and len(args) == 2 and isinstance(args[0], MObj) and isinstance(args[1], str):
            if args[1] not in args[0].fields:
                raise Internal("AttributeError", f"delattr of missing attribute {args[1]}", e)
            del args[0].fields[args[1]]
            return None
        if name == "dict":
            if not args:
                return {}
            if isinstance(args[0], dict):
                return dict(args[0])
            return {k: v for k, v in self.iterate(args[0], e)}
        if name == "zip":
            return [tuple(x) for x in zip(*[self.iterate(a, e) for a in args])]
        nums = all(isinstance(a, (int, float)) and not isinstance(a, bool) for a in args)
        if name in ("max", "min") and args and nums:
            return max(args) if name == "max" else min(args)
        if name in ("max", "min") and len(args) == 1 and isinstance(args[0], (list, tuple)):
            kw_ = getattr(self, "_call_kw", {})
            if not args[0]:
                if "default" in kw_:
                    return kw_["default"]
                raise Internal("ValueError", f"`{unparse(e)[:60]}` of an empty sequence", e)
            ordered = self.sort_values(list(args[0]), kw_.get("key"), False, e)
            if name == "min":
                return ordered[0]
            # max returns the first of the maximal elements: the stable sort puts it first among its equals
            top = self.sort_values(list(args[0]), kw_.get("key"), True, e)
            return top[0]
        if name == "abs" and nums and len(args) == 1:
            return abs(args[0])
        if name in ("int", "float") and len(args) == 1 and isinstance(args[0], str) and self.concrete_strings:
            try:
                return int(args[0]) if name == "int" else float(args[0])
            except ValueError:
                raise Raised("ValueError", e) from None
        if name in ("int", "float") and len(args) == 1 and (nums or isinstance(args[0], Lin)):
            return args[0] if isinstance(args[0], Lin) else (int(args[0]) if name == "int" else float(args[0]))
        if name in ("round", "pow"):
            hook = self.hooks.get(name)
            if hook is not None:
                return hook(self, e, args, {})
            raise self.unknown(e, f"{name} is floating-point arithmetic")
        if name == "len" and isinstance(args[0], (list, tuple, set, frozenset, dict)):
            return len(args[0])
        if name == "len" and isinstance(args[0], MObj) and "__len__" in args[0].fields:
            return args[0].fields["__len__"]
        if name == "reversed" and isinstance(args[0], (list, tuple)):
            return ListIter(list(reversed(args[0])))
        if name == "sorted" and args:
            kw_ = getattr(self, "_call_kw", {})
            return self.sort_values(list(self.iterate(args[0], e)), kw_.get("key"), bool(kw_.get("reverse", False)), e)
        if name in ("list", "tuple", "iter") and args:
            v = self.iterate(args[0], e)
            return list(v) if name != "tuple" else tuple(v)
        if name in ("list",) and not args:
            return []
        if name in ("set", "frozenset"):
            return (set if name == "set" else frozenset)(self.iterate(args[0], e)) if args else (set() if name == "set" else frozenset())
        if name == "sum" and args and isinstance(args[0], (list, tuple)) and all(isinstance(x, (bool, int, float)) for x in args[0]):
            return sum(args[0], *(a for a in args[1:2] if isinstance(a, (bool, int, float))))
        if name == "any":
            return any(self.truth(x, e) for x in self.iterate(args[0], e))
        if name == "all":
            return all(self.truth(x, e) for x in self.iterate(args[0], e))
        if name == "bool":
            return self.truth(args[0], e)
        if name in ("str", "format"):
            if self.concrete_strings and len(args) >= 1 and isinstance(args[0], (int, str)) and not isinstance(args[0], bool) and (len(args) == 1 or args[1] in ("", "d", "s")) \
                    and not (len(args) > 1 and name == "str"):
                return str(args[0])
            return Opaque("text")
        if name == "enumerate" and isinstance(args[0], TokenStream):
            return TokenStream(enumerated=True)
        if name in ("list", "tuple", "iter") and args and isinstance(args[0], TokenStream):
            return args[0]
        if name == "len" and isinstance(args[0], TokenStream):
            return Opaque("number of tokens")
        if name == "enumerate":
            return [(i, v) for i, v in enumerate(self.iterate(args[0], e))]
        if name == "map" and len(args) >= 2:
            return [self.apply_value(args[0], list(xs), e) for xs in zip(*[self.iterate(a, e) for a in args[1:]])]
        if name == "filter" and len(args) == 2:
            return [x for x in self.iterate(args[1], e) if self.truth(x if args[0] is None else self.apply_value(args[0], [x], e), e)]
        if name == "range" and all(isinstance(a, int) for a in args):
            return list(range(*args))
        raise self.unknown(e, f"builtin {name}")

    def apply_value(self, f: Any, args: list[Any], e: ast.AST, kw: dict[str, Any] | None = None) -> Any:
        """Apply a callable value (a closure, a model function, a bound method, a builtin) to already evaluated arguments."""
        kw = kw or {}
        if isinstance(f, Closure):
            return self.call_closure(f, args, kw, e)
        if isinstance(f, tuple) and f and f[0] == "bound":
            return self.method(f[1], f[2], args, kw, e)
        if isinstance(f, tuple) and f and f[0] == "builtin":
            self._call_kw = kw
            try:
                return self.builtin(f[1], args, e, {})
            finally:
                self._call_kw = {}
        if callable(f) and not isinstance(f, tuple):
            return f(self, e, args, kw)
        raise self.unknown(e, "application of a value that is not a modelled function")

    def sort_values(self, v: list[Any], keyf: Any, reverse: bool, e: ast.AST) -> list[Any]:
        """sorted / list.sort on concrete values: the keys must be numbers, strings or tuples of them (a stable sort, as Python's)."""
        def key_of(x: Any) -> Any:
            if keyf is None:
                k = x
            elif isinstance(keyf, tuple) and keyf == ("builtin", "len"):
                k = len(x)
            elif isinstance(keyf, Closure):
                k = self.call_closure(keyf, [x], {}, e)
            elif callable(keyf) and not isinstance(keyf, tuple):
                k = keyf(self, e, [x], {})
            else:
                raise self.unknown(e, "sort key")
            return k

        def concrete(k: Any) -> bool:
            return (isinstance(k, (int, float, str)) and k == k) or (isinstance(k, (tuple, list)) and all(concrete(x) for x in k))

        keys = [key_of(x) for x in v]
        self.used(*[x for k in keys for x in (k if isinstance(k, (tuple, list)) else [k])])
        if not all(concrete(k) for k in keys):
            if any(isinstance(k, MObj) or (isinstance(k, (tuple, list)) and any(isinstance(x, MObj) for x in k)) for k in keys) and keyf is None:
                raise self.unknown(e, "sorting values that are not numbers or strings")
            raise self.unknown(e, "sort key")
        try:
            order = sorted(range(len(v)), key=lambda i: keys[i], reverse=reverse)
        except TypeError:
            raise Internal("TypeError", f"`{unparse(e)[:60]}` compares keys of different kinds", e) from None
        return [v[i] for i in order]

    def method(self, recv: Any, name: str, args: list[Any], kw: dict[str, Any], e: ast.AST) -> Any:
        if isinstance(recv, MObj) and recv.cls == "ExitStack":
            if name == "callback" and args:
                recv.fields["callbacks"].append((args[0], tuple(args[1:]), tuple(kw.items())))
                return args[0]
            if name in ("close", "pop_all", "enter_context"):
                raise self.unknown(e, f"ExitStack.{name}")
        if isinstance(recv, Opaque) and name == "ExitStack":
            return MObj("ExitStack", {"callbacks": []})
        hook = self.hooks.get(f"method:{name}")
        if hook is not None:
            return hook(self, e, recv, args, kw)
        if self.concrete_strings and isinstance(recv, str) and name == "format" and all(isinstance(x, (str, int)) and not isinstance(x, bool) for x in list(args) + list(kw.values())):
            try:
                return recv.format(*args, **kw)
            except (IndexError, KeyError, ValueError):
                raise Internal("IndexError", f"`{unparse(e)[:60]}`", e) from None
        if self.concrete_strings and isinstance(recv, str) and name == "join" and len(args) == 1:
            items_ = list(self.iterate(args[0], e))
            if all(isinstance(x, str) for x in items_):
                return recv.join(items_)
        if self.concrete_strings and isinstance(recv, str) and name in STR_METHODS and all(isinstance(a, (str, int, type(None), tuple)) for a in list(args) + list(kw.values())):
            try:
                return getattr(recv, name)(*args, **kw)
            except ValueError:
                raise Raised("ValueError", e) from None
            except TypeError:
                raise Internal("TypeError", f"`{unparse(e)[:60]}`", e) from None
        if isinstance(recv, (Sym, App)):
            return App(f".{name}", (recv,) + tuple(freeze(a) for a in args), tuple(sorted((k, freeze(x)) for k, x in kw.items())))
        if isinstance(recv, list):
            if name == "append":
                recv.append(args[0])
                return None
            if name == "appendleft":
                recv.insert(0, args[0])
                return None
            if name == "extend":
                recv.extend(self.iterate(args[0], e))
                return None
            if name == "extendleft":
                for x in self.iterate(args[0], e):
                    recv.insert(0, x)
                return None
            if name in ("pop", "popleft"):
                if not recv:
                    raise Internal("IndexError", f"`{unparse(e)}` on an empty sequence", e)
                if name == "popleft":
                    return recv.pop(0)
                return recv.pop(*args)
            if name == "clear":
                recv.clear()
                return None
            if name == "copy":
                return list(recv)
            if name == "insert":
                recv.insert(args[0], args[1])
                return None
            if name == "reverse":
                recv.reverse()
                return None
            if name == "sort" and not args and f"method:{name}" not in self.hooks:
                recv[:] = self.sort_values(list(recv), kw.get("key"), bool(kw.get("reverse", False)), e)
                return None
            if name == "index" or name == "count":
                hits = [i for i, x in enumerate(recv) if self.eq(x, args[0], e)]
                if name == "count":
                    return len(hits)
                if not hits:
                    raise Raised("ValueError", e)
                return hits[0]
        if isinstance(recv, (set, frozenset)):
            others = [set(self.iterate(a, e)) for a in args] if name not in ("add", "discard", "remove", "copy", "pop", "clear") else []
            if name == "union":
                return set(recv).union(*others)
            if name == "difference":
                return set(recv).difference(*others)
            if name == "intersection":
                return set(recv).intersection(*others)
            if name == "copy":
                return set(recv)
            if name == "issubset":
                return set(recv) <= others[0]
            if isinstance(recv, set):
                if name == "update":
                    recv.update(*others)
                    return None
                if name == "difference_update":
                    recv.difference_update(*others)
                    return None
                if name == "intersection_update":
                    recv.intersection_update(*others)
                    return None
                if name == "add":
                    recv.add(args[0])
                    return None
                if name == "discard":
                    recv.discard(args[0])
                    return None
                if name == "remove":
                    if args[0] not in recv:
                        raise Internal("KeyError", f"`{unparse(e)}`", e)
                    recv.remove(args[0])
                    return None
        if isinstance(recv, dict):
            if name == "items":
                return [(k, v) for k, v in recv.items()]
            if name == "keys":
                return list(recv.keys())
            if name == "values":
                return list(recv.values())
            if name == "copy":
                return dict(recv)
            if name == "get":
                return recv.get(args[0], args[1] if len(args) > 1 else None)
            if name == "pop":
                if args[0] in recv:
                    return recv.pop(args[0])
                if len(args) > 1:
                    return args[1]
                raise Internal("KeyError", f"`{unparse(e)}`", e)
            if name == "update":
                for a in args:
                    recv.update(a if isinstance(a, dict) else {k: v for k, v in self.iterate(a, e)})
                recv.update(kw)
                return None
            if name == "setdefault":
                return recv.setdefault(args[0], args[1] if len(args) > 1 else None)
            if name == "clear":
                recv.clear()
                return None
        if isinstance(recv, Objects):
            if name == "get":
                return elem_of(args[0]) if args else None
            if name in ("keys", "__contains__"):
                return recv if name == "keys" else self.contains(recv, args[0], e)
        if isinstance(recv, Elem):
            if name == "is_function":
                return recv.kind == "function"
            if name == "is_operator":
                return recv.kind == "operator"
        if isinstance(recv, Opaque) and self.static_resolver is not None and f"method:{name}" not in self.hooks:
            h = self.static_resolver(recv.what, name)
            if h is not None:
                node = h.node  # the code as written: the normalisations of analysis_node (helper inlining, unrolling) are for the CFG-based rules
                skip = 0 if "staticmethod" in getattr(h, "decorators", []) else 1
                if skip:
                    raise self.unknown(e, f"{recv.what}.{name} is not a static function")
                return self.call_closure(Closure(node, {}), list(args), kw, e)
        if isinstance(recv, (Opaque, MObj)) and name in self.helpers and f"method:{name}" not in self.hooks:
            h = self.helpers[name]
            node = h.node  # the code as written: the normalisations of analysis_node (helper inlining, unrolling) are for the CFG-based rules
            skip = 0 if "staticmethod" in getattr(h, "decorators", []) else 1
            a = node.args
            names = [x.arg for x in a.posonlyargs + a.args]
            env2: dict[str, Any] = {}
            if skip:
                env2[names[0]] = recv
            return self.call_closure(Closure(node, env2), ([recv] if skip else []) + args, kw, e)
        if isinstance(recv, FString):
            return Opaque("text")
        if isinstance(recv, (Opaque, str)):
            if name == "split" and isinstance(recv, Opaque):
                return TokenStream()
            if name == "join":
                return Joined(tuple(self.iterate(args[0], e)))
            if name in ("strip", "format", "lower", "upper", "replace", "format_infix", "lstrip", "rstrip"):
                return Opaque("text")
            if isinstance(recv, Opaque):
                return Opaque("call")
        if isinstance(recv, Registry):
            if name == "operators":
                return KindView("operator")
            if name == "functions":
                return KindView("function")
            return Opaque(f"registry.{name}")
        if isinstance(recv, KindView):
            if name in ("keys", "copy"):
                return recv
            if name == "get":
                el = elem_of(args[0]) if args else None
                return el if el is not None and el.kind == recv.kind else (args[1] if len(args) > 1 else None)
        if isinstance(recv, (Lin, int, float)) and name in ("astype", "item", "squeeze", "copy", "sum", "max", "min", "mean", "flatten", "ravel"):
            return recv
        if isinstance(recv, (int, float)) and name in ("any", "all"):
            return bool(recv)  # a 0-d number: any() / all() are its truth value (NaN is true)
        raise self.unknown(e, f"method {name} of {type(recv).__name__}")

    # ------------------------------------------------------------------ statements
    def bind(self, target: ast.AST, v: Any, env: dict[str, Any]) -> None:
        if isinstance(target, ast.Name):
            env[target.id] = v
        elif isinstance(target, (ast.Tuple, ast.List)):
            vs = list(self.iterate(v, target))
            if len(vs) != len(target.elts):
                if isinstance(v, (list, tuple)) and not any(isinstance(t, ast.Starred) for t in target.elts):
                    raise Raised("ValueError", target)  # too many / not enough values to unpack
                raise self.unknown(target, "unpacking")
            for t, x in zip(target.elts, vs):
                self.bind(t, x, env)
        elif isinstance(target, ast.Attribute):
            base = self.ev(target.value, env)
            if base is None:
                raise Internal("AttributeError", f"`{unparse(target)}`: attribute store on None", target)
            if not isinstance(base, MObj):
                raise self.unknown(target, "attribute store")
            if (base.cls, target.attr) in self.properties and self.properties[(base.cls, target.attr)][1] is not None:
                setter = self.properties[(base.cls, target.attr)][1]
                self.call_closure(Closure(setter.node, {}), [base, v], {}, target)
                return
            base.fields[target.attr] = v
        elif isinstance(target, ast.Subscript) and "setitem" in self.hooks and not isinstance(self.ev(target.value, env), (list, dict)):
            self.hooks["setitem"](self, target, self.ev(target.value, env), self.ev(target.slice, env), v)
        elif isinstance(target, ast.Subscript):
            base = self.ev(target.value, env)
            idx = self.ev(target.slice, env)
            if isinstance(base, list) and isinstance(idx, int) and -len(base) <= idx < len(base):
                base[idx] = v
            elif isinstance(base, dict):
                base[idx] = v
            else:
                raise self.unknown(target, "subscript store")
        else:
            raise self.unknown(target)

    def block(self, body: list[ast.stmt], env: dict[str, Any]) -> None:
        for s in body:
            self.stmt(s, env)

    def stmt(self, s: ast.stmt, env: dict[str, Any]) -> None:
        self.steps += 1
        if isinstance(s, ast.Expr):
            if isinstance(s.value, ast.Constant):
                return
            self.ev(s.value, env)
        elif isinstance(s, ast.Assign):
            v = self.ev(s.value, env)
            for t in s.targets:
                self.bind(t, v, env)
        elif isinstance(s, ast.AnnAssign):
            if s.value is not None:
                self.bind(s.target, self.ev(s.value, env), env)
        elif isinstance(s, ast.AugAssign) and isinstance(s.target, ast.Subscript):
            load = ast.copy_location(ast.Subscript(value=s.target.value, slice=s.target.slice, ctx=ast.Load()), s.target)
            both = ast.copy_location(ast.BinOp(left=load, op=s.op, right=s.value), s)
            self.bind(s.target, self.ev(both, env), env)
        elif isinstance(s, ast.AugAssign):
            cur = self.ev(ast.copy_location(ast.Name(id=s.target.id, ctx=ast.Load()), s), env) if isinstance(s.target, ast.Name) else None
            v = self.ev(s.value, env)
            if isinstance(cur, int) and isinstance(v, int) and isinstance(s.op, (ast.Add, ast.Sub, ast.BitOr, ast.BitAnd, ast.BitXor, ast.Mult)):
                env[s.target.id] = {ast.Add: cur + v, ast.Sub: cur - v, ast.BitOr: cur | v, ast.BitAnd: cur & v, ast.BitXor: cur ^ v, ast.Mult: cur * v}[type(s.op)]  # type: ignore[union-attr]
            elif isinstance(cur, list) and isinstance(s.op, ast.Add):
                cur.extend(self.iterate(v, s))
            elif isinstance(cur, (set, frozenset)) and isinstance(v, (set, frozenset)) and isinstance(s.op, (ast.Sub, ast.BitOr, ast.BitAnd)):
                env[s.target.id] = (set(cur) - set(v)) if isinstance(s.op, ast.Sub) else ((set(cur) | set(v)) if isinstance(s.op, ast.BitOr) else (set(cur) & set(v)))  # type: ignore[union-attr]
            elif isinstance(s.target, (ast.Name, ast.Attribute)):
                # x op= v on immutable values is x = x op v
                load = ast.copy_location(ast.Name(id=s.target.id, ctx=ast.Load()), s.target) if isinstance(s.target, ast.Name) else \
                    ast.copy_location(ast.Attribute(value=s.target.value, attr=s.target.attr, ctx=ast.Load()), s.target)
                env["<aug>"] = v  # already evaluated: not evaluated a second time
                both = ast.copy_location(ast.BinOp(left=load, op=s.op, right=ast.copy_location(ast.Name(id="<aug>", ctx=ast.Load()), s.value)), s)
                old_ = self.ev(load, env)
                if isinstance(old_, (list, set, dict, MObj)):
                    raise self.unknown(s)
                self.bind(s.target, self.ev(both, env), env)
            else:
                raise self.unknown(s)
        elif isinstance(s, ast.If):
            self.block(s.body if self.truth(self.ev(s.test, env), s.test) else s.orelse, env)
        elif isinstance(s, ast.While):
            n = 0
            while self.truth(self.ev(s.test, env), s.test):
                n += 1
                if n > getattr(self, "max_loop", 200):
                    raise AnalysisError(f"{self.qual}:{s.lineno}: loop does not terminate on the abstract store")
                try:
                    self.block(s.body, env)
                except _Break:
                    break
                except _Continue:
                    continue
            else:
                self.block(s.orelse, env)
        elif isinstance(s, ast.For):
            it = self.ev(s.iter, env)
            broke = False
            for v in self.iterate(it, s.iter):
                self.bind(s.target, v, env)
                try:
                    self.block(s.body, env)
                except _Break:
                    broke = True
                    break
                except _Continue:
                    continue
            if not broke:
                self.block(s.orelse, env)
        elif isinstance(s, ast.Break):
            raise _Break()
        elif isinstance(s, ast.Continue):
            raise _Continue()
        elif isinstance(s, ast.Pass):
            return
        elif isinstance(s, ast.Return):
            raise _Return(self.ev(s.value, env) if s.value is not None else None)
        elif isinstance(s, ast.Raise):
            if s.exc is None:
                act = env.get("<active-exception>")
                if act is None:
                    raise self.unknown(s, "bare raise outside a handler")
                raise act
            f_ = s.exc.func if isinstance(s.exc, ast.Call) else s.exc
            if isinstance(f_, ast.Name) and f_.id in BUILTIN_EXC and f_.id not in env:
                raise Raised(f_.id, s)  # the message of an exception is not evaluated: only its class matters
            v = self.ev(s.exc, env) if s.exc is not None else None
            if isinstance(v, ExcValue):
                raise Raised(v.cls, s)
            if isinstance(v, tuple) and v and v[0] == "exc-class":
                raise Raised(v[1], s)
            raise self.unknown(s, "raise of a value that is not a builtin exception")
        elif isinstance(s, (ast.Import, ast.ImportFrom)):
            for a in s.names:
                nm = a.asname or a.name
                if nm in self.globals:
                    continue  # the analysis supplies a model of this name
                if isinstance(s, ast.Import) and a.name in ("functools", "operator", "itertools") and "stdlib:off" not in self.hooks:
                    env[nm] = stdlib(a.name)
                    continue
                if isinstance(s, ast.ImportFrom) and s.module in ("functools", "operator", "itertools") and "stdlib:off" not in self.hooks and a.name in stdlib(s.module).fields:
                    env[nm] = stdlib(s.module).fields[a.name]
                    continue
                env.setdefault(nm, Opaque(a.name if a.name in ("deque",) else f"import:{a.name}"))
        elif isinstance(s, ast.FunctionDef):
            env[s.name] = Closure(s, env)
        elif isinstance(s, ast.Try):
            try:
                try:
                    self.block(s.body, env)
                except (Raised, Internal) as r:
                    cls = r.cls
                    for h in s.handlers:
                        names = [cls] if h.type is None else [unparse(x) for x in (h.type.elts if isinstance(h.type, ast.Tuple) else [h.type])]
                        if any(exc_matches(cls, nm.split(".")[-1]) for nm in names):
                            if h.name:
                                env[h.name] = ExcValue(cls)
                            env["<active-exception>"] = r
                            self.block(h.body, env)
                            break
                    else:
                        raise
                else:
                    self.block(s.orelse, env)
            finally:
                # the finally block runs on every way out (normal, exception, return, break, continue)
                if s.finalbody:
                    self.block(s.finalbody, env)
        elif isinstance(s, ast.With):
            stacks: list[MObj] = []
            for item in s.items:
                ctx = self.ev(item.context_expr, env)
                entered = self.hooks["enter"](self, item.context_expr, ctx) if "enter" in self.hooks else ctx
                if isinstance(ctx, MObj) and ctx.cls == "ExitStack":
                    stacks.append(ctx)
                if item.optional_vars is not None:
                    self.bind(item.optional_vars, entered, env)
            try:
                self.block(s.body, env)
            finally:
                # contextlib.ExitStack: the registered callbacks run last-in first-out on every way out of the block
                for st in reversed(stacks):
                    for cb, cargs, ckw in reversed(st.fields.get("callbacks", [])):
                        if isinstance(cb, Closure):
                            self.call_closure(cb, list(cargs), dict(ckw), s)
                        else:
                            raise self.unknown(s, "ExitStack callback that is not a local function")
        elif isinstance(s, (ast.Nonlocal, ast.Global)):
            return
        elif isinstance(s, ast.Assert):
            if not self.truth(self.ev(s.test, env), s.test):
                raise Raised("AssertionError", s)
        elif isinstance(s, ast.Delete):
            for t in s.targets:
                if isinstance(t, ast.Subscript):
                    base = self.ev(t.value, env)
                    idx = self.ev(t.slice, env)
                    if isinstance(base, list) and isinstance(idx, int):
                        if not -len(base) <= idx < len(base):
                            raise Internal("IndexError", f"`{unparse(s)}`", s)
                        del base[idx]
                        continue
                    if isinstance(base, dict):
                        if idx not in base:
                            raise Internal("KeyError", f"`{unparse(s)}`", s)
                        del base[idx]
                        continue
                raise self.unknown(s)
        else:
            raise self.unknown(s)


# ---------------------------------------------------------------------------------------------- driver
def freeze(v: Any) -> Any:
    if isinstance(v, MObj):
        return v.frozen()
    if isinstance(v, list):
        return ("L",) + tuple(freeze(x) for x in v)
    if isinstance(v, set):
        return frozenset(v)
    if isinstance(v, dict):
        return ("D",) + tuple(sorted((repr(k), freeze(x)) for k, x in v.items()))
    return v


def thaw(v: Any) -> Any:
    if isinstance(v, tuple) and v and v[0] == "L":
        return [thaw(x) for x in v[1:]]
    if isinstance(v, tuple) and len(v) >= 2 and v[0] == "O":
        return MObj(v[1], {k: thaw(x) for k, x in v[2:]})
    return v


@dataclass
class Split:
    pre: list[ast.stmt]
    loop: ast.For
    post: list[ast.stmt]
    token_var: str = ""
    index_var: str | None = None

    def bind(self, env: dict[str, Any], tok: Any) -> None:
        env[self.token_var] = tok
        if self.index_var is not None:
            env[self.index_var] = Opaque("token index")


def split_token_loop(ex: AbsExec, body: list[ast.stmt], env: dict[str, Any]) -> Split:
    """Interpret the statements before the token loop; the token loop is the first top-level `for` whose iterable is the
    tokenised formula."""
    for i, s in enumerate(body):
        if isinstance(s, ast.For):
            it = ex.ev(s.iter, dict(env))
            if isinstance(it, TokenStream):
                tg = s.target
                if isinstance(tg, ast.Name) and not it.enumerated:
                    return Split(body[:i], s, body[i + 1:], tg.id)
                if isinstance(tg, ast.Tuple) and it.enumerated and len(tg.elts) == 2 and all(isinstance(x, ast.Name) for x in tg.elts):
                    return Split(body[:i], s, body[i + 1:], tg.elts[1].id, tg.elts[0].id)  # type: ignore[union-attr]
                raise AnalysisError(f"{ex.qual}: target of the token loop not recognised")
        ex.stmt(s, env)
    raise AnalysisError(f"{ex.qual}: token loop (for token in <text>.split()) not found")


def names_used(nodes: list[ast.AST]) -> dict[str, list[ast.AST]]:
    out: dict[str, list[ast.AST]] = {}
    parents: dict[int, ast.AST] = {}
    for root in nodes:
        for p in ast.walk(root):
            for c in ast.iter_child_nodes(p):
                parents[id(c)] = p
    for root in nodes:
        for x in ast.walk(root):
            if isinstance(x, ast.Name):
                out.setdefault(x.id, []).append(parents.get(id(x), x))
    return out


def write_only_lists(loop: ast.For, env: dict[str, Any]) -> set[str]:
    """Lists that the loop body only appends to (the output queue): their content is not part of the configuration."""
    uses = names_used(list(loop.body))
    out = set()
    for name, v in env.items():
        if not isinstance(v, list):
            continue
        ok = True
        for parent in uses.get(name, []):
            if isinstance(parent, ast.Attribute) and parent.attr in ("append", "extend", "appendleft"):
                continue
            if isinstance(parent, ast.FormattedValue):
                continue
            ok = False
        if ok and uses.get(name):
            out.add(name)
    return out


_GEN_CACHE: dict[int, tuple[ast.AST, bool]] = {}


def _is_generator(node: ast.AST) -> bool:
    hit = _GEN_CACHE.get(id(node))
    if hit is not None and hit[0] is node:
        return hit[1]
    r = _is_generator_uncached(node)
    _GEN_CACHE[id(node)] = (node, r)
    return r


def _is_generator_uncached(node: ast.AST) -> bool:
    stack = list(ast.iter_child_nodes(node))
    while stack:
        x = stack.pop()
        if isinstance(x, (ast.Yield, ast.YieldFrom)):
            return True
        if isinstance(x, (ast.FunctionDef, ast.AsyncFunctionDef, ast.Lambda, ast.ClassDef)):
            continue
        stack.extend(ast.iter_child_nodes(x))
    return False


class Decisions:
    """Explores every outcome of the tests an interpretation makes on symbolic values: `run(decide)` is called repeatedly, each time
    with a `decide` hook that replays a prefix of outcomes and answers True to anything beyond it; the prefixes are enumerated depth-first."""

    def __init__(self, limit: int = 64):
        self.limit = limit

    def explore(self, run: Callable[[Callable[..., bool]], None]) -> int:
        pending: list[list[bool]] = [[]]
        runs = 0
        while pending:
            script = pending.pop()
            taken: list[bool] = []

            def decide(ex: Any, v: Any, e: Any, script: list[bool] = script, taken: list[bool] = taken) -> bool:
                i = len(taken)
                if i < len(script):
                    taken.append(script[i])
                else:
                    pending.append(taken[:i] + [False])
                    taken.append(True)
                return taken[-1]

            runs += 1
            if runs > self.limit:
                raise AnalysisError("more outcomes of tests on symbolic values than the analysis explores")
            run(decide)
        return runs
