"""PD: the formula tokens -> postfix converter is the shunting-yard transducer of the statement (shared by C06, C16, C17).

`Function.infix_to_postfix` is interpreted abstractly (sa/absexec.py) one token at a time; the resulting pushdown transducer
is compared, by exploring the product with the reference transducer below from the empty stack over every token class of
the extracted operator/function table, with what the grammar prescribes:

  operand            -> output
  function           -> push
  ,                  -> pop to output until "(" ; none: SyntaxError
  operator o         -> pop to output while the top is a registered symbol t with
                        (o left-assoc and p(o) <= p(t)) or (o right-assoc and p(o) < p(t)); push o
  (                  -> push
  )                  -> pop to output until "(" ; none: SyntaxError ; discard "(" ; a function on top goes to output
  end of input       -> any parenthesis left: SyntaxError ; else pop everything to output

Observable behaviour is compared (emitted symbols, acceptance / SyntaxError, no internal error), never the representation of
the stack, so the code is free to keep its stack any way it likes. Exhaustive for all token sequences that keep the
reference stack within the depth bound (4 quick / 6 thorough).
"""

from __future__ import annotations

import ast
from typing import Any

from ..absexec import (AbsExec, Internal, Joined, Opaque, Raised, Tok, Unknown, _Return, freeze, split_token_loop, thaw,
                       write_only_lists)
from ..pm import AnalysisError
from ..report import Check
from ..tables import function_factory

MARK = Tok("operand", tag="<already in the queue>")


def token_classes(check: Check) -> list[Tok]:
    table = function_factory(check.program)
    toks = [Tok("operand", tag="x"), Tok("lparen"), Tok("rparen"), Tok("comma")]
    ops = sorted({(e.precedence, -1 if e.associativity < 0 else 1) for e in table if e.kind == "Operator"})
    fns = sorted({e.precedence for e in table if e.kind == "Function"})
    for p, a in ops:
        toks.append(Tok("operator", p, a, 2))
    for p in fns:
        toks.append(Tok("function", p, -1, 1))
    return toks


def ref_step(stack: tuple, tok: Tok) -> Any:
    st = list(stack)
    out: list[Tok] = []
    k = tok.kind
    if k == "operand":
        out.append(tok)
    elif k in ("function", "lparen"):
        st.append(tok)
    elif k == "comma":
        while st and st[-1].kind != "lparen":
            out.append(st.pop())
        if not st:
            return "SyntaxError"
    elif k == "operator":
        while st and st[-1].kind in ("function", "operator"):
            top = st[-1]
            if (tok.assoc < 0 and tok.level <= top.level) or (tok.assoc > 0 and tok.level < top.level):
                out.append(st.pop())
            else:
                break
        st.append(tok)
    elif k == "rparen":
        while st and st[-1].kind != "lparen":
            out.append(st.pop())
        if not st:
            return "SyntaxError"
        st.pop()
        if st and st[-1].kind == "function":
            out.append(st.pop())
    return tuple(st), tuple(out)


def ref_end(stack: tuple) -> Any:
    if any(t.kind in ("lparen", "rparen") for t in stack):
        return "SyntaxError"
    return tuple(reversed(stack))


def show_stack(stack: tuple) -> str:
    return "[" + " ".join(repr(t) for t in stack) + "]"


PUBLIC_STEPS = {"infix_to_postfix", "format_infix", "parse", "copy", "create", "load"}


def _helpers(fn) -> dict[str, Any]:
    """Methods of the parser's own class (and of the classes nested in it) that the interpreter may step into when they are called on
    cls / self / the class: everything except the public pipeline steps, which stay opaque."""
    out: dict[str, Any] = {}
    c = fn.cls
    if c is None:
        return out
    for k in c.mro:
        for name, m in k.methods.items():
            if name not in PUBLIC_STEPS and not name.startswith("__") and name not in out:
                out[name] = m
    return out


def infix_to_postfix(check: Check, rule: str = "PD") -> None:
    p = check.program
    fn = p.func("Function.infix_to_postfix")
    check.analysed(fn)
    depth = 6 if check.tier == "thorough" else 4
    toks = token_classes(check)
    node = fn.analysis_node
    ex = AbsExec(fn.qualname, helpers=_helpers(fn))
    params = [a.arg for a in node.args.args]
    env0: dict[str, Any] = {params[0]: Opaque("cls")}
    for nm in params[1:]:
        env0[nm] = Opaque("formula")
    try:
        sp = split_token_loop(ex, list(node.body), env0)
        # the output queue is the list whose content ends up in what is returned at the end of the input: found by putting a mark into each list in turn
        outs = set()
        cands = [k for k, v in env0.items() if isinstance(v, list)]
        probe = {k: (list(v) if isinstance(v, list) else v) for k, v in env0.items()}
        for cand in cands:
            probe[cand] = [("mark", cand)]  # every list holds a mark of its own: what is already in the queue comes first in the result
        try:
            ex.steps = 0
            ex.block(sp.post, probe)
            res = None
        except _Return as r_:
            res = r_.value
        except (Raised, Internal):
            res = None
        if isinstance(res, Joined) and res.items and isinstance(res.items[0], tuple) and res.items[0][0] == "mark":
            outs.add(res.items[0][1])
        if len(outs) != 1:
            outs = write_only_lists(sp.loop, env0) if not outs else outs
        if len(outs) != 1:
            raise AnalysisError(f"{fn.qualname}: expected exactly one list whose content is what is returned at the end of the input (the output queue), found {sorted(outs)}")
        out_name = next(iter(outs))
        state_names = sorted(k for k, v in env0.items() if k != out_name and isinstance(v, (list, int, bool, type(None))) and not isinstance(v, Opaque))

        def config_of(env: dict[str, Any]) -> tuple:
            return tuple((k, freeze(env[k])) for k in state_names)

        def env_of(cfg: tuple) -> dict[str, Any]:
            env = dict(env0)
            for k, v in cfg:
                env[k] = thaw(v)
            return env

        def step(cfg: tuple, tok: Tok) -> Any:
            env = env_of(cfg)
            env[out_name] = [MARK]  # what is already in the queue: new symbols must come after it
            sp.bind(env, tok)
            ex.steps = 0
            try:
                ex.block(sp.loop.body, env)
            except Raised as r:
                return ("raise", r.cls, r.node)
            except Internal as i:
                return ("internal", i.cls, i.node, i.why)
            except _Return as r:
                return ("return", r.value)
            except Exception as e:  # _Continue at loop level is a normal end of the iteration; _Break ends the input
                if type(e).__name__ == "_Continue":
                    pass
                elif type(e).__name__ == "_Break":
                    return ("break",)
                else:
                    raise
            return ("next", config_of(env), tuple(env[out_name]))

        def end(cfg: tuple) -> Any:
            env = env_of(cfg)
            env[out_name] = [MARK]
            ex.steps = 0
            try:
                ex.block(sp.post, env)
            except Raised as r:
                return ("raise", r.cls, r.node)
            except Internal as i:
                return ("internal", i.cls, i.node, i.why)
            except _Return as r:
                return ("return", r.value)
            return ("return", None)

        init = (config_of(env0), ())
        seen = {init}
        work = [(init, ())]
        n_steps = n_ends = 0
        bad: list[tuple[str, str, Any]] = []

        def report(kind: str, trace: tuple, what: str, node: Any) -> None:
            if len(bad) < 6 and kind not in {b[0] for b in bad}:
                bad.append((kind, f"after tokens {show_stack(trace)}: {what}", node))

        while work:
            (cfg, rstack), trace = work.pop(0)
            # end of input in this configuration
            n_ends += 1
            got = end(cfg)
            want = ref_end(rstack)
            if got[0] == "internal":
                report("end-internal", trace, f"end of input fails with an internal {got[1]} ({got[3]})", got[2])
            elif want == "SyntaxError":
                if not (got[0] == "raise" and got[1] == "SyntaxError"):
                    report("end-accepts", trace, "the input ends with an unclosed parenthesis on the operator stack "
                           f"{show_stack(rstack)} but the formula is accepted" if got[0] == "return" else
                           f"unclosed parenthesis {show_stack(rstack)} is rejected with {got[1]} instead of SyntaxError", got[2] if len(got) > 2 else None)
            else:
                if got[0] == "raise":
                    report("end-rejects", trace, f"a well-parenthesised input (operator stack {show_stack(rstack)}) is rejected with {got[1]}", got[2])
                else:
                    v = got[1]
                    exp = (MARK,) + tuple(want)
                    if not (isinstance(v, Joined) and tuple(v.items) == exp):
                        items = show_stack(tuple(v.items)) if isinstance(v, Joined) else repr(v)
                        report("end-output", trace, f"at the end of the input the remaining operators {show_stack(rstack)} must follow the queue as "
                               f"{show_stack(tuple(want))}; the code returns {items}", None)
            if len(rstack) >= depth:
                continue
            for tok in toks:
                n_steps += 1
                got = step(cfg, tok)
                want = ref_step(rstack, tok)
                t2 = trace + (tok,)
                if got[0] == "internal":
                    report("internal", t2, f"internal {got[1]} ({got[3]})", got[2])
                    continue
                if got[0] in ("return", "break"):
                    report("early-exit", t2, "the token loop is left before the input is consumed", None)
                    continue
                if want == "SyntaxError":
                    if got[0] != "raise" or got[1] != "SyntaxError":
                        report("accepts-unbalanced", t2, f"`{tok!r}` without a matching opening parenthesis (operator stack {show_stack(rstack)}) is "
                               + ("accepted" if got[0] == "next" else f"rejected with {got[1]} instead of SyntaxError"), got[2] if got[0] == "raise" else None)
                    continue
                if got[0] == "raise":
                    report("rejects-valid", t2, f"token `{tok!r}` on operator stack {show_stack(rstack)} is rejected with {got[1]}", got[2])
                    continue
                (rs2, rout) = want
                if tuple(got[2]) != (MARK,) + tuple(rout):
                    report("emits", t2, f"token `{tok!r}` on operator stack {show_stack(rstack)} must move {show_stack(rout)} to the output, the code moves "
                           f"{show_stack(tuple(got[2]))} (in this order, `{MARK.tag}` standing for the earlier output)", None)
                    continue
                nxt = (got[1], rs2)
                if nxt not in seen:
                    seen.add(nxt)
                    work.append((nxt, t2))
    except Unknown as u:
        raise AnalysisError(str(u)) from None
    loc = fn.loc()
    kinds = {b[0] for b in bad}

    def verdict(construct: str, members: set[str], ok_text: str) -> None:
        hits = [b for b in bad if b[0] in members]
        where = fn.loc(hits[0][2]) if hits and hits[0][2] is not None else loc
        check.require(not hits, rule, f"Function.infix_to_postfix/{construct}", ok_text if not hits else hits[0][1], where,
                      {"configurations": len(seen), "steps": n_steps, "depth": depth, "token_classes": [repr(t) for t in toks]},
                      exhaustive=True, cases=n_steps + n_ends)

    verdict("transducer", {"emits", "rejects-valid", "early-exit"},
            f"every token class moves exactly the symbols the shunting-yard algorithm prescribes ({len(seen)} configurations x {len(toks)} token classes, "
            f"operator stacks up to depth {depth})")
    verdict("unbalanced", {"accepts-unbalanced", "end-accepts"},
            "`)` and `,` without an opening parenthesis, and any parenthesis left at the end of the input, are rejected with SyntaxError in every configuration")
    verdict("end-of-input", {"end-rejects", "end-output"},
            "at the end of the input the remaining operators follow the queue in stack order and the result is the queue in order")
    verdict("no-internal-error", {"internal", "end-internal"}, "no configuration and token class leads to an IndexError / KeyError / AttributeError")
    del kinds


# ---------------------------------------------------------------------------------------------- Function.parse
def parse_postfix(check: Check, rule: str = "PD2") -> None:
    """`Function.parse` builds the expression tree from the postfix tokens: an element of arity k needs k trees on the stack
    (SyntaxError otherwise), takes the top as its right child and the next as its left child; an operand becomes a leaf
    (constant if numeric, else variable); exactly one tree must remain. Interpreted for every stack depth 0..4 with the trees on
    the stack replaced by distinct leaves, for every (kind, arity) of the extracted table and both operand kinds."""
    from ..absexec import MObj

    p = check.program
    fn = p.func("Function.parse")
    check.analysed(fn)
    table = function_factory(p)
    toks = [Tok("operand", tag="number"), Tok("operand", tag="variable")]
    for kind, arity in sorted({(e.kind, e.arity) for e in table}):
        toks.append(Tok("function" if kind == "Function" else "operator", 1, -1, arity))
    node = fn.analysis_node

    def make_node(ex: AbsExec, e: ast.AST, recv: Any, args: list[Any], kw: dict[str, Any]) -> Any:
        order = ["element", "variable", "constant", "left", "right"]
        fields: dict[str, Any] = {"element": None, "variable": "", "constant": "nan", "left": None, "right": None}
        for k, v in zip(order, args):
            fields[k] = v
        fields.update(kw)
        return MObj("Node", fields)

    def to_float(ex: AbsExec, e: ast.AST, args: list[Any], kw: dict[str, Any]) -> Any:
        t = args[0]
        if isinstance(t, Tok) and t.kind == "operand" and t.tag == "number":
            return ("number", t)
        raise Raised("ValueError", e)

    def copy_elem(ex: AbsExec, e: ast.AST, recv: Any, args: list[Any], kw: dict[str, Any]) -> Any:
        from ..absexec import Registry, elem_of

        if isinstance(recv, Registry):
            el = elem_of(args[0])
            if el is None:
                raise Internal("KeyError", "factory.copy of a token that is not registered", e)
            return el
        if isinstance(recv, list):
            return list(recv)
        raise Unknown(f"{fn.qualname}: .copy() on {type(recv).__name__}")

    ex = AbsExec(fn.qualname, {"method:Node": make_node, "to_float": to_float, "method:copy": copy_elem,
                               "method:to_float": lambda ex_, e, recv, args, kw: to_float(ex_, e, args, kw)}, helpers=_helpers(fn))
    params = [a.arg for a in node.args.args]
    env0: dict[str, Any] = {params[0]: Opaque("cls")}
    for nm in params[1:]:
        env0[nm] = Opaque("formula")
    bad: list[tuple[str, str, Any]] = []
    n_cases = 0
    try:
        sp = split_token_loop(ex, list(node.body), env0)
        stacks = [k for k, v in env0.items() if isinstance(v, list)]
        if len(stacks) != 1:
            raise AnalysisError(f"{fn.qualname}: expected exactly one node stack, found {stacks}")
        sname = stacks[0]

        def leaf(i: int) -> Any:
            return MObj("Node", {"element": None, "variable": Tok("operand", tag=f"t{i}"), "constant": "nan", "left": None, "right": None})

        def ref_node(tok: Tok, stack: list[Any]) -> Any:
            if tok.kind == "operand":
                f = {"element": None, "variable": "", "constant": "nan", "left": None, "right": None}
                if tok.tag == "number":
                    f["constant"] = ("number", tok)
                else:
                    f["variable"] = tok
                return stack + [MObj("Node", f)]
            if tok.arity > len(stack):
                return "SyntaxError"
            st = list(stack)
            f = {"element": Elem_of(tok), "variable": "", "constant": "nan", "left": None, "right": None}
            if tok.arity >= 1:
                f["right"] = st.pop()
            if tok.arity == 2:
                f["left"] = st.pop()
            return st + [MObj("Node", f)]

        from ..absexec import elem_of as Elem_of

        for depth in range(0, 5):
            # end of input
            env = dict(env0)
            env[sname] = [leaf(i) for i in range(depth)]
            n_cases += 1
            try:
                ex.block(sp.post, env)
                got: Any = ("return", None)
            except Raised as r:
                got = ("raise", r.cls, r.node)
            except Internal as i:
                got = ("internal", i.cls, i.node, i.why)
            except _Return as r:
                got = ("return", r.value)
            if got[0] == "internal":
                bad.append(("internal", f"end of input with {depth} tree(s) on the stack: internal {got[1]} ({got[3]})", got[2]))
            elif depth != 1:
                if not (got[0] == "raise" and got[1] == "SyntaxError"):
                    bad.append(("single-root", f"{depth} tree(s) remain on the stack at the end of the input: must be rejected with SyntaxError, "
                                + ("is accepted" if got[0] == "return" else f"raises {got[1]}"), got[2] if len(got) > 2 else None))
            else:
                if got[0] != "return" or freeze(got[1]) != freeze(leaf(0)):
                    bad.append(("single-root", "a single remaining tree must be returned as the result", got[2] if len(got) > 2 else None))
            for tok in toks:
                n_cases += 1
                env = dict(env0)
                env[sname] = [leaf(i) for i in range(depth)]
                sp.bind(env, tok)
                try:
                    ex.block(sp.loop.body, env)
                    got = ("next", freeze(env[sname]))
                except Raised as r:
                    got = ("raise", r.cls, r.node)
                except Internal as i:
                    got = ("internal", i.cls, i.node, i.why)
                except _Return:
                    got = ("return",)
                except Exception as e2:
                    if type(e2).__name__ != "_Continue":
                        raise
                    got = ("next", freeze(env[sname]))
                want = ref_node(tok, [leaf(i) for i in range(depth)])
                what = f"token {tok!r}{('/' + tok.tag) if tok.kind == 'operand' else ''} with {depth} tree(s) on the stack"
                if got[0] == "internal":
                    bad.append(("internal", f"{what}: internal {got[1]} ({got[3]})", got[2]))
                elif want == "SyntaxError":
                    if not (got[0] == "raise" and got[1] == "SyntaxError"):
                        bad.append(("arity", f"{what}: too few operands must be rejected with SyntaxError, " +
                                    ("is accepted" if got[0] == "next" else f"raises {got[1]}" if got[0] == "raise" else "leaves the loop"), got[2] if len(got) > 2 else None))
                elif got[0] != "next":
                    bad.append(("tree", f"{what}: a well-formed step is rejected / leaves the loop ({got[0]} {got[1] if len(got) > 1 else ''})", got[2] if len(got) > 2 else None))
                elif got[1] != freeze(want):
                    bad.append(("tree", f"{what}: the stack becomes {_show(got[1])}, specified {_show(freeze(want))}", None))
    except Unknown as u:
        raise AnalysisError(str(u)) from None

    def verdict(construct: str, members: set[str], ok_text: str) -> None:
        hits = [b for b in bad if b[0] in members]
        where = fn.loc(hits[0][2]) if hits and hits[0][2] is not None else fn.loc()
        check.require(not hits, rule, f"Function.parse/{construct}", ok_text if not hits else hits[0][1], where,
                      {"cases": n_cases, "token_classes": [repr(t) + t.tag for t in toks]}, exhaustive=True, cases=n_cases)

    verdict("tree", {"tree"}, "an element of arity k takes the top of the stack as right child and the next as left child; operands become constant / variable leaves")
    verdict("arity", {"arity"}, "an element with more operands than trees on the stack is rejected with SyntaxError")
    verdict("single-root", {"single-root"}, "the formula is accepted iff exactly one tree remains, which is the result")
    verdict("no-internal-error", {"internal"}, "no stack depth and token class leads to an IndexError / KeyError / AttributeError")


def _show(fz: Any) -> str:
    if isinstance(fz, tuple) and fz and fz[0] == "L":
        return "[" + ", ".join(_show(x) for x in fz[1:]) + "]"
    if isinstance(fz, tuple) and len(fz) >= 2 and fz[0] == "O":
        d = dict(fz[2:])
        if d.get("element") is None:
            v = d.get("variable")
            return f"leaf({v!r})" if v != "" else f"const({d.get('constant')})"
        return f"node({d['element'].kind}/{d['element'].arity}, left={_show(d.get('left'))}, right={_show(d.get('right'))})"
    return repr(fz)
