"""C09 - Integral defuzzifiers return the defined point of the sampled fuzzy set (structural clauses)."""

from __future__ import annotations

import ast

from ..pm import AnalysisError, unparse
from ..report import Check
from ..sym import Resolver, Term, path_of, show, walk
from . import c02
from .common import const_value, loc, strip

EXPLANATION = (
    "static analysis of the five integral defuzzifiers and Op.midpoints: all five sample x = midpoints(minimum, "
    "maximum, resolution) and y = term.membership(x) lifted to 2-D (same origins, same order); Smallest/Mean/Largest "
    "of Maximum are normalised and compared - identical up to one hole, which must be a min / mean / max reducer "
    "respectively; the selection mask is (membership equals the per-row maximum) and (membership is positive); the "
    "centroid is sum(x*y)/sum(y) and the bisector is built from the normalised cumulative sum; every reduction runs "
    "along the sampling axis (1); Op.midpoints is start + (i + 0.5) * (end - start) / resolution (normal forms, integer index range); elementwise safety; "
    "every parameter of the integral defuzzifiers and of Op.midpoints is read (S6)"
)
ASSUMPTIONS = ["the centroid/bisector values, range membership and the translation law are numeric and not decided"]
FLOORS = {"S1": 10, "S2": 1, "R1": 3, "R2": 3, "R3": 5, "S5": 4, "V1": 5, "S6": 1}

CLASSES = ["Bisector", "Centroid", "LargestOfMaximum", "MeanOfMaximum", "SmallestOfMaximum"]
REDUCERS = {"min": {"numpy.nanmin"}, "mean": {"numpy.nanmean"}, "max": {"numpy.nanmax"}}  # NaN-ignoring: the points that are not selected are NaN
HOLE = ("global", "<reducer>")


def sample_terms(check: Check, cname: str):
    p = check.program
    fn = p.cls(cname).methods.get("defuzzify")
    if fn is None:
        raise AnalysisError(f"anchor vanished: {cname}.defuzzify")
    check.analysed(fn)
    r = Resolver(p, fn)
    cfg = r.cfg
    rets = [n for n in cfg.stmt_nodes() if isinstance(n.ast, ast.Return) and n.ast.value is not None]
    if not rets:
        raise AnalysisError(f"{cname}.defuzzify returns nothing")
    ret = r.term(rets[-1].ast.value, rets[-1])  # type: ignore[union-attr]
    return fn, r, cfg, ret


def run(check: Check) -> None:
    p = check.program
    infos = {}
    for cname in CLASSES:
        fn, r, cfg, ret = sample_terms(check, cname)
        tparam, mn, mx = [q.name for q in fn.params[1:4]]
        want_x = ("call", ("global", "fuzzylite.operation.Operation.midpoints"), (("param", mn), ("param", mx), ("attr", ("param", "self"), "resolution")), ())
        xs = [s for s in walk(ret) if s[0] == "call" and s[1] == ("global", "fuzzylite.operation.Operation.midpoints")]
        x_ok = bool(xs) and all(s == want_x for s in xs)
        check.require(x_ok, "S1", f"{cname}.defuzzify/x", "x = Op.midpoints(minimum, maximum, self.resolution)" if x_ok else
                      f"sample points are {show(xs[0]) if xs else '<none>'}", loc(fn))
        lifted_x = ("call", ("global", "numpy.atleast_2d"), (want_x,), ())
        ys = [s for s in walk(ret) if s[0] == "call" and s[1] == ("attr", ("param", tparam), "membership")]
        y_ok = bool(ys) and all(s[2] == (lifted_x,) for s in ys) and \
            all(any(w == ("call", ("global", "numpy.atleast_2d"), (s,), ()) for w in walk(ret)) for s in ys)
        check.require(y_ok, "S1", f"{cname}.defuzzify/y", "y = term.membership(x), both lifted to two dimensions (rows = sets of a batch)" if y_ok else
                      f"memberships are {show(ys[0])[:120] if ys else '<none>'}", loc(fn))
        infos[cname] = (fn, r, cfg, ret, lifted_x, ("call", ("global", "numpy.atleast_2d"), (ys[0],), ()) if ys else None)
        # R3 axis
        axes = []
        for s in walk(ret):
            if s[0] == "call":
                kw = dict(s[3])
                name = s[1][1].split(".")[-1] if s[1][0] == "global" else (s[1][2] if s[1][0] == "attr" else "")
                if name in ("sum", "cumsum", "nancumsum", "max", "min", "mean", "nanmean", "nanmax", "nanmin", "nansum", "amax", "amin", "argmax", "argmin"):
                    ax = kw.get("axis", s[2][1] if s[1][0] == "global" and len(s[2]) > 1 else (s[2][0] if s[1][0] == "attr" and s[2] else None))
                    axes.append((name, const_value(ax) if ax is not None else None))
        bad = [(n_, a) for n_, a in axes if a != 1]
        check.require(bool(axes) and not bad, "R3", f"{cname}.defuzzify/axis", f"all {len(axes)} reductions run along the sampling axis 1" if axes and not bad else
                      f"reductions with another axis: {bad}", loc(fn))
        c02.kernel_elementwise(check, fn, "V1", f"{cname}.defuzzify")
    maxima(check, infos)
    centroid(check, infos["Centroid"])
    bisector(check, infos["Bisector"])
    midpoints(check)
    from .common import unused_parameters

    unused_parameters(check, "S6", set(CLASSES) | {"IntegralDefuzzifier"}, {"Operation.midpoints"})
    check.exhaustive_parts += ["sibling normal forms of the three maxima defuzzifiers"]


RED_NAMES = {"nanmin", "min", "amin", "nanmean", "mean", "nanmax", "max", "amax", "nanmedian", "median", "sum", "nansum"}


def _reducers_over_points(ret: Term, x: Term, y: Term) -> list[tuple[Term, Term, str]]:
    """Reduction calls whose argument is built from the sample points x other than through the memberships y: (call, argument, name)."""
    out = []
    for s_ in walk(ret):
        if s_[0] != "call":
            continue
        if s_[1][0] == "global" and s_[1][1].startswith("numpy.") and s_[1][1].split(".")[-1] in RED_NAMES and s_[2]:
            arg, name = s_[2][0], s_[1][1]
        elif s_[1][0] == "attr" and s_[1][2] in RED_NAMES:
            arg, name = s_[1][1], "ndarray." + s_[1][2]
        else:
            continue
        if any(q == x for q in walk(_replace(arg, y, ("param", "<y>")))):
            out.append((s_, arg, name))
    return out


def maxima(check: Check, infos: dict) -> None:
    from ..absint import FINITE, NAN, Abs, Evaluator, show_abs

    forms = {}
    holes = {}
    for cname, kind in (("SmallestOfMaximum", "min"), ("MeanOfMaximum", "mean"), ("LargestOfMaximum", "max")):
        fn, r, cfg, ret, x, y = infos[cname]
        # the outermost reducer applied to the selected sample points
        cands = _reducers_over_points(ret, x, y)
        cands = [c for c in cands if not any(c[0] is not d[0] and any(q == c[0] for q in walk(d[1])) for d in cands)]
        if len(cands) != 1:
            check.violation("R1", f"{cname}.defuzzify/reducer", f"expected one {kind} reduction over the selected sample points, found "
                            f"{[c[2] for c in cands]}", loc(fn))
            forms[cname] = normalize(ret)
            holes[cname] = "?"
            continue
        red, arg, rname = cands[0]
        holes[cname] = rname
        forms[cname] = normalize(_replace(ret, red, ("call", HOLE, (arg,) + tuple(red[2][1:] if red[1][0] == "global" else red[2]), red[3])))
        ok = rname in REDUCERS[kind]
        check.require(ok, "R1", f"{cname}.defuzzify/reducer", f"{cname} reduces the selected points with {rname}" + ("" if ok else
                      f", expected a {kind} reducer that ignores the points that are not selected ({sorted(REDUCERS[kind])})"), loc(fn))
        # R2: what a sample point contributes to the reduction, by abstract interpretation over the two selection conditions:
        # the point itself when its membership is positive and equals the per-set maximum, NaN (ignored) otherwise
        ymax = ("call", ("attr", y, "max"), (), (("axis", ("const", 1)), ("keepdims", ("const", True))))
        pos_forms = {normalize(("cmp", (">",), (y, ("const", 0)))), normalize(("cmp", ("<",), (("const", 0), y))),
                     normalize(("cmp", (">",), (y, ("const", 0.0)))), normalize(("cmp", ("<",), (("const", 0.0), y)))}
        eq_form = normalize(("cmp", ("==",), (y, ymax)))
        seen_atoms = set()
        rows = {}
        for pos_v in (True, False):
            for eq_v in (True, False):
                def env(t: Term, pos_v=pos_v, eq_v=eq_v):
                    if t == x:
                        return Abs(FINITE)
                    nt = normalize(t)
                    if nt in pos_forms:
                        seen_atoms.add("positive")
                        return frozenset({pos_v})
                    if nt == eq_form:
                        seen_atoms.add("maximal")
                        return frozenset({eq_v})
                    if t == y:
                        return Abs(FINITE)
                    return None
                try:
                    rows[(pos_v, eq_v)] = Evaluator(check.program, env).ev(arg)
                except AnalysisError as ex:
                    rows[(pos_v, eq_v)] = str(ex)
        want = {(True, True): Abs(FINITE), (True, False): Abs({NAN}), (False, True): Abs({NAN}), (False, False): Abs({NAN})}
        bad = {k: v for k, v in rows.items() if v != want[k]}
        names = {(True, True): "positive and maximal", (True, False): "positive, below the maximum", (False, True): "zero and maximal (empty set)",
                 (False, False): "zero, below the maximum"}
        m_ok = not bad and seen_atoms == {"positive", "maximal"}
        check.require(m_ok, "R2", f"{cname}.defuzzify/mask",
                      "a sample point enters the reduction iff its membership is positive and equals the per-set maximum; all other points are NaN (ignored)"
                      if m_ok else "what a sample point contributes to the reduction: " + "; ".join(
                          f"{names[k]} -> {show_abs(v) if not isinstance(v, str) else v} (specified {show_abs(want[k])})" for k, v in bad.items())
                      + ("" if seen_atoms == {"positive", "maximal"} else f"; conditions found: {sorted(seen_atoms)}"), loc(fn),
                      exhaustive=True, cases=4)
    a, b, c = forms["SmallestOfMaximum"], forms["MeanOfMaximum"], forms["LargestOfMaximum"]
    same = a == b == c
    diff = ""
    if not same:
        for n1, n2 in (("SmallestOfMaximum", "MeanOfMaximum"), ("MeanOfMaximum", "LargestOfMaximum")):
            if forms[n1] != forms[n2]:
                diff = f"{n1}: {show(forms[n1])[:160]} vs {n2}: {show(forms[n2])[:160]}"
                break
    check.require(same, "S2", "SmallestOfMaximum~MeanOfMaximum~LargestOfMaximum", "the three maxima defuzzifiers are the same computation up to the reducer "
                  f"({holes})" if same else f"the maxima defuzzifiers differ beyond the reducer: {diff}", loc(infos["MeanOfMaximum"][0]),
                  exhaustive=True, cases=3)


def normalize(t):
    """Sort the operands of commutative operators so that syntactic order does not matter."""
    if isinstance(t, tuple) and t and isinstance(t[0], str):
        t = tuple(normalize(x) for x in t)
        if t[0] == "binop" and t[1] in ("&", "|", "+", "*"):
            a, b = sorted([t[2], t[3]], key=repr)
            return ("binop", t[1], a, b)
        if t[0] == "cmp" and t[1] in (("==",), ("!=",)):
            return ("cmp", t[1], tuple(sorted(t[2], key=repr)))
        return t
    if isinstance(t, tuple):
        return tuple(normalize(x) for x in t)
    if isinstance(t, frozenset):
        return frozenset(normalize(x) for x in t)
    return t


def _replace(t, old, new):
    if t == old:
        return new
    if isinstance(t, tuple):
        return tuple(_replace(x, old, new) for x in t)
    if isinstance(t, frozenset):
        return frozenset(_replace(x, old, new) for x in t)
    return t


def centroid(check: Check, info) -> None:
    fn, r, cfg, ret, x, y = info
    core = strip(ret)
    axis1 = (("axis", ("const", 1)),)
    num1 = ("call", ("attr", ("binop", "*", x, y), "sum"), (), axis1)
    num2 = ("call", ("attr", ("binop", "*", y, x), "sum"), (), axis1)
    den = ("call", ("attr", y, "sum"), (), axis1)
    ok = core[0] == "binop" and core[1] == "/" and core[2] in (num1, num2) and core[3] == den
    check.require(ok, "S5", "Centroid.defuzzify/formula", "centroid = sum(x*y) / sum(y) per set" if ok else f"centroid is {show(core)[:200]}", loc(fn))


def bisector(check: Check, info) -> None:
    fn, r, cfg, ret, x, y = info
    names = [s[1][1] for s in walk(ret) if s[0] == "call" and s[1][0] == "global"]
    has_cum = any(n in ("numpy.nancumsum", "numpy.cumsum") for n in names)
    half = any(s[0] == "binop" and s[1] == "-" and s[3] == ("const", 0.5) for s in walk(ret))
    last = any(s[0] == "sub" and any(const_value(q) == -1 for q in walk(s[2]) if q[0] in ("const", "unop")) for s in walk(ret))
    argmin = any(s[0] == "cmp" and s[1] == ("==",) and any(q[0] == "call" and q[1][0] == "attr" and q[1][2] == "min" for q in s[2]) for s in walk(ret))
    mean = any(n in ("numpy.nanmean", "numpy.mean") for n in names) and any(s[0] == "call" and s[1] == ("global", "numpy.where") and s[2][1] == x for s in walk(ret))
    # the deviation from one half is minimised as a distance: |c - 1/2| (or its square), not the signed difference
    def is_half(t_: Term) -> bool:
        return t_[0] == "binop" and t_[1] == "-" and t_[3] == ("const", 0.5)

    dist = any((s[0] == "call" and s[1][0] == "global" and s[1][1] in ("numpy.abs", "numpy.absolute", "numpy.fabs", "abs", "numpy.square") and s[2] and is_half(strip(s[2][0])))
               or (s[0] == "binop" and s[1] == "**" and s[3] == ("const", 2) and is_half(strip(s[2]))) for s in walk(ret))
    half = half and dist
    ok = has_cum and half and last and argmin and mean
    check.require(ok, "S5", "Bisector.defuzzify/formula",
                  "bisector = mean of the sample points whose normalised cumulative membership is closest to one half" if ok else
                  f"cumulative sum={has_cum}, distance |c - 1/2|={half}, normalised by the last column={last}, closest={argmin}, mean of tied points={mean}", loc(fn))


def _index_vector(t: Term, res: Term) -> str | None:
    """'ok' when t is the integer index vector 0..resolution-1 (any spelling through range / integer arange), a reason otherwise,
    None when t is not an index generator at all."""
    if t[0] == "call" and t[1][0] == "global" and t[1][1] in ("numpy.array", "numpy.asarray", "numpy.fromiter", "list", "tuple", "fuzzylite.library.array",
                                                             "fuzzylite.library.scalar") and t[2]:
        return _index_vector(t[2][0], res)
    if t[0] == "call" and t[1] in (("global", "range"), ("global", "numpy.arange")):
        a = [x for x in t[2]]
        if len(a) == 1 and a[0] == res:
            return "ok"
        if len(a) == 2 and a[0] == ("const", 0) and a[1] == res:
            return "ok"
        if len(a) == 3 and a[0] == ("const", 0) and a[1] == res and a[2] == ("const", 1):
            return "ok"
        return f"`{show(t)}` does not enumerate the integers 0..resolution-1 (a floating-point range can yield one point more or less)"
    if t[0] == "call" and t[1][0] == "global" and t[1][1] in ("numpy.linspace",):
        return f"`{show(t)}` samples the end points, not the cell indices"
    return None


def midpoints(check: Check) -> None:
    """S5: Op.midpoints(start, end, resolution) is start + (i + 1/2) * (end - start) / resolution for the integer indices i = 0..resolution-1,
    compared as a rational-function normal form (so re-association, commuted operands and temporaries are immaterial)."""
    from ..algebra import Rat

    p = check.program
    fn = p.func("Operation.midpoints")
    check.analysed(fn)
    r = Resolver(p, fn)
    rets = [r.term(n.ast.value, n) for n in r.cfg.stmt_nodes() if isinstance(n.ast, ast.Return) and n.ast.value is not None]
    s_, e_, res = [("param", q.name) for q in fn.params[:3]]
    problems: list[str] = []

    def nf(t: Term) -> Rat:
        iv = _index_vector(t, res)
        if iv is not None:
            if iv != "ok":
                problems.append(iv)
            return Rat.sym("i")
        if t in (s_, e_, res):
            return Rat.sym(t[1])
        if t[0] == "const" and isinstance(t[1], (int, float)) and not isinstance(t[1], bool):
            from fractions import Fraction

            return Rat.const(Fraction(t[1]).limit_denominator(10 ** 6))
        if t[0] == "binop" and t[1] in ("+", "-", "*", "/"):
            a, b = nf(t[2]), nf(t[3])
            return a + b if t[1] == "+" else (a - b if t[1] == "-" else (a * b if t[1] == "*" else a / b))
        if t[0] == "unop" and t[1] == "-":
            return -nf(t[2])
        if t[0] == "call" and t[1][0] == "global" and t[1][1] in ("fuzzylite.library.scalar", "fuzzylite.library.array", "numpy.asarray", "numpy.array", "float") and len(t[2]) == 1:
            return nf(t[2][0])
        raise AnalysisError(f"Operation.midpoints: `{show(t)[:80]}` is outside the normal-form model")

    want = Rat.sym(s_[1]) + (Rat.sym("i") + Rat.const("1/2")) * (Rat.sym(e_[1]) - Rat.sym(s_[1])) / Rat.sym(res[1])
    ok = bool(rets)
    shown = ""
    for t in rets:
        got = nf(t)
        if not got.equals(want):
            ok = False
            shown = show(t)
    if problems:
        ok = False
    check.require(ok, "S5", "Operation.midpoints/formula", "midpoints are start + (i + 0.5) * (end - start) / resolution for i = 0..resolution-1 (normal forms equal)" if ok else
                  (problems[0] if problems else f"midpoints are {shown}, which is not start + (i + 0.5) * (end - start) / resolution"), loc(fn))
    dflt = fn.params[2].default
    check.require(dflt is not None, "S5", "Operation.midpoints/signature", "midpoints(start, end, resolution)", loc(fn))
