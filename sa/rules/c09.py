"""C09 - Integral defuzzifiers return the defined point of the sampled fuzzy set (structural clauses)."""

from __future__ import annotations

import ast

from ..pm import AnalysisError, unparse
from ..report import Check
from ..sym import Resolver, Term, path_of, show, walk
from . import c02
from .common import const_value, loc, strip

EXPLANATION = (
    "static analysis of the five integral defuzzifiers and Op.midpoints: all five sample x = midpoints(minimum, "
    "maximum, resolution) and y = term.membership(x) lifted to 2-D (same origins, same order); Smallest/Mean/Largest "
    "of Maximum are normalised and compared - identical up to one hole, which must be a min / mean / max reducer "
    "respectively; the selection mask is (membership equals the per-row maximum) and (membership is positive); the "
    "centroid is sum(x*y)/sum(y) and the bisector is built from the normalised cumulative sum; every reduction runs "
    "along the sampling axis (1); Op.midpoints is start + (i + 0.5) * (end - start) / resolution (normal forms, integer index range); elementwise safety; "
    "every parameter of the integral defuzzifiers and of Op.midpoints is read (S6)"
    "; P7 - Aggregated.membership folds every activated term in, for any S-norm"
)
ASSUMPTIONS = ["the centroid/bisector values, range membership and the translation law are numeric and not decided"]
FLOORS = {"H5": 1, "H8": 2, "S1": 10, "S2": 1, "R1": 3, "R2": 3, "R3": 5, "S5": 4, "V1": 5, "S6": 1}

CLASSES = ["Bisector", "Centroid", "LargestOfMaximum", "MeanOfMaximum", "SmallestOfMaximum"]
REDUCERS = {"min": {"numpy.nanmin"}, "mean": {"numpy.nanmean"}, "max": {"numpy.nanmax"}}  # NaN-ignoring: the points that are not selected are NaN
HOLE = ("global", "<reducer>")


def sample_terms(check: Check, cname: str):
    p = check.program
    fn = p.cls(cname).methods.get("defuzzify")
    if fn is None:
        raise AnalysisError(f"anchor vanished: {cname}.defuzzify")
    check.analysed(fn)
    r = Resolver(p, fn)
    cfg = r.cfg
    rets = [n for n in cfg.stmt_nodes() if isinstance(n.ast, ast.Return) and n.ast.value is not None]
    if not rets:
        raise AnalysisError(f"{cname}.defuzzify returns nothing")
    ret = r.term(rets[-1].ast.value, rets[-1])  # type: ignore[union-attr]
    from ..absint import inline_self_methods

    # helper methods of the defuzzifier (`self.samples(minimum, maximum)`) are read as what they return; one with statements of its own is outside the model
    ret = inline_self_methods(p, p.cls(cname), ret, exclude=("defuzzify",), strict=True)
    return fn, r, cfg, ret


def run(check: Check) -> None:
    p = check.program
    from . import wiring

    wiring.p7_aggregated_membership(check)  # Aggregated.membership (anchor of this property): every activated term is folded in, for any S-norm
    from .common import memoisation_rule

    from . import c13

    c13.step_state(check, reads=False)  # H5: nothing a defuzzifier computes is kept on the object from one call to the next (a cache of sample points goes stale)
    memoisation_rule(check)  # H8: the sample grid and the memberships are computed for the call - nothing answers from a cache of shared, writable arrays
    infos = {}
    for cname in CLASSES:
        fn, r, cfg, ret = sample_terms(check, cname)
        tparam, mn, mx = [q.name for q in fn.params[1:4]]
        want_x = ("call", ("global", "fuzzylite.operation.Operation.midpoints"), (("param", mn), ("param", mx), ("attr", ("param", "self"), "resolution")), ())
        xs = [s for s in walk(ret) if s[0] == "call" and s[1] == ("global", "fuzzylite.operation.Operation.midpoints")]
        x_ok = bool(xs) and all(s == want_x for s in xs)
        check.require(x_ok, "S1", f"{cname}.defuzzify/x", "x = Op.midpoints(minimum, maximum, self.resolution)" if x_ok else
                      f"sample points are {show(xs[0]) if xs else '<none>'}", loc(fn))
        lifted_x = ("call", ("global", "numpy.atleast_2d"), (want_x,), ())
        ys = [s for s in walk(ret) if s[0] == "call" and s[1] == ("attr", ("param", tparam), "membership")]
        y_ok = bool(ys) and all(s[2] == (lifted_x,) for s in ys) and \
            all(any(w == ("call", ("global", "numpy.atleast_2d"), (s,), ()) for w in walk(ret)) for s in ys)
        check.require(y_ok, "S1", f"{cname}.defuzzify/y", "y = term.membership(x), both lifted to two dimensions (rows = sets of a batch)" if y_ok else
                      f"memberships are {show(ys[0])[:120] if ys else '<none>'}", loc(fn))
        infos[cname] = (fn, r, cfg, ret, lifted_x, ("call", ("global", "numpy.atleast_2d"), (ys[0],), ()) if ys else None)
        # R3 axis
        axes = []
        for s in walk(ret):
            if s[0] == "call":
                kw = dict(s[3])
                name = s[1][1].split(".")[-1] if s[1][0] == "global" else (s[1][2] if s[1][0] == "attr" else "")
                if name in ("sum", "cumsum", "nancumsum", "max", "min", "mean", "nanmean", "nanmax", "nanmin", "nansum", "amax", "amin", "argmax", "argmin"):
                    ax = kw.get("axis", s[2][1] if s[1][0] == "global" and len(s[2]) > 1 else (s[2][0] if s[1][0] == "attr" and s[2] else None))
                    axes.append((name, const_value(ax) if ax is not None else None))
        bad = [(n_, a) for n_, a in axes if a != 1]
        check.require(bool(axes) and not bad, "R3", f"{cname}.defuzzify/axis", f"all {len(axes)} reductions run along the sampling axis 1" if axes and not bad else
                      f"reductions with another axis: {bad}", loc(fn))
        c02.kernel_elementwise(check, fn, "V1", f"{cname}.defuzzify")
    maxima(check, infos)
    centroid(check, infos["Centroid"])
    bisector(check, infos["Bisector"])
    midpoints(check)
    from .common import unused_parameters

    unused_parameters(check, "S6", set(CLASSES) | {"IntegralDefuzzifier"}, {"Operation.midpoints"})
    check.exhaustive_parts += ["sibling normal forms of the three maxima defuzzifiers"]


NAN = ("global", "numpy.nan")
AXIS1 = ("const", 1)


def _subterms(t):
    """Every canonical sub-term, looking inside rational normal forms as well."""
    from ..npcanon import _RatTerm

    if isinstance(t, _RatTerm):
        yield t
        for s_ in t[2].symbols():
            yield from _subterms(s_)
        return
    if isinstance(t, tuple):
        if t and isinstance(t[0], str):
            yield t
        for x_ in t:
            yield from _subterms(x_)


def _replace(t, old, new):
    if t == old:
        return new
    if isinstance(t, tuple) and not (len(t) == 3 and t[0] == "rat"):
        return tuple(_replace(x, old, new) for x in t)
    return t


def _truth(c, val) -> bool | None:
    """A canonical mask under an assignment of its atoms (None: an atom the assignment does not know)."""
    if c[0] == "not":
        v = _truth(c[1], val)
        return None if v is None else not v
    if c[0] in ("and", "or"):
        vs = [_truth(x, val) for x in c[1]]
        if c[0] == "and":
            return False if any(v is False for v in vs) else (None if any(v is None for v in vs) else True)
        return True if any(v is True for v in vs) else (None if any(v is None for v in vs) else False)
    if c[0] == "const" and isinstance(c[1], bool):
        return c[1]
    return val(c)


def maxima(check: Check, infos: dict) -> None:
    """R1, R2, S2 on canonical forms (sa/npcanon.py): the three maxima defuzzifiers reduce `where(mask, x, nan)` along the sampling axis with
    nanmin / nanmean / nanmax; the mask, as a Boolean function of its atoms, is `membership positive and equal to the row maximum`; and the
    three computations are the same up to the reducer."""
    from ..npcanon import canon, show_canon

    forms = {}
    holes = {}
    for cname, kind in (("SmallestOfMaximum", "min"), ("MeanOfMaximum", "mean"), ("LargestOfMaximum", "max")):
        fn, r, cfg, ret, x, y = infos[cname]
        c, cx, cy = canon(ret), canon(x), canon(y)
        # reductions over something built from the sample points other than through the memberships
        cands = [s_ for s_ in _subterms(c) if s_[0] == "reduce" and any(q == cx for q in _subterms(_replace(s_[2], cy, ("param", "<y>"))))]
        cands = [s_ for s_ in cands if not any(s_ is not d and any(q == s_ for q in _subterms(d[2])) for d in cands)]
        if len(cands) != 1:
            check.violation("R1", f"{cname}.defuzzify/reducer", f"expected one {kind} reduction over the selected sample points, found {[s_[1] for s_ in cands]}", loc(fn))
            forms[cname], holes[cname] = c, "?"
            continue
        red = cands[0]
        rname, arg = red[1], red[2]
        holes[cname] = "numpy." + rname
        forms[cname] = _replace(c, red, ("reduce", "<reducer>") + red[2:])
        ok = "numpy." + rname in REDUCERS[kind]
        check.require(ok, "R1", f"{cname}.defuzzify/reducer", f"{cname} reduces the selected points with numpy.{rname}" + ("" if ok else
                      f", expected a {kind} reducer that ignores the points that are not selected ({sorted(REDUCERS[kind])})"), loc(fn))
        # R2: what a sample point contributes to the reduction, for the four truth assignments of the two conditions
        pos = canon(("cmp", (">",), (y, ("const", 0))))
        ymax = ("reduce", "max", cy, AXIS1, ())
        eqs = {canon_eq(cy, ymax), canon_eq(cy, ("reduce", "nanmax", cy, AXIS1, ()))}
        names = {(True, True): "positive and maximal", (True, False): "positive, below the maximum", (False, True): "zero and maximal (empty set)",
                 (False, False): "zero, below the maximum"}
        problems: list[str] = []
        seen: set[str] = set()
        if arg[0] != "where":
            problems.append(f"the reduced array is `{show_canon(arg)[:100]}`, not a selection `where(mask, x, nan)`")
        else:
            for pos_v in (True, False):
                for eq_v in (True, False):
                    def val(a, pos_v=pos_v, eq_v=eq_v):
                        if a == pos:
                            seen.add("positive")
                            return pos_v
                        if a in eqs:
                            seen.add("maximal")
                            return eq_v
                        return None
                    tv = _truth(arg[1], val)
                    got = None if tv is None else (arg[2] if tv else arg[3])
                    want = cx if (pos_v and eq_v) else NAN
                    if got != want:
                        problems.append(f"{names[(pos_v, eq_v)]} -> " + ("depends on something else" if got is None else f"`{show_canon(got)[:60]}`")
                                        + f" (specified {'the point itself' if want == cx else 'nan'})")
            if not problems and seen != {"positive", "maximal"}:
                problems.append(f"conditions found: {sorted(seen)}")
        check.require(not problems, "R2", f"{cname}.defuzzify/mask",
                      "a sample point enters the reduction iff its membership is positive and equals the per-set maximum; all other points are NaN (ignored)"
                      if not problems else "what a sample point contributes to the reduction: " + "; ".join(problems[:4]), loc(fn), exhaustive=True, cases=4)
    a, b, c3 = forms["SmallestOfMaximum"], forms["MeanOfMaximum"], forms["LargestOfMaximum"]
    same = a == b == c3
    diff = ""
    if not same:
        for n1, n2 in (("SmallestOfMaximum", "MeanOfMaximum"), ("MeanOfMaximum", "LargestOfMaximum")):
            if forms[n1] != forms[n2]:
                diff = f"{n1}: {show_canon(forms[n1])[:160]} vs {n2}: {show_canon(forms[n2])[:160]}"
                break
    check.require(same, "S2", "SmallestOfMaximum~MeanOfMaximum~LargestOfMaximum", "the three maxima defuzzifiers are the same computation up to the reducer "
                  f"({holes})" if same else f"the maxima defuzzifiers differ beyond the reducer: {diff}", loc(infos["MeanOfMaximum"][0]),
                  exhaustive=True, cases=3)


def canon_eq(a, b):
    from ..npcanon import _compare

    return _compare("==", a, b)


def centroid(check: Check, info) -> None:
    """S5: the canonical form of what Centroid returns is sum(x * y, axis 1) / sum(y, axis 1) (rational normal forms over the two reductions)."""
    from ..npcanon import canon, show_canon

    fn, r, cfg, ret, x, y = info
    axis1 = (("axis", AXIS1),)
    want = canon(("binop", "/", ("call", ("global", "numpy.sum"), (("binop", "*", x, y),), axis1), ("call", ("global", "numpy.sum"), (y,), axis1)))
    got = canon(ret)
    ok = got == want
    check.require(ok, "S5", "Centroid.defuzzify/formula", "centroid = sum(x*y) / sum(y) per set (canonical forms equal)" if ok else f"centroid is {show_canon(got)[:200]}", loc(fn))


def bisector(check: Check, info) -> None:
    """S5: the canonical form of what Bisector returns, matched level by level:
    nanmean over axis 1 of where(D == min(D, axis 1), x, nan) with D = |c / c[:, -1] - 1/2| (or its square, or a constant multiple), c = (nan)cumsum(y, axis 1)."""
    from ..algebra import Rat
    from ..npcanon import _rat_of, canon, show_canon

    fn, r, cfg, ret, x, y = info
    got, cx, cy = canon(ret), canon(x), canon(y)
    why = ""
    top = got
    if not (top[0] == "reduce" and top[1] == "nanmean" and top[3] == AXIS1):
        why = f"the result is `{show_canon(top)[:80]}`, not the mean (ignoring the points that are not selected) along the sampling axis"
    else:
        w = top[2]
        if not (w[0] == "where" and w[2] == cx and w[3] == NAN):
            why = f"the mean is taken over `{show_canon(w)[:80]}`, not over where(closest, x, nan)"
        else:
            m = w[1]
            d = None
            if m[0] == "cmp" and m[1] == "==":
                for a, b in ((m[2], m[3]), (m[3], m[2])):
                    if b[0] == "reduce" and b[1] in ("min", "nanmin") and b[2] == a and b[3] == AXIS1:
                        d = a
            if d is None:
                why = f"the selected points are those where `{show_canon(m)[:100]}`, not those whose distance equals the smallest distance of the row"
            else:
                cums = [("reduce", n_, cy, AXIS1, ()) for n_ in ("nancumsum", "cumsum")]
                wants = [_rat_of(cu) / _rat_of(("lastcol", cu)) - Rat.const("1/2") for cu in cums]
                consts = [Rat.const(k) for k in ("1", "-1", "2", "-2", "1/2", "-1/2")]
                if d[0] == "call" and d[1] == ("global", "numpy.abs") and len(d[2]) == 1:
                    e = _rat_of(d[2][0])
                    ok = any(e.equals(w_ * k) for w_ in wants for k in consts)
                elif d[0] == "rat":
                    ok = any(d[2].equals((w_ * k).pow(2)) for w_ in wants for k in consts)
                else:
                    ok = False
                if not ok:
                    why = (f"the quantity minimised is `{show_canon(d)[:120]}`, not the distance |c / c[:, -1] - 1/2| of the normalised cumulative membership "
                           "c = cumsum(y, axis=1) from one half")
    check.require(not why, "S5", "Bisector.defuzzify/formula",
                  "bisector = mean of the sample points whose normalised cumulative membership is closest to one half (canonical form matched level by level)"
                  if not why else why, loc(fn))


def _index_vector(t: Term, res: Term) -> str | None:
    """'ok' when t is the integer index vector 0..resolution-1 (any spelling through range / integer arange), a reason otherwise,
    None when t is not an index generator at all."""
    if t[0] == "call" and t[1][0] == "global" and t[1][1] in ("numpy.array", "numpy.asarray", "numpy.fromiter", "list", "tuple", "fuzzylite.library.array",
                                                             "fuzzylite.library.scalar") and t[2]:
        return _index_vector(t[2][0], res)
    if t[0] == "call" and t[1] in (("global", "range"), ("global", "numpy.arange")):
        a = [x for x in t[2]]
        if len(a) == 1 and a[0] == res:
            return "ok"
        if len(a) == 2 and a[0] == ("const", 0) and a[1] == res:
            return "ok"
        if len(a) == 3 and a[0] == ("const", 0) and a[1] == res and a[2] == ("const", 1):
            return "ok"
        return f"`{show(t)}` does not enumerate the integers 0..resolution-1 (a floating-point range can yield one point more or less)"
    if t[0] == "call" and t[1][0] == "global" and t[1][1] in ("numpy.linspace",):
        return f"`{show(t)}` samples the end points, not the cell indices"
    return None


def midpoints(check: Check) -> None:
    """S5: Op.midpoints(start, end, resolution) is start + (i + 1/2) * (end - start) / resolution for the integer indices i = 0..resolution-1,
    compared as a rational-function normal form (so re-association, commuted operands and temporaries are immaterial)."""
    from ..algebra import Rat

    p = check.program
    fn = p.func("Operation.midpoints")
    check.analysed(fn)
    r = Resolver(p, fn)
    rets = [r.term(n.ast.value, n) for n in r.cfg.stmt_nodes() if isinstance(n.ast, ast.Return) and n.ast.value is not None]
    s_, e_, res = [("param", q.name) for q in fn.params[:3]]
    problems: list[str] = []

    def nf(t: Term) -> Rat:
        iv = _index_vector(t, res)
        if iv is not None:
            if iv != "ok":
                problems.append(iv)
            return Rat.sym("i")
        if t in (s_, e_, res):
            return Rat.sym(t[1])
        if t[0] == "const" and isinstance(t[1], (int, float)) and not isinstance(t[1], bool):
            from fractions import Fraction

            return Rat.const(Fraction(t[1]).limit_denominator(10 ** 6))
        if t[0] == "binop" and t[1] in ("+", "-", "*", "/"):
            a, b = nf(t[2]), nf(t[3])
            return a + b if t[1] == "+" else (a - b if t[1] == "-" else (a * b if t[1] == "*" else a / b))
        if t[0] == "unop" and t[1] == "-":
            return -nf(t[2])
        if t[0] == "call" and t[1][0] == "global" and t[1][1] in ("fuzzylite.library.scalar", "fuzzylite.library.array", "numpy.asarray", "numpy.array", "float") and len(t[2]) == 1:
            return nf(t[2][0])
        raise AnalysisError(f"Operation.midpoints: `{show(t)[:80]}` is outside the normal-form model")

    want = Rat.sym(s_[1]) + (Rat.sym("i") + Rat.const("1/2")) * (Rat.sym(e_[1]) - Rat.sym(s_[1])) / Rat.sym(res[1])
    ok = bool(rets)
    shown = ""
    for t in rets:
        got = nf(t)
        if not got.equals(want):
            ok = False
            shown = show(t)
    if problems:
        ok = False
    check.require(ok, "S5", "Operation.midpoints/formula", "midpoints are start + (i + 0.5) * (end - start) / resolution for i = 0..resolution-1 (normal forms equal)" if ok else
                  (problems[0] if problems else f"midpoints are {shown}, which is not start + (i + 0.5) * (end - start) / resolution"), loc(fn))
    dflt = fn.params[2].default
    check.require(dflt is not None, "S5", "Operation.midpoints/signature", "midpoints(start, end, resolution)", loc(fn))
