"""C05 - Hedges compute their formulas and keep degrees in [0,1] (decided over real arithmetic, piece by piece)."""

from __future__ import annotations

from fractions import Fraction

from ..absint import return_term
from ..pm import AnalysisError
from ..report import Check
from ..sym import Term
from . import c02
from .c04 import compare_exact, sign_of_difference, substitute
from .common import loc

EXPLANATION = (
    "static analysis of the 6 registered hedges over real arithmetic: for every order type of x against 0, 0.5 and 1 (and of a "
    "second degree x2 for monotonicity) the resolved hedge() term is brought to a normal form (sa/ordertype.py, sa/algebra.py: "
    "polynomials with sqrt as a function symbol, sqrt(A)^2 = A, sqrt of a factored square = |.|) and compared with: F the "
    "documented formula; X the fixed points 0 and 1 (not swaps them, any maps everything to 1); R the range [0,1], M monotonicity "
    "(not is antitone) and O very(x) <= x <= somewhat(x), through the sign of factored differences (a*sqrt(A)+b via a^2*A-b^2, "
    "interval arithmetic as a fallback); I the inverse pairs very/somewhat and extremely/seldom and the involution not(not(x)) = x, "
    "by composing the resolved terms. Violations are definite disagreements only; proven / undecided counts are reported. "
    "Elementwise safety is C02/V1; operators only after scalar() coercion, no re-interpreting views (V8); kernels are pure (K1)"
    "; every kernel returns the broadcast shape of its operand and never reduces over, indexes away or concatenates along its dimensions (V9 on the shape lattice)"
    "; H10 / H8 - no kernel writes into what it is handed or returns cached storage; scalar() yields plain arrays (V8)"
)
ASSUMPTIONS = ["real arithmetic (rounding not modelled); degrees in [0,1]; the transcription of the documented formulas in HEDGES is faithful"]
LEVEL_SCOPE = ("Decides the listed clauses for every order type (piece) over real arithmetic, reporting only definite disagreements; floating-point "
               "rounding and the clauses listed as undecided are not decided.")
FLOORS = {"V9": 24, "V10": 2, "K1": 6, "F": 6, "X": 6, "R": 6, "M": 6, "O": 2, "I": 5, "V1": 6, "V8": 6}

HEDGES: dict[str, dict] = {
    "Any": {"cases": [(None, "1")], "fix": {0: 1, 1: 1}, "direction": 0},
    "Extremely": {"cases": [("x <= 0.5", "2 * x ** 2"), (None, "1 - 2 * (1 - x) ** 2")], "fix": {0: 0, 1: 1}, "direction": 1},
    "Not": {"cases": [(None, "1 - x")], "fix": {0: 1, 1: 0}, "direction": -1},
    "Seldom": {"cases": [("x <= 0.5", "sqrt(x / 2)"), (None, "1 - sqrt((1 - x) / 2)")], "fix": {0: 0, 1: 1}, "direction": 1},
    "Somewhat": {"cases": [(None, "sqrt(x)")], "fix": {0: 0, 1: 1}, "direction": 1},
    "Very": {"cases": [(None, "x ** 2")], "fix": {0: 0, 1: 1}, "direction": 1},
}
INVERSES = [("Very", "Somewhat"), ("Somewhat", "Very"), ("Extremely", "Seldom"), ("Seldom", "Extremely"), ("Not", "Not")]
# witnesses: the eighths, and points closer to 0, 1/2 and 1 than the library's comparison tolerance (so that a tolerance comparison in a kernel
# - np.isclose / Op.is_close, modelled as |a - b| <= atol - has an order type of its own on each side of the exact comparison)
GRID = [Fraction(0), Fraction(1, 4096), Fraction(1, 8), Fraction(1, 4), Fraction(3, 8), Fraction(2047, 4096), Fraction(1, 2), Fraction(2049, 4096), Fraction(5, 8), Fraction(3, 4),
        Fraction(7, 8), Fraction(4095, 4096), Fraction(1)]
PINS = {("const", 0): Fraction(0), ("const", 0.5): Fraction(1, 2), ("const", 1): Fraction(1)}


def pieces(check: Check, operands: list[Term], terms: list[Term]):  # type: ignore[no-untyped-def]
    from ..ordertype import LinearForms, OrderEval, comparison_forms, leaf_env, make_algebra, order_types

    atoms = {k: "pinned" for k in PINS}
    grids: dict = {k: [v] for k, v in PINS.items()}
    for o in operands:
        atoms[o] = "position"
        grids[o] = GRID
    lf0 = LinearForms({a: 0 for a in atoms}, atoms, {})
    forms = comparison_forms(lf0, terms)
    out = []
    for lf in order_types(atoms, forms, None, grids):
        ev = OrderEval(check.program, lf, leaf_env(lf))
        alg = make_algebra(lf)
        ev.alg = alg
        out.append((lf, ev, alg))
    short = {("const", 0): "0", ("const", 0.5): "0.5", ("const", 1): "1", **{o: o[1] for o in operands}}
    return out, short


def run(check: Check) -> None:
    from .common import numpy_pitfalls

    if not numpy_pitfalls(check, "V10", {"fuzzylite/hedge.py"}):
        return  # the kernels are not the elementwise expressions the interpreters assume
    from .c02 import shapes

    shapes(check, only_kernels_of=("Hedge",))  # V9: every kernel returns the broadcast shape of its operands and never mixes their rows / sample points
    from .c13 import no_inplace_on_handed_values
    from .common import memoisation_rule

    no_inplace_on_handed_values(check, [f"{c.name}.hedge" for c in check.program.subclasses("Hedge") if "hedge" in c.methods])  # H10
    memoisation_rule(check)  # H8
    from .common import scalar_is_base_array

    scalar_is_base_array(check)  # the coercion every kernel starts with yields plain arrays
    from ..ordertype import describe, flatten, spec_term

    p = check.program
    X, X2 = ("param", "x"), ("param", "x2")
    code: dict[str, Term] = {}
    fns = {}
    for name in HEDGES:
        c = p.cls(name)
        fn = c.methods.get("hedge")
        if fn is None:
            raise AnalysisError(f"anchor vanished: {name}.hedge")
        check.analysed(fn)
        from .common import kernel_purity

        if not kernel_purity(check, fn, "K1", f"{name}.hedge/pure", set()):
            continue
        from .common import coerce_first

        if not coerce_first(check, fn, "V8", f"{name}.hedge/coerce-first"):
            continue  # the operands are not the values the interpreters assume
        fns[name] = fn
        code[name] = substitute(flatten(p, return_term(p, c, "hedge")), {("param", fn.params[1].name): X})
        c02.kernel_elementwise(check, fn, "V1", f"{name}.hedge")
    names = {"x": X}

    def tally(rule: str, construct: str, ok_text: str, fn, results, total: int) -> None:  # type: ignore[no-untyped-def]
        bad = [r for r in results if r[0] == "different"]
        und = [r for r in results if r[0] == "undecided"]
        good = total - len(bad) - len(und)
        check.require(not bad, rule, construct,
                      f"{ok_text} ({good} of {total} order types proven" + (f", {len(und)} undecided" if und else "") + ")" if not bad else
                      f"at `{bad[0][1]}`: {bad[0][2]}" + (f" (and {len(bad) - 1} more order types)" if len(bad) > 1 else ""), loc(fn),
                      {"order_types": total, "proven": good, "undecided": [(r[1], r[2]) for r in und[:4]], "different": [(r[1], r[2]) for r in bad[:4]]},
                      exhaustive=True, cases=total)

    ZERO_T, ONE_T = ("const", 0), ("const", 1)
    for name, spec in HEDGES.items():
        if name not in fns:
            continue
        fn, t = fns[name], code[name]
        cases = [(spec_term(cnd, names) if cnd else None, spec_term(val, names)) for cnd, val in spec["cases"]]
        one, short = pieces(check, [X], [t] + [x for cs in cases for x in cs if x is not None])
        n = len(one)
        if n == 0:
            raise AnalysisError(f"{name}: no order type enumerated")
        f_res, x_res, r_res = [], [], []
        for lf, ev, alg in one:
            where = describe(lf, short)
            v, d = compare_exact(t, None, lf, ev, alg, None, cases)
            f_res.append((v, where, f"hedge(x) is {d.split(' vs ')[0]}, documented {d.split(' vs ')[-1]}" if v == "different" else d))
            xv = lf.val[X]
            if xv in (0, 1):
                v, d = compare_exact(t, ("const", spec["fix"][int(xv)]), lf, ev, alg)
                x_res.append((v, where, f"hedge({int(xv)}) is {d.split(' vs ')[0]}, not {spec['fix'][int(xv)]}" if v == "different" else d))
            lo, hi = sign_of_difference(t, ZERO_T, lf, ev, alg), sign_of_difference(t, ONE_T, lf, ev, alg)
            if lo == "neg" or hi == "pos":
                r_res.append(("different", where, "the result is negative" if lo == "neg" else "the result exceeds 1"))
            else:
                r_res.append(("undecided" if lo is None or hi is None else "equal", where, "sign not determined"))
        tally("F", f"{name}.hedge/formula", f"{name}: hedge(x) equals the documented formula", fn, f_res, n)
        tally("X", f"{name}.hedge/fixed-points", f"{name}: 0 -> {spec['fix'][0]}, 1 -> {spec['fix'][1]}", fn, x_res, len(x_res))
        tally("R", f"{name}.hedge/range", f"{name}: degrees stay in [0,1]", fn, r_res, n)
        t2 = substitute(t, {X: X2})
        two, short2 = pieces(check, [X, X2], [t, t2])
        m_res = []
        for lf, ev, alg in two:
            if lf.val[X] > lf.val[X2]:
                continue
            s_ = sign_of_difference(t2, t, lf, ev, alg)
            where = describe(lf, short2)
            d_ = spec["direction"]
            wrong = (d_ == 1 and s_ == "neg") or (d_ == -1 and s_ == "pos") or (d_ == 0 and s_ in ("neg", "pos"))
            m_res.append(("different", where, f"hedge(x2) - hedge(x) is {s_} although x <= x2") if wrong else
                         (("undecided", where, "sign of hedge(x2) - hedge(x) not determined") if s_ is None else ("equal", where, "")))
        tally("M", f"{name}.hedge/monotone", f"{name}: " + {1: "monotone", -1: "antitone", 0: "constant"}[spec["direction"]], fn, m_res, len(m_res))
    # O: very(x) <= x <= somewhat(x)
    for name, rel in (("Very", "neg"), ("Somewhat", "pos")):
        if name not in fns:
            continue
        one, short = pieces(check, [X], [code[name]])
        res = []
        for lf, ev, alg in one:
            s_ = sign_of_difference(code[name], X, lf, ev, alg)
            where = describe(lf, short)
            wrong = s_ == ("pos" if rel == "neg" else "neg")
            res.append(("different", where, f"{name.lower()}(x) - x is {s_}") if wrong else (("undecided", where, "sign not determined") if s_ is None else ("equal", where, "")))
        tally("O", f"{name}.hedge/order", f"{name.lower()}(x) {'<=' if rel == 'neg' else '>='} x", fns[name], res, len(res))
    # I: inverse pairs
    for outer, inner in INVERSES:
        if outer not in fns or inner not in fns:
            continue
        comp = substitute(code[outer], {X: code[inner]})
        one, short = pieces(check, [X], [comp, code[inner]])
        res = []
        for lf, ev, alg in one:
            v, d = compare_exact(comp, X, lf, ev, alg)
            res.append((v, describe(lf, short), f"{outer.lower()}({inner.lower()}(x)) is {d.split(' vs ')[0]}, not x" if v == "different" else d))
        tally("I", f"{outer}~{inner}/inverse", f"{outer.lower()}({inner.lower()}(x)) == x", fns[outer], res, len(res))
    check.exhaustive_parts.append("order types of the degree against 0, 0.5 and 1")
