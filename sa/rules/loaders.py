"""LD: `Antecedent.load` and `Consequent.load` are the grammar automata of the statement (shared by C06, C07, C16).

Both loaders are interpreted abstractly (sa/absexec.py) one token class at a time on an engine with two variables A and B that
have one term each (`tA`, `tB`): the token classes are {variable A, variable B, `is`, a hedge, the hedge `any`, term of A, term of
B, `and`, `or`, anything else}. The loaders' own locals are the configuration; between tokens the operand stack is replaced by
fresh leaves and the proposition under construction by a fresh one for the same variable, so that the configuration space is
finite while everything the next token can depend on is kept - including state that *should not* be there (an index that grows from
one proposition to the next). The product with the reference automaton below is explored from the initial configuration; compared
are the observable effects of each token (accept / SyntaxError / internal error, the proposition created and for which variable,
the hedges appended in reading order, the term attached - which must be a term of the proposition's own variable -, the operator
built with the top of the stack as its right and the next element as its left operand) and, for every configuration, what happens
when the text ends there.

antecedent (postfix stream):  V -var X-> IS(X) -is-> HT(X) -hedge-> HT(X) | -any-> VA | -term of X-> VA ;
                              VA -var X-> IS(X) | -and/or [depth >= 2]-> VA ;   start V ; accept V/VA with depth 1 ; else SyntaxError
consequent (infix stream):    V -output var X-> IS(X) -is-> HT(X) -hedge/any-> HT(X) | -term of X-> AW ; AW -and-> V ; start V ; accept AW
"""

from __future__ import annotations

import ast
from typing import Any

from ..absexec import AbsExec, Closure, Internal, MObj, Opaque, Raised, Tok, Unknown, _Return, split_token_loop
from ..pm import AnalysisError
from ..report import Check

DYNAMIC = {"Proposition", "Operator", "Leaf"}


class World:
    def __init__(self, kind: str):
        self.kind = kind
        self.terms = {x: MObj("Term", {"__id__": f"t{x}", "name": Tok("term", tag=x)}) for x in "AB"}
        self.vars = {x: MObj("OutputVariable" if kind == "consequent" else "InputVariable",
                             {"__id__": f"v{x}", "name": Tok("var", tag=x), "terms": [self.terms[x]], "__len__": 1, "enabled": True,
                              "__bases__": ("Variable",)}) for x in "AB"}
        self.hedges = {"very": MObj("Very", {"__id__": "hVery", "name": Tok("hedge", tag="very"), "__bases__": ("Hedge",)}),
                       "any": MObj("Any", {"__id__": "hAny", "name": Tok("any"), "__bases__": ("Hedge",)})}
        # the summary of the hedges a proposition already has when the next token is read: a new hedge goes after it
        self.prev_hedge = MObj("Very", {"__id__": "hEarlier", "name": Tok("hedge", tag="very"), "__bases__": ("Hedge",)})
        vs = [self.vars["A"], self.vars["B"]]
        # the engine also has a rule block (with a rule: it is not empty) whose name is a token class of its own: a name that is not a variable's
        self.block = MObj("RuleBlock", {"__id__": "block", "name": Tok("block"), "rules": [MObj("Rule", {"__id__": "r0"})], "__len__": 1, "enabled": True})
        self.engine = MObj("Engine", {"__id__": "engine", "variables": vs, "input_variables": vs if kind == "antecedent" else [],
                                      "output_variables": vs if kind == "consequent" else [], "rule_blocks": [self.block], "name": Opaque("name")})
        self.hedge_factory = MObj("HedgeFactory", {"__id__": "hf"})
        self.settings = MObj("Settings", {"__id__": "settings", "debugging": False, "factory_manager": MObj("FactoryManager", {"__id__": "fm", "hedge": self.hedge_factory})})
        self.tokens = [self.vars["A"].fields["name"], self.vars["B"].fields["name"], Tok("is"), Tok("hedge", tag="very"), Tok("any"),
                       self.terms["A"].fields["name"], self.terms["B"].fields["name"], Tok("and"), Tok("or"), Tok("operand", tag="other"), Tok("block")]


def describe(tok: Tok) -> str:
    return {"var": f"variable {tok.tag}", "term": f"term t{tok.tag}", "hedge": "hedge", "any": "any", "operand": "<other>", "block": "<name of a rule block>"}.get(tok.kind, tok.kind)


def key_of(v: Any, memo: dict | None = None) -> Any:
    if isinstance(v, MObj):
        if "__id__" in v.fields:
            return ("w", v.fields["__id__"])
        return ("d", v.cls, tuple(sorted((k, key_of(x)) for k, x in v.fields.items())))
    if isinstance(v, list):
        return ("L",) + tuple(key_of(x) for x in v)
    if isinstance(v, dict):
        return ("D",) + tuple(sorted((repr(key_of(k)), key_of(x)) for k, x in v.items()))
    if isinstance(v, (set, frozenset)):
        return ("S",) + tuple(sorted(repr(key_of(x)) for x in v))
    if isinstance(v, tuple):
        return tuple(key_of(x) for x in v)
    if isinstance(v, (Opaque,)) or callable(v):
        return "~"
    if isinstance(v, Closure):
        return ("closure", id(v.node))  # a local function is the same function in every configuration
    return v


def snapshot(v: Any, memo: dict) -> Any:
    if isinstance(v, MObj):
        if "__id__" in v.fields:
            return v
        if id(v) in memo:
            return memo[id(v)]
        new = MObj(v.cls, {})
        memo[id(v)] = new
        new.fields = {k: snapshot(x, memo) for k, x in v.fields.items()}
        return new
    if isinstance(v, list):
        if id(v) in memo:
            return memo[id(v)]
        new_l: list = []
        memo[id(v)] = new_l
        new_l.extend(snapshot(x, memo) for x in v)
        return new_l
    if isinstance(v, dict):
        return {k: snapshot(x, memo) for k, x in v.items()}
    if isinstance(v, set):
        return set(v)
    return v


def rebind_closures(env: dict) -> dict:
    """Local functions of the loader (a `transition(state, token)` helper) close over the loader's variables: in a copy of the environment they must
    close over the copy."""
    for k, v in list(env.items()):
        if isinstance(v, Closure):
            env[k] = Closure(v.node, env)
    return env


def loader(check: Check, qual: str, rule: str = "LD") -> None:
    kind = "antecedent" if qual.startswith("Antecedent") else "consequent"
    p = check.program
    fn = p.func(qual)
    check.analysed(fn)
    node = fn.analysis_node
    w = World(kind)
    created: list[MObj] = []

    def new_prop(ex_, e, args, kw):
        order = ["variable", "hedges", "term"]
        f = {"variable": None, "hedges": [], "term": None}
        for k, v in zip(order, args):
            f[k] = v
        f.update(kw)
        f["hedges"] = list(f["hedges"] or [])
        o = MObj("Proposition", f)
        created.append(o)
        return o

    def new_op(ex_, e, args, kw):
        order = ["name", "right", "left"]
        f = {"name": "", "right": None, "left": None}
        for k, v in zip(order, args):
            f[k] = v
        f.update(kw)
        o = MObj("Operator", f)
        created.append(o)
        return o

    def contains(ex_, e, c, x):
        if c is w.hedge_factory:
            return isinstance(x, Tok) and x.kind in ("hedge", "any")
        raise Unknown(f"{qual}: membership in {c.cls} is outside the model")

    def construct(ex_, e, recv, args, kw):
        t = args[0]
        if recv is w.hedge_factory and isinstance(t, Tok) and t.kind in ("hedge", "any"):
            return w.hedges["any" if t.kind == "any" else "very"]
        raise Internal("ValueError", "constructing a hedge that is not registered", e)

    printed = lambda ex_, e, recv, args, kw: Opaque("the loaded expression, printed")  # noqa: E731

    def by_name(colls: tuple):  # the engine's lookups by name: Engine.__getitem__ finds variables *and* rule blocks, the others their own kind
        def f(ex_, e, recv, args, kw=None):
            name_ = args[0] if isinstance(args, list) else args
            if recv is not w.engine:
                raise Unknown(f"{qual}: lookup by name on something that is not the engine")
            for coll in colls:
                for c_ in w.engine.fields.get(coll, []):
                    if c_.fields.get("name") == name_:
                        return c_
            raise Raised("ValueError", e)
        return f

    def engine_subscript(ex_, e, base, idx):
        if base is w.engine:
            return by_name(("input_variables", "output_variables", "rule_blocks"))(ex_, e, base, [idx])
        raise Unknown(f"{qual}: subscript of {getattr(base, 'cls', type(base).__name__)} is outside the model")
    hooks = {"contains": contains, "method:construct": construct, "method:debug": lambda *a: None, "method:info": lambda *a: None,
             "method:infix": printed, "method:postfix": printed, "method:prefix": printed, "subscript": engine_subscript,
             "method:input_variable": by_name(("input_variables",)), "method:output_variable": by_name(("output_variables",)),
             "method:variable": by_name(("input_variables", "output_variables")), "method:rule_block": by_name(("rule_blocks",))}
    helpers = {k: v for k, v in fn.cls.methods.items() if k in ("unload",) or (k.startswith("_") and not k.startswith("__"))}
    ex = AbsExec(qual, hooks, helpers=helpers)
    params = [a.arg for a in node.args.args]
    selfobj = MObj(fn.cls.name, {"text": Opaque("nonempty text"), "expression": None, "conclusions": []})
    rule_ns = MObj("class", {"__id__": "Rule", "IS": "is", "AND": "and", "OR": "or", "IF": "if", "THEN": "then", "WITH": "with"})
    env0: dict[str, Any] = {params[0]: selfobj, params[1]: w.engine, "Proposition": new_prop, "Operator": new_op, "Rule": rule_ns, "settings": w.settings,
                            "Any": ("class", "Any"), "Hedge": ("class", "Hedge"), "Variable": ("class", "Variable"), "InputVariable": ("class", "InputVariable"),
                            "OutputVariable": ("class", "OutputVariable")}
    fixed_names = set(env0)
    body = [st for st in node.body if not (isinstance(st, ast.ImportFrom) and any(a.name in ("Rule", "Proposition", "Operator", "Any", "settings") for a in st.names))]
    bad: dict[str, tuple[str, Any]] = {}
    try:
        sp = split_token_loop(ex, body, env0)
        state_names = sorted(k for k in env0 if k not in fixed_names and k != sp.token_var and k != sp.index_var)
        out_lists = [k for k in state_names if isinstance(env0[k], list) and kind == "consequent"]  # the conclusions being collected

        def canonical(env: dict[str, Any]) -> None:
            """Between tokens: operand stack -> fresh leaves, proposition under construction -> fresh proposition of the same variable,
            collected conclusions -> emptied (they are an output, compared step by step)."""
            for k in state_names:
                v = env.get(k)
                if isinstance(v, list) and all(isinstance(x, MObj) and x.cls in DYNAMIC for x in v):
                    if k in out_lists:
                        env[k] = []
                    else:
                        env[k] = [MObj("Leaf", {"n": i}) for i in range(len(v))]
                elif isinstance(v, MObj) and v.cls == "Proposition":
                    env[k] = MObj("Proposition", {"variable": v.fields.get("variable"), "hedges": [w.prev_hedge] if v.fields.get("hedges") else [], "term": None})
                elif isinstance(v, MObj) and v.cls in ("Operator", "Leaf"):
                    env[k] = None

        def config_key(env: dict[str, Any]) -> Any:
            return tuple((k, key_of(env.get(k))) for k in state_names)

        def stacks(env: dict[str, Any]) -> list[list]:
            return [env[k] for k in state_names if isinstance(env.get(k), list) and k not in out_lists]

        # ---------------- reference automaton
        def ref_step(st: tuple, tok: Tok):
            phase, cur, depth = st
            k = tok.kind
            if kind == "antecedent":
                if phase in ("V", "VA") and k == "var":
                    return ("IS", tok.tag, depth + 1), {"prop": tok.tag}
                if phase == "IS" and k == "is":
                    return ("HT", cur, depth), {}
                if phase == "HT" and k == "hedge":
                    return ("HT", cur, depth), {"hedges": ["hVery"]}
                if phase == "HT" and k == "any":
                    return ("VA", cur, depth), {"hedges": ["hAny"]}
                if phase == "HT" and k == "term" and tok.tag == cur:
                    return ("VA", cur, depth), {"term": f"t{cur}"}
                if phase == "VA" and k in ("and", "or") and depth >= 2:
                    return ("VA", cur, depth - 1), {"op": k}
                return "SyntaxError", {}
            if phase == "V" and k == "var":
                return ("IS", tok.tag, depth), {"prop": tok.tag}
            if phase == "IS" and k == "is":
                return ("HT", cur, depth), {}
            if phase == "HT" and k in ("hedge", "any"):
                return ("HT", cur, depth), {"hedges": ["hAny" if k == "any" else "hVery"]}
            if phase == "HT" and k == "term" and tok.tag == cur:
                return ("AW", cur, depth), {"term": f"t{cur}"}
            if phase == "AW" and k == "and":
                return ("V", cur, depth), {}
            return "SyntaxError", {}

        def ref_accept(st: tuple) -> bool:
            phase, cur, depth = st
            return (phase in ("V", "VA") and depth == 1) if kind == "antecedent" else phase == "AW"

        def note(k: str, text: str, node_: Any = None) -> None:
            bad.setdefault(k, (text, node_))

        # ---------------- exploration
        start_env = dict(env0)
        canonical(start_env)
        init = (config_key(start_env), ("V", None, 0))
        envs = {init[0]: start_env}
        seen = {init}
        work = [(init, ())]
        n_steps = 0
        depth_cap = 3
        while work:
            (ck, rst), trace = work.pop(0)
            base_env = envs[ck]
            where = "after " + (" ".join(describe(t) for t in trace) if trace else "no token")
            # end of input here
            env = rebind_closures(snapshot(dict(base_env), {}))
            so = MObj(selfobj.cls, dict(snapshot(selfobj.fields, {})))
            env[params[0]] = so
            marker = MObj("Leaf", {"n": "collected-so-far"})
            for k in out_lists:
                env[k] = [marker]
            ex.steps = 0
            try:
                ex.block(sp.post, env)
                got_end: Any = ("return",)
            except _Return:
                got_end = ("return",)
            except Raised as r_:
                got_end = ("raise", r_.cls, r_.node)
            except Internal as i_:
                got_end = ("internal", i_.cls, i_.node, i_.why)
            acc = ref_accept(rst)
            if got_end[0] == "internal":
                note("end-internal", f"{where}: the end of the text fails with an internal {got_end[1]} ({got_end[3]})", got_end[2])
            elif acc and got_end[0] != "return":
                note("end-rejects", f"{where}: a complete {kind} is rejected with {got_end[1]}", got_end[2])
            elif not acc and not (got_end[0] == "raise" and got_end[1] == "SyntaxError"):
                note("end-accepts", f"{where}: the text ends in grammar state {rst[0]}" + (f" with {rst[2]} expressions on the stack" if kind == "antecedent" else "")
                     + (" but is accepted" if got_end[0] == "return" else f" and is rejected with {got_end[1]} instead of SyntaxError"), got_end[2] if len(got_end) > 2 else None)
            elif acc:
                if so.fields.get("text") != selfobj.fields["text"]:
                    # loading reads the text; a text rewritten from the loaded tree is another text (the printed forms carry no parentheses),
                    # and it is what the next load - a reload, a restart, a copy - will read
                    note("end-result", f"{where}: loading rewrites the {kind}'s own text", None)
                if kind == "antecedent":
                    e_ = so.fields.get("expression")
                    if not (isinstance(e_, MObj) and e_.cls == "Leaf" and e_.fields.get("n") == 0):
                        note("end-result", f"{where}: the loaded expression is not the single tree left on the stack", None)
                else:
                    c_ = so.fields.get("conclusions")
                    if not (isinstance(c_, list) and len(c_) == 1 and c_[0] is marker):
                        note("end-result", f"{where}: the conclusions of the consequent are not the propositions collected while reading", None)
            if kind == "antecedent" and rst[2] >= depth_cap:
                continue
            for tok in w.tokens:
                n_steps += 1
                env = rebind_closures(snapshot(dict(base_env), {}))
                env[params[0]] = MObj(selfobj.cls, dict(snapshot(selfobj.fields, {})))
                before_stacks = [list(s_) for s_ in stacks(env)]
                props_before = {k: env.get(k) for k in state_names if isinstance(env.get(k), MObj) and env[k].cls == "Proposition"}
                hedges_before = {id(pr): [key_of(h)[1] for h in pr.fields.get("hedges", []) if isinstance(h, MObj)] for pr in props_before.values()}
                del created[:]
                sp.bind(env, tok)
                ex.steps = 0
                try:
                    ex.block(sp.loop.body, env)
                    got: Any = ("next",)
                except Raised as r_:
                    got = ("raise", r_.cls, r_.node)
                except Internal as i_:
                    got = ("internal", i_.cls, i_.node, i_.why)
                except _Return:
                    got = ("return",)
                except Exception as ex_:
                    if type(ex_).__name__ == "_Continue":
                        got = ("next",)
                    elif type(ex_).__name__ == "_Break":
                        got = ("break",)
                    else:
                        raise
                want, obs = ref_step(rst, tok)
                what = f"{where}, token {describe(tok)} (grammar state {rst[0]}" + (f" of variable {rst[1]}" if rst[1] and rst[0] in ("IS", "HT") else "") + ")"
                if got[0] == "internal":
                    note("internal", f"{what}: internal {got[1]} ({got[3]})", got[2])
                    continue
                if got[0] in ("return", "break"):
                    note("early-exit", f"{what}: the token loop is left before the text is consumed", None)
                    continue
                if want == "SyntaxError":
                    if not (got[0] == "raise" and got[1] == "SyntaxError"):
                        note("accepts", f"{what}: must be rejected with SyntaxError, " + ("is accepted" if got[0] == "next" else f"raises {got[1]}"), got[2] if len(got) > 2 else None)
                    continue
                if got[0] == "raise":
                    note("rejects", f"{what}: a valid continuation is rejected with {got[1]}", got[2])
                    continue
                # observations
                new_props = [o for o in created if o.cls == "Proposition"]
                new_ops = [o for o in created if o.cls == "Operator"]
                cur_props = [env.get(k) for k in state_names if isinstance(env.get(k), MObj) and env[k].cls == "Proposition"]
                if "prop" in obs:
                    ok_ = len(new_props) == 1 and new_props[0].fields.get("variable") is w.vars[obs["prop"]]
                    if kind == "antecedent":
                        ok_ = ok_ and any(s_ and s_[-1] is new_props[0] and len(s_) == len(b_) + 1 for s_, b_ in zip(stacks(env), before_stacks))
                    else:
                        ok_ = ok_ and any(env.get(k) == [new_props[0]] for k in out_lists)
                    if not ok_:
                        note("proposition", f"{what}: a proposition for variable {obs['prop']} must be created and " +
                             ("pushed on the stack" if kind == "antecedent" else "added to the conclusions"), None)
                elif new_props:
                    note("proposition", f"{what}: creates a proposition where none is specified", None)
                target = new_props[0] if new_props else (cur_props[0] if cur_props else None)
                hedges_now = [key_of(h)[1] for pr in ([target] if target is not None else []) for h in pr.fields.get("hedges", []) if isinstance(h, MObj)]
                hedges_want = (hedges_before.get(id(target), []) if target is not None else []) + obs.get("hedges", [])
                if hedges_now != hedges_want:
                    note("hedges", f"{what}: the proposition's hedges become {hedges_now}, specified {hedges_want} (appended in reading order, after the earlier ones)", None)
                term_now = target.fields.get("term") if target is not None else None
                tk = key_of(term_now)[1] if isinstance(term_now, MObj) else None
                if tk != obs.get("term"):
                    note("term", f"{what}: the proposition's term becomes {tk}, specified {obs.get('term')}"
                         + (" (a term must belong to the proposition's own variable)" if tk is not None else ""), None)
                if "op" in obs:
                    okop = False
                    for s_, b_ in zip(stacks(env), before_stacks):
                        if len(b_) >= 2 and len(s_) == len(b_) - 1 and s_ and isinstance(s_[-1], MObj) and s_[-1].cls == "Operator":
                            o = s_[-1]
                            nm = o.fields.get("name")
                            okop = o.fields.get("right") is b_[-1] and o.fields.get("left") is b_[-2] and isinstance(nm, Tok) and nm.kind == obs["op"] and s_[:-1] == b_[:-2]
                    if not okop:
                        note("operator", f"{what}: must replace the two topmost expressions by an operator `{obs['op']}` whose right operand is the top of the stack "
                             "and whose left operand is the one below it", None)
                elif new_ops:
                    note("operator", f"{what}: builds an operator where none is specified", None)
                if kind == "antecedent" and "op" not in obs and "prop" not in obs:
                    if any(len(s_) != len(b_) or any(x is not y for x, y in zip(s_, b_)) for s_, b_ in zip(stacks(env), before_stacks)):
                        note("operator", f"{what}: changes the operand stack", None)
                canonical(env)
                ck2 = config_key(env)
                nxt = (ck2, want)
                if nxt not in seen:
                    if len(seen) > 3000:
                        raise AnalysisError(f"{qual}: the configuration space does not close (more than 3000 configurations)")
                    seen.add(nxt)
                    envs.setdefault(ck2, env)
                    work.append((nxt, trace + (tok,)))
    except Unknown as u:
        raise AnalysisError(str(u)) from None

    def verdict(construct: str, kinds: list[str], ok_text: str) -> None:
        hits = [bad[k] for k in kinds if k in bad]
        where = fn.loc(hits[0][1]) if hits and hits[0][1] is not None else fn.loc()
        check.require(not hits, rule, f"{qual}/{construct}", ok_text if not hits else hits[0][0], where,
                      {"configurations": len(seen), "steps": n_steps, "token_classes": len(w.tokens)}, exhaustive=True, cases=n_steps + len(seen))

    verdict("automaton", ["accepts", "rejects", "early-exit"],
            f"every token class is accepted or rejected with SyntaxError exactly as the grammar says ({len(seen)} configurations x {len(w.tokens)} token classes)")
    verdict("effects", ["proposition", "hedges", "term", "operator"],
            "propositions are created for the variable read, hedges appended in reading order, the term taken from the proposition's own variable"
            + (", operators built with the top of the stack as right and the next element as left operand" if kind == "antecedent" else ""))
    verdict("end-of-text", ["end-accepts", "end-rejects", "end-result"],
            "a text that ends in a non-accepting grammar state is rejected with SyntaxError; a complete one yields " +
            ("the single expression left on the stack" if kind == "antecedent" else "the propositions collected"))
    verdict("no-internal-error", ["internal", "end-internal"], "no configuration and token class leads to an internal error (AttributeError on a missing proposition, IndexError, ...)")
