"""C17 - Function formulas follow the documented precedence and associativity."""

from __future__ import annotations

import ast

from ..pm import AnalysisError, unparse
from ..report import Check
from ..sym import Resolver, Term, path_of, show, walk
from ..tables import Element, function_factory
from . import pushdown, shunting
from .common import cmp_normal, const_value, loc, strip

EXPLANATION = (
    "static analysis of the formula machinery: the FunctionFactory operator/function registry is extracted as a table "
    "and compared with the specification's ladder (as an order: tiers, associativity, arity) and with the C-math -> "
    "numpy name map; every registered method must be an elementwise numpy ufunc or an in-package indicator returning "
    "floats; the shunting-yard pop rule is decided exhaustively over all orderings of (associativity, 0, p, p_top); "
    "operand order in parse/evaluate; stack safety and the rejection checks of infix_to_postfix/parse (arity x depth "
    "enumeration); variable resolution and name-clash checks of Function.membership; infix_to_postfix and parse interpreted "
    "abstractly as pushdown transducers over the token classes of the extracted table and compared with the shunting-yard / "
    "tree-building reference on every configuration up to a depth bound (PD, PD2); a named constant (arity-0 function) is popped "
    "by every binary operator (T1 constant)"
)
ASSUMPTIONS = ["numpy ufuncs named in the map compute the mathematical function of that name elementwise"]
FLOORS = {"PD": 4, "PD2": 4, "T1": 14, "T12": 34, "V6": 34 + 13, "V7": 6, "W2": 1, "W3": 5}

# Appendix A.1: strictly decreasing binding strength
LADDER = [["!", "~"], ["^", "**", ".-", ".+"], ["*", "/", "%"], ["+", "-"], ["and"], ["or"]]
RIGHT_ASSOC = {"^", "**", ".-", ".+"}
LEFT_ASSOC = {"*", "/", "%", "+", "-", "and", "or"}
UNARY = {"!", "~", ".-", ".+"}

NUMPY = "numpy."
OPERATOR_METHODS = {
    "!": {"logical_not"}, "~": {"negative"}, "^": {"float_power", "power"}, "**": {"float_power", "power"},
    ".-": {"negative"}, ".+": {"positive"}, "*": {"multiply"}, "/": {"true_divide", "divide"}, "%": {"remainder", "mod"},
    "+": {"add"}, "-": {"subtract"}, "and": {"logical_and"}, "or": {"logical_or"},
}
FUNCTION_METHODS = {
    "min": ({"minimum", "fmin"}, 2), "max": ({"maximum", "fmax"}, 2),
    "acos": ({"arccos", "acos"}, 1), "asin": ({"arcsin", "asin"}, 1), "atan": ({"arctan", "atan"}, 1), "ceil": ({"ceil"}, 1),
    "cos": ({"cos"}, 1), "cosh": ({"cosh"}, 1), "exp": ({"exp"}, 1), "abs": ({"fabs", "absolute", "abs"}, 1),
    "fabs": ({"fabs", "absolute", "abs"}, 1), "floor": ({"floor"}, 1), "log": ({"log"}, 1), "log10": ({"log10"}, 1),
    "round": ({"round", "around", "rint", "round_"}, 1), "sin": ({"sin"}, 1), "sinh": ({"sinh"}, 1), "sqrt": ({"sqrt"}, 1),
    "tan": ({"tan"}, 1), "tanh": ({"tanh"}, 1), "log1p": ({"log1p"}, 1), "acosh": ({"arccosh", "acosh"}, 1),
    "asinh": ({"arcsinh", "asinh"}, 1), "atanh": ({"arctanh", "atanh"}, 1), "pow": ({"float_power", "power", "pow"}, 2),
    "atan2": ({"arctan2", "atan2"}, 2), "fmod": ({"fmod"}, 2),
}
INDICATORS = {"gt": ">", "ge": ">=", "eq": "==", "neq": "!=", "le": "<=", "lt": "<"}


def run(check: Check) -> None:
    p = check.program
    table = function_factory(p)
    fac = p.cls("FunctionFactory")
    for f in ("_create_operators", "_create_functions", "_precedence"):
        if fac.methods.get(f):
            check.analysed(fac.methods[f])
    by_name = {e.name: e for e in table}
    file = fac.file
    ladder_rules(check, table, by_name, file)
    constant_rules(check, table, file)
    method_rules(check, table, by_name, file)
    indicator_rules(check)
    shunting.w2_operand_order(check)
    pushdown.infix_to_postfix(check)
    pushdown.parse_postfix(check)
    w3_variables(check)
    check.exhaustive_parts += ["operator table vs specification ladder", "pop rule over all orderings", "arity x depth enumeration"]


def ladder_rules(check: Check, table: list[Element], by_name: dict[str, Element], file: str) -> None:
    ops = [e for e in table if e.kind == "Operator"]
    names = {e.name for e in ops}
    want = {n for tier in LADDER for n in tier}
    extra, missing = sorted(names - want), sorted(want - names)
    if missing:
        for m in missing:
            check.violation("T1", f"FunctionFactory/{m}", f"operator `{m}` of the specification is not registered", file)
    if len([e.name for e in table]) != len({e.name for e in table}):
        dup = sorted({e.name for e in table if [x.name for x in table].count(e.name) > 1})
        check.violation("T1", "FunctionFactory/duplicates", f"registered more than once (later entry wins): {dup}", file)
    tier_of = {n: i for i, tier in enumerate(LADDER) for n in tier}
    for e in ops:
        if e.name not in tier_of:
            check.violation("T1", f"FunctionFactory/{e.name}", f"operator `{e.name}` is not in the specification's table", f"{file}:{e.lineno}")
            continue
        problems = []
        for o in ops:
            if o.name not in tier_of or o is e:
                continue
            a, b = tier_of[e.name], tier_of[o.name]
            if a == b and e.precedence != o.precedence:
                problems.append(f"same tier as `{o.name}` but precedence {e.precedence} != {o.precedence}")
            if a < b and not e.precedence > o.precedence:
                problems.append(f"must bind tighter than `{o.name}` ({e.precedence} vs {o.precedence})")
            if a > b and not e.precedence < o.precedence:
                problems.append(f"must bind looser than `{o.name}` ({e.precedence} vs {o.precedence})")
        if e.name in RIGHT_ASSOC and not e.associativity > 0:
            problems.append("must be right-associative")
        if e.name in LEFT_ASSOC and not e.associativity < 0:
            problems.append("must be left-associative")
        want_arity = 1 if e.name in UNARY else 2
        if e.arity != want_arity:
            problems.append(f"arity {e.arity}, expected {want_arity}")
        check.require(not problems, "T1", f"FunctionFactory/{e.name}",
                      f"operator `{e.name}`: tier {tier_of[e.name]}, associativity {'right' if e.associativity > 0 else 'left'}, arity {e.arity}"
                      if not problems else f"operator `{e.name}`: " + "; ".join(problems[:3]), f"{file}:{e.lineno}",
                      {"precedence": e.precedence, "associativity": e.associativity, "arity": e.arity})


def constant_rules(check: Check, table: list[Element], file: str) -> None:
    """T1-const: a registered function of arity 0 (a named constant such as `pi`) is written without parentheses, so it waits on the
    operator stack like an operator and leaves it only through the precedence comparison of the next operator: to be an operand
    of that operator it must be popped by *every* operator, i.e. bind at least as tightly as every left-associative operator and
    strictly tighter than every right-associative one (`pi ^ 2` is pi squared)."""
    ops = [e for e in table if e.kind == "Operator" and e.arity == 2]  # only a binary operator can follow an operand
    for e in table:
        if e.kind != "Function" or e.arity != 0:
            continue
        bad = [o for o in ops if not ((o.associativity < 0 and o.precedence <= e.precedence) or (o.associativity > 0 and o.precedence < e.precedence))]
        check.require(not bad, "T1", f"FunctionFactory/{e.name}/constant",
                      f"constant `{e.name}` (precedence {e.precedence}) is popped to the output by every operator that follows it" if not bad else
                      f"constant `{e.name}` has precedence {e.precedence}: operator `{bad[0].name}` ({'right' if bad[0].associativity > 0 else 'left'}-associative, "
                      f"precedence {bad[0].precedence}) does not pop it, so `{e.name} {bad[0].name} x` is parsed with the constant *after* the operator "
                      "(it becomes the operand of whatever comes next, or the formula is rejected)", f"{file}:{e.lineno}",
                      {"precedence": e.precedence, "not_popped_by": [o.name for o in bad]})


def method_rules(check: Check, table: list[Element], by_name: dict[str, Element], file: str) -> None:
    p = check.program
    for e in table:
        where = f"{file}:{e.lineno}"
        m = e.method
        if e.kind == "Operator":
            accepted = OPERATOR_METHODS.get(e.name)
            if accepted is None:
                continue
            is_ufunc = m.startswith(NUMPY) and m[len(NUMPY):] in accepted
            check.require(is_ufunc, "V6", f"FunctionFactory/{e.name}",
                          f"`{e.name}` is computed by the elementwise numpy ufunc {m}" if is_ufunc else
                          f"`{e.name}` is bound to `{m}`, expected numpy.{'|'.join(sorted(accepted))}", where)
            continue
        # functions
        if e.name in INDICATORS:
            ok = m == f"fuzzylite.operation.Operation.{e.name}"
            check.require(ok, "T12", f"FunctionFactory/{e.name}", f"`{e.name}` is bound to Op.{e.name}" if ok else
                          f"`{e.name}` is bound to `{m}`", where)
            check.require(e.arity == 2, "V6", f"FunctionFactory/{e.name}", f"`{e.name}` takes two operands (registered arity {e.arity})", where)
            continue
        if e.name == "pi":
            ok = m == "lambda: numpy.pi" and e.arity == 0
            check.require(ok, "T12", "FunctionFactory/pi", "`pi` is the constant numpy.pi" if ok else f"`pi` is bound to `{m}` with arity {e.arity}", where)
            check.ok("V6", "FunctionFactory/pi", "constant, no operands", where)
            continue
        if e.name not in FUNCTION_METHODS:
            check.violation("T12", f"FunctionFactory/{e.name}", f"function `{e.name}` is not among the 34 registered names of the specification", where)
            continue
        accepted, arity = FUNCTION_METHODS[e.name]
        name_ok = m.startswith(NUMPY) and m[len(NUMPY):] in accepted
        elementwise = m.startswith(NUMPY)
        check.require(elementwise, "V6", f"FunctionFactory/{e.name}",
                      f"`{e.name}` is an elementwise numpy ufunc ({m})" if elementwise else
                      f"`{e.name}` is bound to the Python builtin/function `{m}`, which is not elementwise on arrays "
                      "(ValueError: truth value of an array is ambiguous)", where)
        if elementwise:
            check.require(name_ok and e.arity == arity, "T12", f"FunctionFactory/{e.name}",
                          f"`{e.name}` -> {m}, arity {e.arity}" if name_ok and e.arity == arity else
                          f"`{e.name}` is bound to {m} with arity {e.arity}; expected numpy.{'|'.join(sorted(accepted))} with arity {arity}", where)
        else:
            check.require(e.arity == arity, "T12", f"FunctionFactory/{e.name}", f"`{e.name}` arity {e.arity} (expected {arity})", where)
    missing = sorted((set(FUNCTION_METHODS) | set(INDICATORS) | {"pi"}) - {e.name for e in table if e.kind == "Function"})
    for m in missing:
        check.violation("T12", f"FunctionFactory/{m}", f"function `{m}` of the specification is not registered", file)


def indicator_rules(check: Check) -> None:
    """V7: the six relational functions are float-valued indicators computing the right comparison of (a, b)."""
    p = check.program
    for name, sym in INDICATORS.items():
        fn = p.func(f"Operation.{name}")
        check.analysed(fn)
        r = Resolver(p, fn)
        params = [x.name for x in fn.params]
        rets = [(n, r.term(n.ast.value, n)) for n in r.cfg.stmt_nodes() if isinstance(n.ast, ast.Return) and n.ast.value is not None]
        if len(rets) != 1:
            raise AnalysisError(f"Operation.{name}: expected a single return")
        n, t = rets[0]
        kind = result_kind(t)
        check.require(kind == "float", "V7", f"Operation.{name}/float",
                      f"Op.{name} returns a float-coerced 0/1 indicator" if kind == "float" else
                      f"Op.{name} returns a boolean ({show(t)}): arithmetic on it saturates (True + True == True)", loc(fn, n))
        # the comparison computed
        inner = strip(t)
        a, b = ("param", params[0]), ("param", params[1])
        isclose = lambda z: z[0] == "call" and z[1] == ("global", "numpy.isclose") and z[2][:2] == (a, b)  # noqa: E731
        cmps = [s for s in walk(inner) if s[0] == "cmp"]
        ok = False
        if name in ("gt", "lt"):
            ok = len(cmps) == 1 and cmps[0][1] == (sym,) and cmps[0][2] == (a, b) and inner == cmps[0]
        elif name in ("ge", "le"):
            ok = len(cmps) == 1 and cmps[0][1] == (sym,) and cmps[0][2] == (a, b) and \
                (inner == cmps[0] or (inner[0] == "binop" and inner[1] == "|" and {inner[2] == cmps[0], inner[3] == cmps[0]} == {True, False}
                                      and (isclose(strip(inner[2])) or isclose(strip(inner[3])))))
        elif name == "eq":
            ok = isclose(inner) or (len(cmps) == 1 and cmps[0][1] == ("==",) and cmps[0][2] == (a, b) and inner == cmps[0])
        elif name == "neq":
            ok = (inner[0] == "unop" and inner[1] == "~" and isclose(strip(inner[2]))) or \
                (len(cmps) == 1 and cmps[0][1] == ("!=",) and cmps[0][2] == (a, b) and inner == cmps[0]) or \
                (inner[0] == "call" and inner[1] == ("global", "numpy.logical_not") and isclose(strip(inner[2][0])))
        check.require(ok, "V7", f"Operation.{name}/relation", f"Op.{name}(a, b) computes a {sym} b" if ok else
                      f"Op.{name}(a, b) computes {show(inner)}", loc(fn, n))


def result_kind(t: Term) -> str:
    """{bool, float} lattice of a returned expression."""
    from .common import ARRAY_WRAPPERS

    if t[0] == "call" and t[1][0] == "global" and t[1][1] in ("fuzzylite.library.scalar", "float", "numpy.float64", "numpy.asarray", "numpy.array"):
        if t[1][1] in ("numpy.asarray", "numpy.array"):
            kw = dict(t[3])
            return "float" if "dtype" in kw else result_kind(t[2][0])
        return "float"
    if t[0] == "call" and t[1][0] == "attr" and t[1][2] == "astype":
        return "float"
    if t[0] == "cmp":
        return "bool"
    if t[0] == "unop" and t[1] in ("~", "not"):
        return result_kind(t[2])
    if t[0] == "binop" and t[1] in ("|", "&", "^"):
        return "bool" if "bool" in (result_kind(t[2]), result_kind(t[3])) else "float"
    if t[0] == "binop" and t[1] in ("*", "+", "-", "/"):
        ks = (result_kind(t[2]), result_kind(t[3]))
        return "float" if "float" in ks or t[1] == "/" else "bool"
    if t[0] == "call" and t[1][0] == "global" and t[1][1] in ("numpy.isclose", "numpy.logical_not", "numpy.logical_and", "numpy.logical_or",
                                                               "numpy.greater", "numpy.less", "numpy.equal", "numpy.not_equal",
                                                               "numpy.greater_equal", "numpy.less_equal", "numpy.isnan"):
        return "bool"
    if t[0] == "call" and t[1] == ("global", "numpy.where") and len(t[2]) == 3:
        ks = (result_kind(t[2][1]), result_kind(t[2][2]))
        return "bool" if ks == ("bool", "bool") else "float"
    if t[0] == "const":
        return "bool" if isinstance(t[1], bool) else "float"
    return "float"


def w3_variables(check: Check) -> None:
    p = check.program
    fn = p.func("Function.membership")
    check.analysed(fn)
    r = Resolver(p, fn)
    cfg = r.cfg
    x = fn.params[1].name
    evals = [(n, c) for n, c in cfg.find_calls(".evaluate") if r.term(c.func.value, n) == ("param", "self")]  # type: ignore[union-attr]
    if len(evals) != 1 or not evals[0][1].args or not isinstance(evals[0][1].args[0], ast.Name):
        raise AnalysisError("Function.membership: the evaluate(<variables>) call is not recognised")
    en, ec = evals[0]
    dname = ec.args[0].id
    guards = [(r.term(g, gn), pol, gn) for g, pol, gn in cfg.must_guards(en)]

    def has_guard(pred) -> bool:
        return any((not pol) and pred(t) for t, pol, _ in guards)

    own_x = has_guard(lambda t: t[0] == "cmp" and t[1] == ("in",) and t[2][0] == ("const", "x") and path_of(t[2][1]) == "self.variables")
    check.require(own_x, "W3", "Function.membership/own-x", "a function variable named x is rejected before evaluation", loc(fn, en))
    # the engine-variable clash test sits on every path from the collection of engine values to the evaluation
    eng_tests = [n for n in cfg.stmt_nodes() if n.kind == "test" and (lambda t: t[0] == "cmp" and t[1] == ("in",) and t[2][0] == ("const", "x")
                 and path_of(t[2][1]) != "self.variables")(r.term(n.ast, n)) and
                 any(isinstance(s.ast, ast.Raise) for s, l in n.succ if l == "true")]
    collect = [n for n in cfg.stmt_nodes() for t in cfg.stores_at(n) if isinstance(t, ast.Subscript) and isinstance(t.value, ast.Name)
               and t.value.id == dname and r.term(t.slice, n)[0] == "attr"]

    def engine_dictcomp(n) -> bool:
        """`{v.name: v.value for v in self.engine.variables}` assigned to the environment."""
        a_ = n.ast
        if not (isinstance(a_, (ast.Assign, ast.AnnAssign)) and a_.value is not None):
            return False
        tg = a_.targets if isinstance(a_, ast.Assign) else [a_.target]
        if not any(isinstance(t_, ast.Name) and t_.id == dname for t_ in tg):
            return False
        for x in ast.walk(a_.value):
            if isinstance(x, ast.DictComp) and len(x.generators) == 1 and not x.generators[0].ifs and isinstance(x.generators[0].target, ast.Name):
                v = x.generators[0].target.id
                if isinstance(x.key, ast.Attribute) and x.key.attr == "name" and unparse(x.key.value) == v and isinstance(x.value, ast.Attribute) and \
                        x.value.attr == "value" and unparse(x.value.value) == v and path_of(r.term(x.generators[0].iter, n)) == "self.engine.variables":
                    return True
        return False

    comp_sites = [n for n in cfg.stmt_nodes() if engine_dictcomp(n)]
    collect += comp_sites
    eng_x = bool(eng_tests) and bool(collect) and all(en not in cfg.reach([s for s, _ in c_.succ], blocked=set(eng_tests)) for c_ in collect)
    check.require(eng_x, "W3", "Function.membership/engine-x", "an engine variable named x is rejected before evaluation", loc(fn, en))
    over = has_guard(lambda t: any(s[0] == "binop" and s[1] == "&" for s in walk(t)) or (t[0] == "binop" and t[1] == "&"))
    check.require(over, "W3", "Function.membership/overrides", "a clash between function variables and engine variables is rejected before evaluation", loc(fn, en))
    # contents of the environment
    stores = [(n, t) for n in cfg.stmt_nodes() for t in cfg.stores_at(n) if isinstance(t, ast.Subscript) and isinstance(t.value, ast.Name) and t.value.id == dname]
    eng = any(r.term(t.slice, n)[0] == "attr" and r.term(t.slice, n)[2] == "name" and r.term(n.ast.value, n)[0] == "attr" and  # type: ignore[union-attr]
              r.term(n.ast.value, n)[2] == "value" and r.term(t.slice, n)[1] == r.term(n.ast.value, n)[1] and  # type: ignore[union-attr]
              cfg.must_precede([n], en) or cfg.enclosing_loops(n) for n, t in stores if r.term(t.slice, n)[0] == "attr")
    xs = any(r.term(t.slice, n) == ("const", "x") and r.term(n.ast.value, n) == ("param", x) and cfg.must_precede([n], en) for n, t in stores)  # type: ignore[union-attr]
    upd = any(isinstance(c.func, ast.Attribute) and c.func.attr == "update" and isinstance(c.func.value, ast.Name) and c.func.value.id == dname
              and c.args and path_of(r.term(c.args[0], n)) == "self.variables" and cfg.must_precede([n], en) for n, c in cfg.all_calls())
    eng = bool(eng) or bool(comp_sites)
    check.require(bool(eng) and xs and upd, "W3", "Function.membership/environment",
                  "formulas see every engine variable's current value, x, and the term's own variables" if eng and xs and upd else
                  f"environment: engine variables={bool(eng)}, x={xs}, own variables={upd}", loc(fn, en))
    t = r.term(ec, en)
    rets = [(n, r.term(n.ast.value, n)) for n in cfg.stmt_nodes() if isinstance(n.ast, ast.Return) and n.ast.value is not None]
    check.require(bool(rets) and all(rt == t for _, rt in rets), "W3", "Function.membership/result",
                  "the membership value is the value of the formula in that environment", loc(fn, en))
