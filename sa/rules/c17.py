"""C17 - Function formulas follow the documented precedence and associativity."""

from __future__ import annotations

from typing import Any

import ast

from ..pm import AnalysisError, unparse
from ..report import Check
from ..sym import Resolver, Term, path_of, show, walk
from ..tables import Element, function_factory
from . import pushdown, shunting
from .common import cmp_normal, const_value, loc, strip

EXPLANATION = (
    "static analysis of the formula machinery: the FunctionFactory operator/function registry is extracted as a table "
    "and compared with the specification's ladder (as an order: tiers, associativity, arity) and with the C-math -> "
    "numpy name map; every registered method must be an elementwise numpy ufunc or an in-package indicator returning "
    "floats; the shunting-yard pop rule is decided exhaustively over all orderings of (associativity, 0, p, p_top); "
    "operand order in parse/evaluate; variable resolution of Function.membership decided by interpreting the construction of the "
    "variable dictionary on 12 (engine variables, own variables) configurations (W3); infix_to_postfix and parse interpreted "
    "abstractly as pushdown transducers over the token classes of the extracted table and compared with the shunting-yard / "
    "tree-building reference on every configuration up to a depth bound (PD, PD2); a named constant (arity-0 function) is popped "
    "by every binary operator (T1 constant)"
    "; the formula and its postfix form are tokenised at any whitespace (X8)"
    "; X1-sem - format_infix interpreted on a corpus of operand spellings (names ending in e / E, numbers) x every operator symbol: each operator becomes a token of its own; W3 includes disabled engine variables"
)
ASSUMPTIONS = ["numpy ufuncs named in the map compute the mathematical function of that name elementwise"]
FLOORS = {"W5": 3, "X8": 2, "PD": 4, "PD2": 4, "T1": 14, "T12": 34, "V6": 34 + 13, "V7": 6, "W2": 1, "W3": 5}

# Appendix A.1: strictly decreasing binding strength
LADDER = [["!", "~"], ["^", "**", ".-", ".+"], ["*", "/", "%"], ["+", "-"], ["and"], ["or"]]
RIGHT_ASSOC = {"^", "**", ".-", ".+"}
LEFT_ASSOC = {"*", "/", "%", "+", "-", "and", "or"}
UNARY = {"!", "~", ".-", ".+"}

NUMPY = "numpy."
OPERATOR_METHODS = {
    "!": {"logical_not"}, "~": {"negative"}, "^": {"float_power", "power"}, "**": {"float_power", "power"},
    ".-": {"negative"}, ".+": {"positive"}, "*": {"multiply"}, "/": {"true_divide", "divide"}, "%": {"remainder", "mod"},
    "+": {"add"}, "-": {"subtract"}, "and": {"logical_and"}, "or": {"logical_or"},
}
FUNCTION_METHODS = {
    "min": ({"minimum", "fmin"}, 2), "max": ({"maximum", "fmax"}, 2),
    "acos": ({"arccos", "acos"}, 1), "asin": ({"arcsin", "asin"}, 1), "atan": ({"arctan", "atan"}, 1), "ceil": ({"ceil"}, 1),
    "cos": ({"cos"}, 1), "cosh": ({"cosh"}, 1), "exp": ({"exp"}, 1), "abs": ({"fabs", "absolute", "abs"}, 1),
    "fabs": ({"fabs", "absolute", "abs"}, 1), "floor": ({"floor"}, 1), "log": ({"log"}, 1), "log10": ({"log10"}, 1),
    "round": ({"round", "around", "rint", "round_"}, 1), "sin": ({"sin"}, 1), "sinh": ({"sinh"}, 1), "sqrt": ({"sqrt"}, 1),
    "tan": ({"tan"}, 1), "tanh": ({"tanh"}, 1), "log1p": ({"log1p"}, 1), "acosh": ({"arccosh", "acosh"}, 1),
    "asinh": ({"arcsinh", "asinh"}, 1), "atanh": ({"arctanh", "atanh"}, 1), "pow": ({"float_power", "power", "pow"}, 2),
    "atan2": ({"arctan2", "atan2"}, 2), "fmod": ({"fmod"}, 2),
}
INDICATORS = {"gt": ">", "ge": ">=", "eq": "==", "neq": "!=", "le": "<=", "lt": "<"}


def run(check: Check) -> None:
    p = check.program
    table = function_factory(p)
    fac = p.cls("FunctionFactory")
    for f in ("_create_operators", "_create_functions", "_precedence"):
        if fac.methods.get(f):
            check.analysed(fac.methods[f])
    by_name = {e.name: e for e in table}
    file = fac.file
    ladder_rules(check, table, by_name, file)
    constant_rules(check, table, file)
    method_rules(check, table, by_name, file)
    indicator_rules(check)
    shunting.w2_operand_order(check)
    pushdown.infix_to_postfix(check)
    pushdown.parse_postfix(check)
    from .c16 import tokenisers

    # the transducers above read whitespace-separated tokens: the formula and its postfix form are split at any whitespace (X8)
    tokenisers(check, only=("Function.infix_to_postfix", "Function.parse"))
    w3_variables(check)
    from .c06 import x1_format_infix_semantics

    x1_format_infix_semantics(check)  # the formula's operators become tokens of their own whatever the operands are called
    from .pyroundtrip_sem import constructor_fidelity

    constructor_fidelity(check, bases=("Term",), only=("Function",))  # a function's own variables are its own: arguments stored as given, no container shared between terms
    configure_reloads(check)
    check.exhaustive_parts += ["operator table vs specification ladder", "pop rule over all orderings", "arity x depth enumeration"]


FV = None  # set below: the symbol standing for what Function.evaluate returns


def _init_fv() -> None:
    global FV, Sym, App, SymModule
    from ..absexec import App as App_, Sym as Sym_, SymModule as SymModule_

    Sym, App, SymModule = Sym_, App_, SymModule_
    FV = Sym_("v")


_init_fv()


def is_formula_value(v: Any) -> bool | None:
    """True: `v` is the formula's value (possibly times 1, plus 0, coerced); False: something else was computed from it; None: cannot tell."""
    from ..absexec import Opaque

    if v == FV:
        return True
    if isinstance(v, Opaque):
        return None
    if isinstance(v, App):
        if v.fn == "binop:Mult" and len(v.args) == 2 and any(isinstance(a, (int, float)) and not isinstance(a, bool) and a == 1 for a in v.args):
            return is_formula_value(next(a for a in v.args if not (isinstance(a, (int, float)) and a == 1)))
        if v.fn in ("binop:Add", "binop:Sub") and len(v.args) == 2 and isinstance(v.args[1], (int, float)) and v.args[1] == 0:
            return is_formula_value(v.args[0])
        if v.fn in ("np.asarray", "np.array", "np.atleast_1d", "np.squeeze", "np.asanyarray", ".squeeze", ".astype", "np.float64") and v.args:
            return is_formula_value(v.args[0])
        return False
    return False


def show_value(v: Any) -> str:
    if isinstance(v, App):
        if v.fn.startswith("binop:") and len(v.args) == 2:
            return f"({show_value(v.args[0])} {v.fn[6:]} {show_value(v.args[1])})"
        return f"{v.fn}({', '.join(show_value(a) for a in v.args)})"
    if isinstance(v, Sym):
        return v.name
    return repr(v)


def configure_reloads(check: Check, rule: str = "W5") -> None:
    """W5: the ways a formula gets into a Function term - the constructor with `load=True`, `create`, `configure` - leave the term evaluating *that*
    formula. Interpreted (sa/objexec.py) on terms that are not loaded yet and on terms that already hold the tree of another formula; `Function.load`
    itself (the parser: rules PD / PD2) is replaced by a marker that records which formula the tree was built from."""
    from ..absexec import Internal, MObj, Raised, Unknown
    from .roundtrip_sem import E0, new_exec

    p = check.program
    fc = p.cls("Function")
    cfg_fn, create_fn = fc.lookup("configure"), fc.lookup("create")
    if cfg_fn is None:
        raise AnalysisError("anchor vanished: Function.configure")
    check.analysed(cfg_fn)
    bad: dict[str, str] = {}
    n = 0
    try:
        ex = new_exec(p)

        def load(ex_, e, args, kw):  # type: ignore[no-untyped-def]
            me = args[0]
            me.fields["root"] = MObj("<tree>", {"of": me.fields.get("formula")})

        ex.func_hooks["Function.load"] = load

        def tree_of(f: MObj) -> object:
            r = f.fields.get("root")
            return r.fields.get("of") if isinstance(r, MObj) else None

        for was_loaded in (False, True):
            n += 1
            f = ex.instantiate(fc, [], {"name": "f", "formula": "a + 1", "load": was_loaded}, E0)
            if was_loaded and tree_of(f) != "a + 1":
                bad.setdefault("constructor", f"Function('f', 'a + 1', load=True) holds the tree of {tree_of(f)!r}")
            ex.invoke(cfg_fn, [f, "b * 2"], {}, E0)
            if f.fields.get("formula") != "b * 2" or tree_of(f) != "b * 2":
                bad.setdefault("configure", f"configure('b * 2') on a function that was {'already loaded with' if was_loaded else 'not yet loaded from'} 'a + 1': the formula is "
                                            f"{f.fields.get('formula')!r} but the tree it evaluates is that of {tree_of(f)!r}")
        if create_fn is not None:
            check.analysed(create_fn)
            n += 1
            from ..objexec import ClassV

            g = ex.invoke(create_fn, [ClassV(fc.qualname)] if create_fn.node.args.args and create_fn.node.args.args[0].arg == "cls" else [], {"name": "g", "formula": "c - 1"}, E0)
            if not isinstance(g, MObj) or g.fields.get("formula") != "c - 1" or tree_of(g) != "c - 1":
                bad.setdefault("create", f"Function.create('g', 'c - 1') gives a term with formula {g.fields.get('formula') if isinstance(g, MObj) else g!r} and the tree of "
                                         f"{tree_of(g) if isinstance(g, MObj) else None!r}")
    except (Unknown, Internal, Raised) as err:
        check.notes.append(f"{rule}: Function.configure / create are outside the interpreter's model ({getattr(err, 'why', err)}): undecided")
        check.ok(rule, "Function.configure/undecided", "outside the interpreter's model; decided by the round-trip rules of C14 only", loc(cfg_fn))
        return
    for aspect, good in (("configure", "configure(formula) leaves the term evaluating that formula, whether or not it held a tree before"),
                         ("create", "create(name, formula) gives a loaded term of that formula"), ("constructor", "Function(..., load=True) is loaded with its formula")):
        check.require(aspect not in bad, rule, f"Function.{aspect if aspect != 'constructor' else '__init__'}/loads-its-formula", good if aspect not in bad else bad[aspect],
                      loc(cfg_fn), {}, exhaustive=True, cases=n)


def ladder_rules(check: Check, table: list[Element], by_name: dict[str, Element], file: str) -> None:
    ops = [e for e in table if e.kind == "Operator"]
    names = {e.name for e in ops}
    want = {n for tier in LADDER for n in tier}
    extra, missing = sorted(names - want), sorted(want - names)
    if missing:
        for m in missing:
            check.violation("T1", f"FunctionFactory/{m}", f"operator `{m}` of the specification is not registered", file)
    if len([e.name for e in table]) != len({e.name for e in table}):
        dup = sorted({e.name for e in table if [x.name for x in table].count(e.name) > 1})
        check.violation("T1", "FunctionFactory/duplicates", f"registered more than once (later entry wins): {dup}", file)
    tier_of = {n: i for i, tier in enumerate(LADDER) for n in tier}
    for e in ops:
        if e.name not in tier_of:
            check.violation("T1", f"FunctionFactory/{e.name}", f"operator `{e.name}` is not in the specification's table", f"{file}:{e.lineno}")
            continue
        problems = []
        for o in ops:
            if o.name not in tier_of or o is e:
                continue
            a, b = tier_of[e.name], tier_of[o.name]
            if a == b and e.precedence != o.precedence:
                problems.append(f"same tier as `{o.name}` but precedence {e.precedence} != {o.precedence}")
            if a < b and not e.precedence > o.precedence:
                problems.append(f"must bind tighter than `{o.name}` ({e.precedence} vs {o.precedence})")
            if a > b and not e.precedence < o.precedence:
                problems.append(f"must bind looser than `{o.name}` ({e.precedence} vs {o.precedence})")
        if e.name in RIGHT_ASSOC and not e.associativity > 0:
            problems.append("must be right-associative")
        if e.name in LEFT_ASSOC and not e.associativity < 0:
            problems.append("must be left-associative")
        want_arity = 1 if e.name in UNARY else 2
        if e.arity != want_arity:
            problems.append(f"arity {e.arity}, expected {want_arity}")
        check.require(not problems, "T1", f"FunctionFactory/{e.name}",
                      f"operator `{e.name}`: tier {tier_of[e.name]}, associativity {'right' if e.associativity > 0 else 'left'}, arity {e.arity}"
                      if not problems else f"operator `{e.name}`: " + "; ".join(problems[:3]), f"{file}:{e.lineno}",
                      {"precedence": e.precedence, "associativity": e.associativity, "arity": e.arity})


def constant_rules(check: Check, table: list[Element], file: str) -> None:
    """T1-const: a registered function of arity 0 (a named constant such as `pi`) is written without parentheses, so it waits on the
    operator stack like an operator and leaves it only through the precedence comparison of the next operator: to be an operand
    of that operator it must be popped by *every* operator, i.e. bind at least as tightly as every left-associative operator and
    strictly tighter than every right-associative one (`pi ^ 2` is pi squared)."""
    ops = [e for e in table if e.kind == "Operator" and e.arity == 2]  # only a binary operator can follow an operand
    for e in table:
        if e.kind != "Function" or e.arity != 0:
            continue
        bad = [o for o in ops if not ((o.associativity < 0 and o.precedence <= e.precedence) or (o.associativity > 0 and o.precedence < e.precedence))]
        check.require(not bad, "T1", f"FunctionFactory/{e.name}/constant",
                      f"constant `{e.name}` (precedence {e.precedence}) is popped to the output by every operator that follows it" if not bad else
                      f"constant `{e.name}` has precedence {e.precedence}: operator `{bad[0].name}` ({'right' if bad[0].associativity > 0 else 'left'}-associative, "
                      f"precedence {bad[0].precedence}) does not pop it, so `{e.name} {bad[0].name} x` is parsed with the constant *after* the operator "
                      "(it becomes the operand of whatever comes next, or the formula is rejected)", f"{file}:{e.lineno}",
                      {"precedence": e.precedence, "not_popped_by": [o.name for o in bad]})


def method_rules(check: Check, table: list[Element], by_name: dict[str, Element], file: str) -> None:
    p = check.program
    for e in table:
        where = f"{file}:{e.lineno}"
        m = e.method
        if e.kind == "Operator":
            accepted = OPERATOR_METHODS.get(e.name)
            if accepted is None:
                continue
            is_ufunc = m.startswith(NUMPY) and m[len(NUMPY):] in accepted
            check.require(is_ufunc, "V6", f"FunctionFactory/{e.name}",
                          f"`{e.name}` is computed by the elementwise numpy ufunc {m}" if is_ufunc else
                          f"`{e.name}` is bound to `{m}`, expected numpy.{'|'.join(sorted(accepted))}", where)
            continue
        # functions
        if e.name in INDICATORS:
            ok = m == f"fuzzylite.operation.Operation.{e.name}"
            check.require(ok, "T12", f"FunctionFactory/{e.name}", f"`{e.name}` is bound to Op.{e.name}" if ok else
                          f"`{e.name}` is bound to `{m}`", where)
            check.require(e.arity == 2, "V6", f"FunctionFactory/{e.name}", f"`{e.name}` takes two operands (registered arity {e.arity})", where)
            continue
        if e.name == "pi":
            ok = m == "lambda: numpy.pi" and e.arity == 0
            check.require(ok, "T12", "FunctionFactory/pi", "`pi` is the constant numpy.pi" if ok else f"`pi` is bound to `{m}` with arity {e.arity}", where)
            check.ok("V6", "FunctionFactory/pi", "constant, no operands", where)
            continue
        if e.name not in FUNCTION_METHODS:
            check.violation("T12", f"FunctionFactory/{e.name}", f"function `{e.name}` is not among the 34 registered names of the specification", where)
            continue
        accepted, arity = FUNCTION_METHODS[e.name]
        name_ok = m.startswith(NUMPY) and m[len(NUMPY):] in accepted
        elementwise = m.startswith(NUMPY)
        check.require(elementwise, "V6", f"FunctionFactory/{e.name}",
                      f"`{e.name}` is an elementwise numpy ufunc ({m})" if elementwise else
                      f"`{e.name}` is bound to the Python builtin/function `{m}`, which is not elementwise on arrays "
                      "(ValueError: truth value of an array is ambiguous)", where)
        if elementwise:
            check.require(name_ok and e.arity == arity, "T12", f"FunctionFactory/{e.name}",
                          f"`{e.name}` -> {m}, arity {e.arity}" if name_ok and e.arity == arity else
                          f"`{e.name}` is bound to {m} with arity {e.arity}; expected numpy.{'|'.join(sorted(accepted))} with arity {arity}", where)
        else:
            check.require(e.arity == arity, "T12", f"FunctionFactory/{e.name}", f"`{e.name}` arity {e.arity} (expected {arity})", where)
    missing = sorted((set(FUNCTION_METHODS) | set(INDICATORS) | {"pi"}) - {e.name for e in table if e.kind == "Function"})
    for m in missing:
        check.violation("T12", f"FunctionFactory/{m}", f"function `{m}` of the specification is not registered", file)


def indicator_rules(check: Check) -> None:
    """V7: the six relational functions are float-valued indicators computing the right comparison of (a, b)."""
    p = check.program
    for name, sym in INDICATORS.items():
        fn = p.func(f"Operation.{name}")
        check.analysed(fn)
        r = Resolver(p, fn)
        params = [x.name for x in fn.params]
        rets = [(n, r.term(n.ast.value, n)) for n in r.cfg.stmt_nodes() if isinstance(n.ast, ast.Return) and n.ast.value is not None]
        if len(rets) != 1:
            raise AnalysisError(f"Operation.{name}: expected a single return")
        n, t = rets[0]
        kind = result_kind(t)
        check.require(kind == "float", "V7", f"Operation.{name}/float",
                      f"Op.{name} returns a float-coerced 0/1 indicator" if kind == "float" else
                      f"Op.{name} returns a boolean ({show(t)}): arithmetic on it saturates (True + True == True)", loc(fn, n))
        # the comparison computed
        inner = strip(t)
        a, b = ("param", params[0]), ("param", params[1])
        isclose = lambda z: z[0] == "call" and z[1] == ("global", "numpy.isclose") and z[2][:2] == (a, b)  # noqa: E731
        cmps = [s for s in walk(inner) if s[0] == "cmp"]
        ok = False
        if name in ("gt", "lt"):
            ok = len(cmps) == 1 and cmps[0][1] == (sym,) and cmps[0][2] == (a, b) and inner == cmps[0]
        elif name in ("ge", "le"):
            ok = len(cmps) == 1 and cmps[0][1] == (sym,) and cmps[0][2] == (a, b) and \
                (inner == cmps[0] or (inner[0] == "binop" and inner[1] == "|" and {inner[2] == cmps[0], inner[3] == cmps[0]} == {True, False}
                                      and (isclose(strip(inner[2])) or isclose(strip(inner[3])))))
        elif name == "eq":
            ok = isclose(inner) or (len(cmps) == 1 and cmps[0][1] == ("==",) and cmps[0][2] == (a, b) and inner == cmps[0])
        elif name == "neq":
            ok = (inner[0] == "unop" and inner[1] == "~" and isclose(strip(inner[2]))) or \
                (len(cmps) == 1 and cmps[0][1] == ("!=",) and cmps[0][2] == (a, b) and inner == cmps[0]) or \
                (inner[0] == "call" and inner[1] == ("global", "numpy.logical_not") and isclose(strip(inner[2][0])))
        check.require(ok, "V7", f"Operation.{name}/relation", f"Op.{name}(a, b) computes a {sym} b" if ok else
                      f"Op.{name}(a, b) computes {show(inner)}", loc(fn, n))


def result_kind(t: Term) -> str:
    """{bool, float} lattice of a returned expression."""
    from .common import ARRAY_WRAPPERS

    if t[0] == "call" and t[1][0] == "global" and t[1][1] in ("fuzzylite.library.scalar", "float", "numpy.float64", "numpy.asarray", "numpy.array"):
        if t[1][1] in ("numpy.asarray", "numpy.array"):
            kw = dict(t[3])
            return "float" if "dtype" in kw else result_kind(t[2][0])
        return "float"
    if t[0] == "call" and t[1][0] == "attr" and t[1][2] == "astype":
        return "float"
    if t[0] == "cmp":
        return "bool"
    if t[0] == "unop" and t[1] in ("~", "not"):
        return result_kind(t[2])
    if t[0] == "binop" and t[1] in ("|", "&", "^"):
        return "bool" if "bool" in (result_kind(t[2]), result_kind(t[3])) else "float"
    if t[0] == "binop" and t[1] in ("*", "+", "-", "/"):
        ks = (result_kind(t[2]), result_kind(t[3]))
        return "float" if "float" in ks or t[1] == "/" else "bool"
    if t[0] == "call" and t[1][0] == "global" and t[1][1] in ("numpy.isclose", "numpy.logical_not", "numpy.logical_and", "numpy.logical_or",
                                                               "numpy.greater", "numpy.less", "numpy.equal", "numpy.not_equal",
                                                               "numpy.greater_equal", "numpy.less_equal", "numpy.isnan"):
        return "bool"
    if t[0] == "call" and t[1] == ("global", "numpy.where") and len(t[2]) == 3:
        ks = (result_kind(t[2][1]), result_kind(t[2][2]))
        return "bool" if ks == ("bool", "bool") else "float"
    if t[0] == "const":
        return "bool" if isinstance(t[1], bool) else "float"
    return "float"


def w3_variables(check: Check) -> None:
    """W3 [E]: `Function.membership(x)` interpreted abstractly (sa/absexec.py) for a term with no engine / an engine with variables
    {a, b} / an engine that has a variable named x, and own variables {} / {k} / {x} / {a}: the formula is evaluated in the
    environment {engine variable -> its current value} + {x -> the argument} + {own variables}, whose value is returned; a function
    variable named x, an engine variable named x and a name shared by function and engine variables are rejected with ValueError
    before anything is evaluated."""
    from ..absexec import AbsExec, Internal, MObj, Opaque, Raised, Unknown, _Return

    p = check.program
    fn = p.func("Function.membership")
    check.analysed(fn)
    node = fn.analysis_node
    xname = fn.params[1].name
    bad: dict[str, str] = {}
    cases = 0
    try:
        for eng_names, disabled in ((None, ()), (("a", "b"), ()), (("a", "x"), ()), (("a", "b"), ("a",)), (("a", "b"), ("b",))):
            for own in ({}, {"k": "own-k"}, {"x": "own-x"}, {"a": "own-a"}):
                cases += 1
                seen: dict[str, Any] = {}
                engine = None
                if eng_names is not None:
                    # a disabled variable still has a current value, and formulas see it like any other
                    vs = [MObj("InputVariable", {"name": n_, "value": f"value-of-{n_}", "enabled": n_ not in disabled, "lock_range": False, "__len__": 1}) for n_ in eng_names]
                    engine = MObj("Engine", {"variables": vs, "input_variables": vs[:1], "output_variables": vs[1:], "__bool__": True})

                def evaluate(ex_, e, recv, args, kw, seen=seen):
                    env_ = args[0] if args else kw.get("variables")
                    seen["env"] = dict(env_) if isinstance(env_, dict) else env_
                    seen["calls"] = seen.get("calls", 0) + 1
                    return FV

                selfobj = MObj("Function", {"variables": dict(own), "engine": engine, "root": Opaque("root"), "name": Opaque("name"), "formula": Opaque("formula")})
                hooks = {"method:evaluate": evaluate, "method:variable": lambda ex_, e, recv, args, kw: Opaque("variable")}
                ex = AbsExec(fn.qualname, hooks, helpers={k: v for k, v in fn.cls.methods.items() if k.startswith("_") and not k.startswith("__")})
                ex.globals = {**getattr(ex, "globals", {}), "np": SymModule("np", (("nan", float("nan")), ("inf", float("inf")))), "nan": float("nan"), "inf": float("inf"),
                              "scalar": lambda ex_, e, args, kw: args[0], "array": lambda ex_, e, args, kw: args[0]}
                env = {"self": selfobj, xname: Sym("x")}
                try:
                    ex.block(list(node.body), env)
                    got: Any = ("return", None)
                except _Return as r_:
                    got = ("return", r_.value)
                except Raised as r_:
                    got = ("raise", r_.cls)
                except Internal as i_:
                    got = ("internal", f"{i_.cls}: {i_.why}")
                what = f"engine variables {list(eng_names) if eng_names else 'none (no engine)'}{(' (' + ', '.join(disabled) + ' disabled)') if disabled else ''}, own variables {sorted(own)}"
                clash = "x" in own or (eng_names is not None and "x" in eng_names) or (eng_names is not None and set(own) & set(eng_names))
                if got[0] == "internal":
                    bad.setdefault("internal", f"{what}: internal error {got[1]}")
                elif clash:
                    kind = "own-x" if "x" in own else ("engine-x" if eng_names and "x" in eng_names else "overrides")
                    if got != ("raise", "ValueError") or seen.get("calls"):
                        bad.setdefault(kind, f"{what}: must be rejected with ValueError before the formula is evaluated, " +
                                       (f"but {'the formula is evaluated and ' if seen.get('calls') else ''}{'raises ' + got[1] if got[0] == 'raise' else 'a value is returned'}"))
                else:
                    want_env = {**({n_: f"value-of-{n_}" for n_ in eng_names} if eng_names else {}), "x": Sym("x"), **own}
                    if got[0] != "return" or seen.get("calls") != 1:
                        bad.setdefault("result", f"{what}: the formula must be evaluated once and its value returned ({got})")
                    else:
                        if seen.get("env") != want_env:
                            bad.setdefault("environment", f"{what}: the formula sees {seen.get('env')}, specified {want_env}")
                        verdict_ = is_formula_value(got[1])
                        if verdict_ is None:
                            check.notes.append(f"W3: what membership() makes of the formula's value is outside the interpreter's model ({got[1]!r:.80}): the result clause is undecided")
                        elif not verdict_:
                            bad.setdefault("result", f"{what}: returns `{show_value(got[1])}`, which is not the value of the formula (v): the membership of a Function term is its formula "
                                                     "evaluated on the variables, whatever x is")
    except Unknown as u:
        raise AnalysisError(str(u)) from None
    for construct, kinds, text in (
            ("own-x", ["own-x"], "a function variable named x is rejected before evaluation"),
            ("engine-x", ["engine-x"], "an engine variable named x is rejected before evaluation"),
            ("overrides", ["overrides"], "a clash between function variables and engine variables is rejected before evaluation"),
            ("environment", ["environment", "internal"], "formulas see every engine variable's current value, x, and the term's own variables"),
            ("result", ["result"], "the membership value is the value of the formula in that environment")):
        hits = [bad[k] for k in kinds if k in bad]
        check.require(not hits, "W3", f"Function.membership/{construct}", text if not hits else hits[0], loc(fn), {"cases": cases}, exhaustive=True, cases=cases)
