"""M-sem: `Consequent.modify` interpreted on model consequents (C07).

The method is interpreted by sa/absexec.py with a symbolic activation degree `d` and hedges whose `hedge(v)` is an uninterpreted
function of `v`; `Activated(term, degree, implication)` is built by interpreting the real `Activated.__init__` and the real `degree`
setter with numpy uninterpreted, so the degree an activated term ends up with is a symbolic term such as
`np.nan_to_num(very(not(d)), nan=0.0, neginf=0.0, posinf=1.0)`.

Specified (property statement): for each conclusion whose variable is enabled, exactly one activated term is appended to that variable's
fuzzy output, carrying the concluded term, the implication handed in, and the degree `S[H(d)]` where `H` is the composition of that
conclusion's own hedges (the one next to the term first) and `S` is what `Activated` stores when handed a value (found by constructing
an `Activated` on a fresh symbol) - nothing for a disabled variable, nothing else anywhere.

Model consequents: conclusions over two output variables A and B (each enabled or not) with 0-2 hedges each, one or two conclusions,
both orders, also twice the same variable.
"""

from __future__ import annotations

import itertools
from typing import Any

from ..absexec import AbsExec, App, Closure, Decisions, Internal, MObj, Opaque, Raised, Sym, SymModule, Unknown, _Return, freeze
from ..pm import AnalysisError
from ..report import Check
from .common import loc

NP = SymModule("np", (("nan", float("nan")), ("inf", float("inf"))))


def _activated_factory(p: Any, ex_props: dict) -> Any:
    act = p.cls("Activated")
    init = act.methods.get("__init__")
    if init is None:
        raise AnalysisError("anchor vanished: Activated.__init__")
    for name, getter in act.getters.items():
        ex_props[("Activated", name)] = (getter, act.setters.get(name))

    def construct(ex: AbsExec, e: Any, args: list, kw: dict) -> MObj:
        obj = MObj("Activated", {"__bases__": ("Term",)})
        node = init.node
        ex.call_closure(Closure(node, {}), [obj] + list(args), kw, e)
        return obj

    return construct, init


def consequent_semantics(check: Check, rule: str = "M-sem", aspects: tuple[str, ...] = ("terms", "degree", "implication", "no-internal-error", "degree-carried", "rule-untouched")) -> None:
    p = check.program
    fn = p.func("Consequent.modify")
    check.analysed(fn)
    node = fn.node
    params = [a.arg for a in node.args.args]
    if len(params) < 3:
        raise AnalysisError("Consequent.modify: expected (self, activation_degree, implication)")
    bad: dict[str, tuple[str, Any]] = {}
    cases = 0
    hedge_sets = [(), ("very",), ("not", "very")]
    shapes = [("A",), ("A", "B"), ("B", "A"), ("A", "A")]

    def new_exec(decide: Any = None) -> tuple[AbsExec, Any]:
        ex = AbsExec(fn.qualname, {**({"decide": decide} if decide is not None else {}), "method:hedge": lambda ex_, e, recv, args, kw: App(f"hedge:{recv.fields['name']}", (freeze(args[0]),))
                                   if isinstance(recv, MObj) and recv.cls == "Hedge" else (_ for _ in ()).throw(Unknown("hedge() on something that is not a hedge"))},
                     helpers={k: v for k, v in fn.cls.methods.items() if k not in ("modify", "load", "unload", "__init__")})
        construct, init = _activated_factory(p, ex.properties)
        ex.globals = {"np": NP, "Activated": construct, "OutputVariable": ("class", "OutputVariable"), "InputVariable": ("class", "InputVariable"),
                      "scalar": lambda ex_, e, args, kw: args[0], "array": lambda ex_, e, args, kw: args[0], "Scalar": Opaque("type"),
                      "nan": float("nan"), "inf": float("inf")}
        return ex, construct

    try:
        # what Activated stores when it is handed a value
        ex0, construct0 = new_exec()
        probe = construct0(ex0, node, [MObj("Term", {"name": "t"}), Sym("X"), None], {})
        stored = probe.fields.get("_degree", probe.fields.get("degree"))
        if stored is None:
            raise AnalysisError("Activated: the constructor does not store the degree")

        def S(v: Any) -> Any:
            return _subst(freeze(stored), Sym("X"), freeze(v))

        def one(decide: Any, shape: tuple, hs: tuple, en_a: bool, en_b: bool, debugging: bool = False) -> None:
            impl = MObj("TNorm", {"name": "implication"})
            outs = {}
            for nm, en in (("A", en_a), ("B", en_b)):
                fuzzy = MObj("Aggregated", {"terms": [], "name": nm})
                outs[nm] = MObj("OutputVariable", {"name": nm, "enabled": en, "fuzzy": fuzzy, "__bases__": ("Variable",), "__bool__": True})
            concl = []
            for j, (nm, h) in enumerate(zip(shape, hs)):
                term = MObj("Term", {"name": f"t{j}", "__bool__": True})
                hedges = [MObj("Hedge", {"name": f"{x}{j}"}) for x in h]
                concl.append(MObj("Proposition", {"variable": outs[nm], "hedges": hedges, "term": term, "__bool__": True}))
            me = MObj("Consequent", {"conclusions": concl, "text": "text"})
            ex, _ = new_exec(decide)
            ex.debugging = debugging  # `settings.debugging`: logging must not change what is concluded
            what = ("with settings.debugging on, " if debugging else "") + "conclusions " + " and ".join(f"{nm}{'' if (en_a if nm == 'A' else en_b) else ' (disabled)'} is {' '.join(h)}{' ' if h else ''}t{j}"
                                                 for j, (nm, h) in enumerate(zip(shape, hs)))
            before = [(c_, c_.fields["variable"], c_.fields["term"], list(c_.fields["hedges"])) for c_ in concl]
            try:
                ex.block(list(node.body), {params[0]: me, params[1]: Sym("d"), params[2]: impl})
            except _Return:
                pass
            except (Raised, Internal) as err:
                bad.setdefault("no-internal-error", (f"{what}: the method ends with {err.cls}", getattr(err, "node", None)))
                return
            # triggering a rule reads its conclusions, it does not edit them: the next activation must find the same rule
            now = me.fields.get("conclusions")
            same = isinstance(now, list) and len(now) == len(before) and all(
                c_ is b_[0] and c_.fields.get("variable") is b_[1] and c_.fields.get("term") is b_[2] and isinstance(c_.fields.get("hedges"), list)
                and len(c_.fields["hedges"]) == len(b_[3]) and all(x is y for x, y in zip(c_.fields["hedges"], b_[3])) for c_, b_ in zip(now, before))
            if not same:
                bad.setdefault("rule-untouched", (f"{what}: after modify() the rule's own conclusions are no longer what they were (a conclusion, its variable, term or list of "
                                                  "hedges was changed): the next time the rule fires it concludes something else", None))
            # expected
            want: dict[str, list[tuple]] = {"A": [], "B": []}
            carried: dict[str, list[tuple]] = {"A": [], "B": []}
            acc: Any = Sym("d")
            for j, (nm, h) in enumerate(zip(shape, hs)):
                if not outs[nm].fields["enabled"]:
                    continue
                v: Any = Sym("d")
                for x in reversed(h):
                    v = App(f"hedge:{x}{j}", (v,))
                    acc = App(f"hedge:{x}{j}", (acc,))
                want[nm].append((f"t{j}", S(v)))
                carried[nm].append((f"t{j}", S(acc)))
            for nm in ("A", "B"):
                got_terms = outs[nm].fields["fuzzy"].fields["terms"]
                got = []
                for a in got_terms:
                    if not (isinstance(a, MObj) and a.cls == "Activated"):
                        got.append(("?", None))
                        continue
                    t_ = a.fields.get("term")
                    deg_ = a.fields.get("_degree", a.fields.get("degree"))
                    if isinstance(deg_, Opaque):
                        raise Unknown(f"Consequent.modify: the degree of an activated term is computed by something outside the model ({deg_.what})")
                    got.append((t_.fields["name"] if isinstance(t_, MObj) else "?", freeze(deg_)))
                    if a.fields.get("implication") is not impl:
                        bad.setdefault("implication", (f"{what}: the activated term for {nm} does not carry the implication operator that was handed in", None))
                if [g[0] for g in got] != [w[0] for w in want[nm]]:
                    bad.setdefault("terms", (f"{what}: the fuzzy output of {nm} receives the terms {[g[0] for g in got]}, specified {[w[0] for w in want[nm]]} "
                                             "(one activated term per conclusion on an enabled variable, in order, nothing for a disabled one)", None))
                    continue
                if got != want[nm]:
                    j = next(i for i, (g, w) in enumerate(zip(got, want[nm])) if g != w)
                    key = "degree-carried" if got == carried[nm] or got[j] == carried[nm][j] else "degree"
                    bad.setdefault(key, (f"{what}: the activated term {got[j][0]} of {nm} carries the degree `{_show(got[j][1])}`, specified `{_show(want[nm][j][1])}`"
                                         + (" - the hedges of an earlier conclusion are applied to this one as well" if key == "degree-carried" else
                                            " (the rule's activation degree modified by this conclusion's own hedges, the one next to the term first, and stored once)"), None))

        for shape in shapes:
            for hs in itertools.product(hedge_sets, repeat=len(shape)):
                for en_a, en_b in itertools.product((True, False), repeat=2):
                    cases += 1
                    Decisions().explore(lambda decide, shape=shape, hs=hs, en_a=en_a, en_b=en_b: one(decide, shape, hs, en_a, en_b))
                    if en_a and en_b and len(shape) <= 2:
                        cases += 1
                        Decisions().explore(lambda decide, shape=shape, hs=hs: one(decide, shape, hs, True, True, True))
    except Unknown as u:
        raise AnalysisError(str(u)) from None
    for aspect, good in (("terms", "one activated term per conclusion on an enabled variable, in order of the conclusions; nothing for a disabled variable"),
                         ("degree", "each activated term carries the rule's degree modified by its own conclusion's hedges (innermost first), stored once"),
                         ("implication", "each activated term carries the implication operator handed in"),
                         ("rule-untouched", "modify() leaves the rule's conclusions (variables, terms, hedges) as they were"),
                         ("no-internal-error", "the method ends without an exception of its own")):
        if aspect not in aspects:
            continue
        hit = bad.get(aspect)
        check.require(hit is None, rule, f"Consequent.modify/{aspect}", f"{good} ({cases} model consequents)" if hit is None else hit[0], loc(fn), {"cases": cases},
                      exhaustive=True, cases=cases)
    # the independence clause: reported under the key of the known finding (L1) so that it is one finding, not two
    if "degree-carried" not in aspects:
        return
    hit = bad.get("degree-carried")
    check.require(hit is None, "L1", "Consequent.modify/degree-carried", f"a conclusion's degree does not depend on the hedges of earlier conclusions ({cases} model consequents)"
                  if hit is None else hit[0], loc(fn), {"cases": cases}, exhaustive=True, cases=cases)


def _subst(t: Any, old: Any, new: Any) -> Any:
    if t == old:
        return new
    if isinstance(t, App):
        return App(t.fn, tuple(_subst(a, old, new) for a in t.args), tuple((k, _subst(v, old, new)) for k, v in t.kwargs))
    if isinstance(t, tuple):
        return tuple(_subst(x, old, new) for x in t)
    return t


def _show(t: Any) -> str:
    if isinstance(t, App):
        name = t.fn.split(":")[-1]
        inner = ", ".join([_show(a) for a in t.args] + [f"{k}={_show(v)}" for k, v in t.kwargs])
        return f"{name}({inner})"
    if isinstance(t, Sym):
        return t.name
    return repr(t)
