"""C13 - Processing is history-free; restart and copy give clean independent engines."""

from __future__ import annotations

import ast
import os
from typing import Any

from ..callgraph import CallGraph
from ..pm import AnalysisError, unparse
from ..report import VERIF, Check
from ..sym import Resolver, Term, path_of, show, walk
from . import wiring
from .activation_sem import activation_semantics
from .common import const_value, early_exits, holds_at, is_path, iter_base, loc, loops_over, strip

EXPLANATION = (
    "static analysis of state carried between processing steps: the set of attributes written (transitively) by "
    "Engine.process is computed over the call graph and each is shown to be re-initialised before it is read in the same "
    "step (fuzzy outputs cleared first; every activate() deactivates the rule before using it - decided by interpreting the seven activate methods "
    "on model rule blocks), every read of a "
    "variable's value on the process path is classified (input variable / the admissible previous-value capture / "
    "possibly an output variable = step state of an earlier step); restart performs its three effects on all "
    "components; copy is copy.deepcopy with no copy hooks, no class- or module-level mutable state written by instance "
    "methods and no mutable default arguments; grouped_terms never mutates the stored activations; Engine.__init__ "
    "re-points every term (of input and of output variables) and loads every block; copy() neither writes to the original nor calls a "
    "state-writing method on one of its components (effect summaries over the call graph); no numpy in-place interface is applied to "
    "a value a function on the processing path was handed (H10)"
    "; no attribute holds a value copy.deepcopy hands over as it is - a weak reference, a closure over an object, a partial application (H4 deepcopy-atomic); an activation object used before does what a new one does (A-sem history-free)"
    "; firing a rule does not edit the rule (Consequent.modify leaves the conclusions as they were)"
)
ASSUMPTIONS = [
    "numpy and copy.deepcopy are deterministic; two runs of pure code on equal inputs give identical floats",
    "lock-previous off for the history-free clause (property precondition)",
]
FLOORS = {"P1": 3, "O-dea": 7, "A-sem": 7, "H5": 6, "H2": 7, "H3": 4, "H4": 6, "H6": 2, "H7": 3, "H9": 1, "H10": 1}

EXPECTED_STEP_STATE = {
    "activation_degree": "Rule: reset by deactivate() at the start of every iteration of every activate()",
    "triggered": "Rule: reset by deactivate() / trigger()",
    "_value": "Variable: output values are committed at the end of the step; inputs are set by the caller",
    "previous_value": "OutputVariable: recorded from the old value, read only under lock_previous",
    "_degree": "Activated: set on objects created in the same step",
    "degree": "Activated: property write on objects created in the same step",
    "terms": "Aggregated.terms via append/clear (cleared first by process)",
    "fuzzy": "OutputVariable.fuzzy.clear(): the fuzzy output is emptied first by process",
    "value": "Variable.value property write (stores _value)",
}


def run(check: Check) -> None:
    p = check.program
    wiring.p1_process_phases(check)
    for cls in ["General", "First", "Last", "Highest", "Lowest", "Proportional", "Threshold"]:
        # O-dea of C08, by interpretation: each rule's activation state is reset before it is used in this step
        # and an activation object carries nothing from one activation to the next (A-sem history-free)
        activation_semantics(check, cls, ("deactivate-first", "history-free"))
    step_state(check)
    from .consequent_sem import consequent_semantics

    consequent_semantics(check, rule="H5", aspects=("rule-untouched",))  # firing a rule does not edit the rule
    restart(check)
    from . import c12
    from ..report import FilteredCheck

    c12.clear(FilteredCheck(check, {"O8": "H2"}))  # type: ignore[arg-type]  # what "clearing an output variable" means
    copy_rules(check)
    ownership(check)
    engine_init(check)
    fixtures(check)
    inplace_updates(check)
    no_inplace_on_handed_values(check, ["Engine.process"])
    from .common import memoisation_rule

    memoisation_rule(check)


# ------------------------------------------------------------------------------------------------ H5
def step_state(check: Check, reads: bool = True) -> None:
    p = check.program
    cg = CallGraph(p)
    pred = cg.reachable(["Engine.process"])
    # (1) attributes written on the process path
    written: dict[str, list[str]] = {}
    for q in sorted(pred):
        f = cg._fn.get(q)
        if f is None:
            continue
        check.analysed(f)
        if f.name == "__init__":
            continue  # fresh objects
        r = Resolver(p, f)
        cfg = r.cfg
        for n in cfg.stmt_nodes():
            for t in cfg.stores_at(n):
                if isinstance(t, ast.Attribute):
                    written.setdefault(t.attr, []).append(f"{q}:{n.lineno}")
            for c in cfg.calls_in(n):
                if isinstance(c.func, ast.Attribute) and c.func.attr in ("append", "clear", "extend", "pop", "remove", "insert", "sort") and \
                        isinstance(c.func.value, ast.Attribute):
                    recv = r.term(c.func.value, n)
                    root = recv
                    while root[0] == "attr":
                        root = root[1]
                    if root[0] in ("param", "elem"):
                        written.setdefault(c.func.value.attr, []).append(f"{q}:{n.lineno}")
    transient = {"hedges", "left", "right", "term", "expression", "conclusions", "formula", "engine", "root", "variable", "constant", "element",
                 "height", "name", "values"}
    unknown = sorted(k for k in written if k not in EXPECTED_STEP_STATE and k not in transient)
    # attributes in `transient` are only written by loaders reachable through over-approximated edges (update_reference/load)
    for k in unknown:
        # state that no rule accounts for: written while processing, it survives the step (a cache, a memo, a counter) and makes the
        # next step depend on this one unless every input it was computed from invalidates it - which nothing here establishes
        site = written[k][0]
        qual, line = site.rsplit(":", 1)
        f_ = cg._fn.get(qual)
        check.violation("H5", f"{qual}/{k}",
                        f"`{k}` is written while processing ({', '.join(written[k][:3])}) and kept on the object: state that outlives the step "
                        "(a cache or memo) makes later results depend on earlier ones - nothing resets it at the start of a step, on restart, or "
                        "when the values it was computed from change", f"{f_.file}:{line}" if f_ is not None else site)
    check.ok("H5", "Engine.process/step-state", f"state written by a processing step: {sorted(k for k in written if k in EXPECTED_STEP_STATE)}",
             "fuzzylite/engine.py", {"written": {k: v[:3] for k, v in written.items() if k in EXPECTED_STEP_STATE}})
    if not reads:
        return
    # (2) reads of Variable.value on the process path
    sites = 0
    for q in sorted(pred):
        f = cg._fn.get(q)
        if f is None:
            continue
        r = Resolver(p, f)
        cfg = r.cfg
        for n in cfg.stmt_nodes():
            for e in cfg.exprs_of(n):
                for x in ast.walk(e):
                    if not (isinstance(x, ast.Attribute) and x.attr in ("value", "_value") and isinstance(x.ctx, ast.Load)):
                        continue
                    recv = r.term(x.value, n)
                    kind = classify_value_read(p, f, r, cfg, n, x, recv)
                    if kind is None:
                        continue
                    sites += 1
                    construct = f"{q}/{kind[1]}"
                    if kind[0] == "ok":
                        check.ok("H5", construct, kind[2], loc(f, n))
                    else:
                        check.violation("H5", construct, kind[2], loc(f, n), {"receiver": show(recv)})
    if sites < 3:
        raise AnalysisError(f"H5: only {sites} reads of variable values found on the processing path")
    # (3) previous_value is read only under lock_previous
    fn = p.func("OutputVariable.defuzzify")
    r = Resolver(p, fn)
    cfg = r.cfg
    bad = []
    for n in cfg.stmt_nodes():
        for e in cfg.exprs_of(n):
            for x in ast.walk(e):
                if isinstance(x, ast.Attribute) and x.attr == "previous_value" and isinstance(x.ctx, ast.Load) and r.term(x.value, n) == ("param", "self"):
                    if not any(pol and path_of(r.term(g, gn)) == "self.lock_previous" for g, pol, gn in cfg.must_guards(n)):
                        bad.append(n.lineno)
    check.require(not bad, "H5", "OutputVariable.defuzzify/previous-under-lock",
                  "the previous value influences the new value only under lock_previous" if not bad else
                  f"previous_value is read outside the lock_previous block at lines {bad}", loc(fn))
    fn = p.func("Rule.deactivate")
    check.analysed(fn)
    # by interpretation: whatever the rule held, after deactivate() its degree is zero and it is not triggered
    from ..absexec import AbsExec, Internal, MObj, Raised, Unknown, _Return

    rule_obj = MObj("Rule", {"activation_degree": 0.8125, "triggered": True, "enabled": True, "weight": 1.0})
    ex = AbsExec(fn.qualname, {}, helpers={k: v for k, v in fn.cls.methods.items() if k != "deactivate"})
    ex.globals = {"scalar": lambda ex_, e, args, kw: args[0], "array": lambda ex_, e, args, kw: args[0], "nan": float("nan")}
    try:
        try:
            ex.block(list(fn.node.body), {fn.params[0].name: rule_obj})
        except _Return:
            pass
        d, t = rule_obj.fields.get("activation_degree"), rule_obj.fields.get("triggered")
        ok = isinstance(d, (int, float)) and not isinstance(d, bool) and d == 0 and t is False
        why = f"after deactivate() the rule holds activation_degree={d!r}, triggered={t!r}"
    except (Raised, Internal) as err:
        ok, why = False, f"deactivate() ends with {err.cls}"
    except Unknown as u:
        raise AnalysisError(str(u)) from None
    check.require(ok, "H5", "Rule.deactivate/resets", "deactivate resets the activation degree to zero and the triggered flag to false (interpreted on a rule that held other values)"
                  if ok else why + " (specified: 0 and False): state of an earlier activation survives", loc(fn))


def _flows_only_to(cfg, n, attr: str, depth: int = 0) -> bool:
    """The statement at `n` only binds local names, and every use of those definitions is a statement that stores `self.<attr>` and
    nothing else (or, transitively, another such local binding)."""
    if depth > 3:
        return False
    a = n.ast
    if not isinstance(a, (ast.Assign, ast.AnnAssign)):
        return False
    targets = a.targets if isinstance(a, ast.Assign) else [a.target]
    if not all(isinstance(t, ast.Name) for t in targets):
        return False
    defs = [d for d in cfg.defs_at(n)]
    if not defs:
        return False
    used = False
    for u in cfg.stmt_nodes():
        if u is n or u.copy:
            continue
        for d in defs:
            if any(x.id == d.name for x in cfg.uses_at(u)) and d in cfg.defs_reaching(d.name, u):
                used = True
                if u.kind != "stmt":
                    return False
                st = [t.attr for t in cfg.stores_at(u) if isinstance(t, ast.Attribute)]
                if st == [attr] and len(cfg.stores_at(u)) == 1:
                    continue
                if not _flows_only_to(cfg, u, attr, depth + 1):
                    return False
    return used


def classify_value_read(p, f, r: Resolver, cfg, n, x: ast.Attribute, recv: Term):
    """Classify a `<recv>.value` load on the processing path; None = not a Variable value."""
    # only receivers that can be Variables: self inside Variable classes, elements of variable lists, `.variable` attributes
    def is_input_collection(t: Term) -> bool:
        b = iter_base(t)[0]
        return b[0] == "attr" and b[2] == "input_variables"

    if recv == ("param", "self"):
        if f.cls is None or not f.cls.is_subclass_of("Variable"):
            return None
        if f.qualname == "OutputVariable.defuzzify":
            # admissible: feeds previous_value only
            stores = [t.attr for t in cfg.stores_at(n) if isinstance(t, ast.Attribute)]
            if stores == ["previous_value"]:
                return ("ok", "own-previous-value", "the old value is read only to record previous_value")
            if _flows_only_to(cfg, n, "previous_value"):
                return ("ok", "own-previous-value", "the old value is read (through a temporary) only to record previous_value")
            return ("bad", "own-value", "the output variable's old value is read for something other than recording previous_value")
        return ("ok", "own-value", "a variable reading its own value outside the inference path")
    if recv[0] == "elem":
        if is_input_collection(recv[1]):
            return ("ok", "input-value", "reads the value of an input variable")
        b = iter_base(recv[1])[0]
        if b[0] == "attr" and b[2] in ("variables", "output_variables"):
            return ("bad", "OutputVariable._value",
                    f"reads the current value of every engine variable - outputs included - via `{unparse(x)}`: an output's value is state "
                    "left by the previous processing step (never re-initialised by process()), so a formula that refers to an output "
                    "defined later in the list sees the previous step")
        return None
    if recv[0] == "attr" and recv[2] == "variable":
        # node.variable.value: must be guarded by isinstance(..., InputVariable)
        for g, pol, gn in cfg.must_guards(n):
            t = r.term(g, gn)
            if pol and t[0] == "call" and t[1] == ("global", "isinstance") and t[2][0] == recv and t[2][1] == ("global", "fuzzylite.variable.InputVariable"):
                return ("ok", "proposition-input-value", "a proposition reads the value of an input variable (guarded by isinstance)")
        return ("bad", "proposition-value", "a proposition reads a variable's value without establishing that it is an input variable")
    return None


# ------------------------------------------------------------------------------------------------ H2 / H3
def restart(check: Check) -> None:
    p = check.program
    fn = p.func("Engine.restart")
    check.analysed(fn)
    r = Resolver(p, fn)
    cfg = r.cfg

    # by interpretation on model engines with 0-2 input variables, rule blocks and output variables, enabled or not, holding values of an earlier
    # step: afterwards every input value is NaN, every block has had reload_rules(<this engine>) called once, every output has been cleared once
    import itertools

    from ..absexec import AbsExec, Internal, MObj, Raised, Unknown, _Return

    bad: dict[str, str] = {}
    cases = 0
    try:
        for n_in, n_rb, n_out, en in itertools.product((0, 1, 2), (0, 1, 2), (0, 1, 2), (True, False)):
            cases += 1
            log: list[tuple] = []
            engine = MObj("Engine", {"name": "e"})
            engine.fields["input_variables"] = [MObj("InputVariable", {"name": f"i{k}", "value": 0.5, "enabled": en or k == 0}) for k in range(n_in)]
            engine.fields["output_variables"] = [MObj("OutputVariable", {"name": f"o{k}", "value": 0.5, "enabled": en or k == 0}) for k in range(n_out)]
            engine.fields["rule_blocks"] = [MObj("RuleBlock", {"name": f"b{k}", "enabled": en or k == 0}) for k in range(n_rb)]
            hooks = {"method:reload_rules": lambda ex_, e, recv, args, kw: log.append(("reload", recv.fields["name"], (args[0] if args else kw.get("engine")) is engine)),
                     "method:clear": lambda ex_, e, recv, args, kw: log.append(("clear", recv.fields["name"]))}
            ex = AbsExec(fn.qualname, hooks, helpers={k: v for k, v in fn.cls.methods.items() if k.startswith("_") and not k.startswith("__")})
            ex.globals = {"nan": float("nan"), "scalar": lambda ex_, e, args, kw: args[0]}
            what = f"an engine with {n_in} input variable(s), {n_rb} rule block(s), {n_out} output variable(s)" + ("" if en else ", all but the first of each disabled")
            try:
                ex.block(list(fn.node.body), {fn.params[0].name: engine})
            except _Return:
                pass
            except (Raised, Internal) as err:
                bad.setdefault("inputs", f"{what}: restart() ends with {err.cls}")
                continue
            left = [v.fields["name"] for v in engine.fields["input_variables"] if not (isinstance(v.fields["value"], float) and v.fields["value"] != v.fields["value"])]
            if left:
                bad.setdefault("inputs", f"{what}: input variable(s) {left} keep the value of the earlier step")
            want_rb = [("reload", b.fields["name"], True) for b in engine.fields["rule_blocks"]]
            got_rb = [ev for ev in log if ev[0] == "reload"]
            if sorted(got_rb) != sorted(want_rb):
                bad.setdefault("rules", f"{what}: reload_rules calls {got_rb}, specified one per rule block with this engine")
            want_o = sorted(("clear", o.fields["name"]) for o in engine.fields["output_variables"])
            if sorted(ev for ev in log if ev[0] == "clear") != want_o:
                bad.setdefault("outputs", f"{what}: output variables cleared: {[ev[1] for ev in log if ev[0] == 'clear']}, specified every output variable once")
    except Unknown as u:
        raise AnalysisError(str(u)) from None
    for key, good in (("inputs", "restart sets every input value to NaN"), ("rules", "restart reloads the rules of every block against this engine"),
                      ("outputs", "restart clears every output variable")):
        check.require(key not in bad, "H2", f"Engine.restart/{key}", f"{good} ({cases} model engines)" if key not in bad else bad[key], loc(fn), exhaustive=True, cases=cases)
    rule_block_loading(check)
    wiring.rule_load_semantics(check, rule="H3")  # Rule.load / unload: the rule's activation state is reset, both parts are (un)loaded


def rule_block_loading(check: Check) -> None:
    """H2 / H3 [E on the model blocks]: `RuleBlock.unload_rules`, `load_rules(engine)` and `reload_rules(engine)` interpreted (sa/absexec.py) on a block
    of three model rules - each loaded or not, the second one failing to load or not - with every method called on a rule and every assignment to
    one recorded: unloading unloads every rule and does nothing else to it; loading (re)loads every rule with the engine handed in - also after a
    rule that fails - and reports the failures at the end; reloading leaves every rule loaded from the text and the weight it *has* (a rule is not
    re-parsed from a printed form of itself, which would round its weight to the printed decimals)."""
    from ..absexec import AbsExec, Internal, MObj, Raised, Unknown, _Return

    p = check.program
    import itertools

    for meth in ("unload_rules", "load_rules", "reload_rules"):
        fn = p.func(f"RuleBlock.{meth}")
        check.analysed(fn)
        node = fn.node
        params = [a.arg for a in node.args.args]
        why = None
        cases = 0
        try:
            for loaded, failing, block_enabled in itertools.product(itertools.product((True, False), repeat=3), (False, True), (True, False)):
                if True:
                    if meth == "unload_rules" and failing:
                        continue
                    cases += 1
                    engine = MObj("Engine", {"__bool__": True})
                    log: list[tuple] = []
                    rules = [MObj("Rule", {"index": i, "loaded": l, "text": f"text {i}", "weight": 0.0625 * (i + 1), "enabled": True, "__bool__": True}) for i, l in enumerate(loaded)]

                    def load(ex_, e, recv, args, kw, log=log, engine=engine, failing=failing):
                        log.append(("load", recv.fields["index"], (args[0] if args else kw.get("engine")) is engine))
                        if failing and recv.fields["index"] == 1:
                            recv.fields["loaded"] = False
                            raise Raised("SyntaxError", e)
                        recv.fields["loaded"] = True

                    def unload(ex_, e, recv, args, kw, log=log):
                        log.append(("unload", recv.fields["index"]))
                        recv.fields["loaded"] = False

                    def other(name_):
                        def f(ex_, e, recv, args, kw, log=log):
                            if isinstance(recv, MObj) and recv.cls == "Rule":
                                log.append((name_, recv.fields["index"]))
                                return None
                            raise Unknown(f"RuleBlock.{meth}: {name_}() on something that is not a rule of the block")
                        return f

                    hooks = {"method:load": load, "method:unload": unload, "method:is_loaded": lambda ex_, e, recv, args, kw: recv.fields["loaded"],
                             **{f"method:{nm}": other(nm) for nm in ("parse", "deactivate", "create", "activate_with", "trigger")}}
                    me = MObj("RuleBlock", {"rules": rules, "name": "block", "enabled": block_enabled, "__len__": 3})  # a disabled block is (re)loaded like any other
                    ex = AbsExec(fn.qualname, hooks, helpers={k: v for k, v in fn.cls.methods.items() if (k in ("unload_rules", "load_rules", "reload_rules") or (k.startswith("_") and not k.startswith("__"))) and k != meth})
                    env = {params[0]: me}
                    if len(params) > 1:
                        env[params[1]] = engine
                    before = [(r_.fields["text"], r_.fields["weight"]) for r_ in rules]
                    outcome = None
                    try:
                        ex.block(list(node.body), env)
                    except _Return:
                        pass
                    except Raised as r_:
                        outcome = r_.cls
                    except Internal as i_:
                        why = why or f"RuleBlock.{meth} ends with an internal {i_.cls}"
                        continue
                    what = f"{'' if block_enabled else 'disabled block, '}rules {['loaded' if l else 'not loaded' for l in loaded]}" + (", the second one fails to load" if failing else "")
                    after = [(r_.fields["text"], r_.fields["weight"]) for r_ in rules]
                    extra = [ev for ev in log if ev[0] not in ("load", "unload", "deactivate")]
                    if after != before or extra or me.fields["rules"] != rules:
                        why = why or (f"{what}: RuleBlock.{meth} {'calls ' + extra[0][0] + '() on a rule' if extra else 'changes the text or the weight of a rule'} - "
                                      "(re)loading reads a rule, it does not rewrite it (a rule re-parsed from its printed text has its weight rounded to the printed decimals)")
                    loads = [ev for ev in log if ev[0] == "load"]
                    if meth == "unload_rules":
                        if any(r_.fields["loaded"] for r_ in rules) or loads:
                            why = why or f"{what}: after unload_rules some rule is still loaded (or was loaded)"
                    else:
                        if [ev[1] for ev in loads] != [0, 1, 2] or not all(ev[2] for ev in loads):
                            why = why or (f"{what}: RuleBlock.{meth} loads the rules {[ev[1] for ev in loads]}" + ("" if all(ev[2] for ev in loads) else " (not with the engine handed in)")
                                          + ", specified every rule of the block once, in order, with the engine handed in - whatever was loaded before and whether an earlier rule failed")
                        if failing and outcome is None:
                            why = why or f"{what}: RuleBlock.{meth} does not report that a rule failed to load"
                        if not failing and outcome is not None:
                            why = why or f"{what}: RuleBlock.{meth} raises {outcome} although every rule loads"
                        # a rule that was loaded is unloaded before it is loaded again (its old tree must not survive a failing load)
                        for i in range(3):
                            evs = [ev[0] for ev in log if ev[1] == i and ev[0] in ("load", "unload")]
                            if loaded[i] and (not evs or evs[0] != "unload"):
                                why = why or f"{what}: rule {i} was loaded and is loaded again without being unloaded first"
        except Unknown as u:
            raise AnalysisError(str(u)) from None
        rule_id, construct = ("H2", "RuleBlock.reload_rules/sequence") if meth == "reload_rules" else ("H3", f"RuleBlock.{meth}/all")
        good = {"reload_rules": "reload = every rule unloaded, then loaded against the given engine, untouched otherwise", "unload_rules": "unload is applied to every rule of the block",
                "load_rules": "load is applied to every rule of the block, failures reported at the end"}[meth]
        check.require(why is None, rule_id, construct, f"{good} ({cases} model blocks)" if why is None else why, loc(fn), exhaustive=True, cases=cases)


# ------------------------------------------------------------------------------------------------ H4
HOOKS = {"__deepcopy__", "__copy__", "__reduce__", "__reduce_ex__", "__getstate__", "__setstate__", "__getnewargs__", "__getnewargs_ex__"}


def scan_copy_hooks(tree: ast.Module) -> list[tuple[int, str]]:
    out = []
    for c in ast.walk(tree):
        if isinstance(c, ast.ClassDef):
            for s in c.body:
                if isinstance(s, ast.FunctionDef) and s.name in HOOKS:
                    out.append((s.lineno, f"{c.name}.{s.name}"))
                if isinstance(s, ast.Assign) and any(isinstance(t, ast.Name) and t.id == "__slots__" for t in s.targets):
                    out.append((s.lineno, f"{c.name}.__slots__"))
    return out


def _is_mutable_literal(v: ast.AST) -> bool:
    if isinstance(v, (ast.List, ast.Dict, ast.Set, ast.ListComp, ast.DictComp, ast.SetComp)):
        return True
    if isinstance(v, ast.Call):
        name = unparse(v.func)
        return name in ("list", "dict", "set", "deque", "collections.deque", "defaultdict", "np.array", "np.zeros", "array", "bytearray")
    return False


def scan_mutable_defaults(tree: ast.Module) -> list[tuple[int, str]]:
    out = []
    for f in ast.walk(tree):
        if isinstance(f, (ast.FunctionDef, ast.Lambda)):
            for d in list(f.args.defaults) + [k for k in f.args.kw_defaults if k is not None]:
                if _is_mutable_literal(d):
                    out.append((d.lineno, f"{getattr(f, 'name', '<lambda>')}: default `{unparse(d)}`"))
    return out


def scan_shared_mutables(tree: ast.Module) -> list[tuple[int, str, str]]:
    """Class-level and module-level mutable containers: (line, owner, name)."""
    out = []
    for s in tree.body:
        if isinstance(s, (ast.Assign, ast.AnnAssign)) and s.value is not None and _is_mutable_literal(s.value):
            for t in (s.targets if isinstance(s, ast.Assign) else [s.target]):
                if isinstance(t, ast.Name) and t.id != "__all__":
                    out.append((s.lineno, "<module>", t.id))
    for c in ast.walk(tree):
        if isinstance(c, ast.ClassDef):
            for s in c.body:
                if isinstance(s, (ast.Assign, ast.AnnAssign)) and s.value is not None and _is_mutable_literal(s.value):
                    for t in (s.targets if isinstance(s, ast.Assign) else [s.target]):
                        if isinstance(t, ast.Name):
                            out.append((s.lineno, c.name, t.id))
    return out


def scan_writes_to(tree: ast.Module, name: str) -> list[int]:
    """Mutations of an attribute / global called `name` inside function bodies."""
    out = []
    for f in ast.walk(tree):
        if not isinstance(f, ast.FunctionDef):
            continue
        for x in ast.walk(f):
            tgt = []
            if isinstance(x, ast.Assign):
                tgt = list(x.targets)
            elif isinstance(x, (ast.AugAssign, ast.AnnAssign)):
                tgt = [x.target]
            elif isinstance(x, ast.Delete):
                tgt = list(x.targets)
            for t in tgt:
                for y in ast.walk(t):
                    if isinstance(y, ast.Subscript) and ((isinstance(y.value, ast.Attribute) and y.value.attr == name) or (isinstance(y.value, ast.Name) and y.value.id == name)):
                        out.append(x.lineno)
                    if isinstance(y, ast.Attribute) and y.attr == name and isinstance(y.ctx, ast.Store) and not (isinstance(y.value, ast.Name) and y.value.id == "self"):
                        out.append(x.lineno)
            if isinstance(x, ast.Call) and isinstance(x.func, ast.Attribute) and x.func.attr in ("append", "update", "pop", "clear", "setdefault", "extend", "add", "remove", "insert", "popitem") and \
                    ((isinstance(x.func.value, ast.Attribute) and x.func.value.attr == name) or (isinstance(x.func.value, ast.Name) and x.func.value.id == name)):
                # a local of the same name shadows the shared one
                local = any(isinstance(a, ast.Assign) and any(isinstance(t, ast.Name) and t.id == name for t in a.targets) for a in ast.walk(f))
                if not local:
                    out.append(x.lineno)
    return out


MUTATORS = {"append", "extend", "insert", "clear", "pop", "popleft", "update", "remove", "setdefault", "sort", "reverse", "add", "discard"}


def _writes_state(cg: CallGraph, q: str, depth: int = 0, seen: set | None = None) -> bool:
    """The function (or something it calls in the package) assigns an attribute / subscript of an object it was handed, or calls a
    container mutator on one."""
    memo = cg.p.__dict__.setdefault("_writes_state", {})
    if q in memo:
        return memo[q]
    seen = seen if seen is not None else set()
    if q in seen or depth > 6:
        return False
    seen.add(q)
    f = cg._fn.get(q)
    if f is None:
        return False
    res = False
    for x in ast.walk(f.analysis_node):
        if isinstance(x, (ast.Attribute, ast.Subscript)) and isinstance(x.ctx, (ast.Store, ast.Del)) and not (
                isinstance(x, ast.Subscript) and isinstance(x.value, ast.Name) and _local_container(f, x.value.id)):
            res = True
            break
        if isinstance(x, ast.Call) and isinstance(x.func, ast.Attribute) and x.func.attr in MUTATORS and isinstance(x.func.value, ast.Attribute):
            res = True
            break
    if not res:
        res = any(_writes_state(cg, c, depth + 1, seen) for c in cg.callees(f))
    memo[q] = res
    return res


def _local_container(f, name: str) -> bool:
    """`name` is bound in f to a container literal / constructor (a local dict or list being filled)."""
    for x in ast.walk(f.analysis_node):
        if isinstance(x, (ast.Assign, ast.AnnAssign)):
            tgts = x.targets if isinstance(x, ast.Assign) else [x.target]
            if any(isinstance(t, ast.Name) and t.id == name for t in tgts) and isinstance(x.value, (ast.Dict, ast.List, ast.Set, ast.DictComp, ast.ListComp, ast.Call)):
                return True
    return False


def scan_deepcopy_atomic(tree: ast.Module) -> list[tuple[int, str]]:
    """Stores into attributes of values that copy.deepcopy hands over as they are - weak references, and functions / partial applications that
    close over an object - so that the copy of an engine would go on referring to a part of the original: (line, what)."""
    weak_names: set[str] = set()
    weak_modules: set[str] = set()
    partial_names: set[str] = set()
    for n in ast.walk(tree):
        if isinstance(n, ast.Import):
            for a in n.names:
                if a.name == "weakref":
                    weak_modules.add(a.asname or a.name)
        if isinstance(n, ast.ImportFrom) and n.module == "weakref":
            weak_names |= {a.asname or a.name for a in n.names}
        if isinstance(n, ast.ImportFrom) and n.module == "functools":
            partial_names |= {a.asname or a.name for a in n.names if a.name in ("partial", "partialmethod")}
    out: list[tuple[int, str]] = []

    def is_weak(c: ast.AST) -> bool:
        return isinstance(c, ast.Call) and ((isinstance(c.func, ast.Attribute) and isinstance(c.func.value, ast.Name) and c.func.value.id in weak_modules)
                                            or (isinstance(c.func, ast.Name) and c.func.id in weak_names))

    def is_partial(c: ast.AST) -> bool:
        return isinstance(c, ast.Call) and ((isinstance(c.func, ast.Attribute) and c.func.attr in ("partial", "partialmethod") and isinstance(c.func.value, ast.Name)
                                             and c.func.value.id == "functools") or (isinstance(c.func, ast.Name) and c.func.id in partial_names))

    for f in ast.walk(tree):
        if not isinstance(f, (ast.FunctionDef, ast.AsyncFunctionDef)):
            continue
        bound = {a.arg for a in f.args.posonlyargs + f.args.args + f.args.kwonlyargs} | {t.id for s_ in ast.walk(f) for t in ast.walk(s_) if isinstance(t, ast.Name) and isinstance(t.ctx, ast.Store)}
        nested = {d.name: d for d in ast.walk(f) if isinstance(d, (ast.FunctionDef, ast.Lambda)) and d is not f and isinstance(d, ast.FunctionDef)}
        for s_ in ast.walk(f):
            if not isinstance(s_, (ast.Assign, ast.AnnAssign)) or s_.value is None:
                continue
            targets = s_.targets if isinstance(s_, ast.Assign) else [s_.target]
            if not any(isinstance(t, ast.Attribute) for t in targets):
                continue
            v = s_.value
            if isinstance(v, ast.IfExp):  # `x if c else None`
                v = v.body if not (isinstance(v.body, ast.Constant) and v.body.value is None) else v.orelse
            if any(is_weak(x) for x in ast.walk(v)):
                out.append((s_.lineno, f"`{ast.unparse(s_)[:70]}` stores a weak reference"))
            elif isinstance(v, ast.Lambda) or (isinstance(v, ast.Name) and v.id in nested):
                body = v if isinstance(v, ast.Lambda) else nested[v.id]
                own = {a.arg for a in body.args.posonlyargs + body.args.args + body.args.kwonlyargs}
                free = {x.id for x in ast.walk(body) if isinstance(x, ast.Name) and isinstance(x.ctx, ast.Load)} - own
                if free & bound:
                    out.append((s_.lineno, f"`{ast.unparse(s_)[:70]}` stores a function that closes over {sorted(free & bound)}"))
            elif is_partial(v) and any(isinstance(a, (ast.Attribute, ast.Name)) and not (isinstance(a, ast.Name) and a.id not in bound) for a in v.args):
                out.append((s_.lineno, f"`{ast.unparse(s_)[:70]}` stores a partial application over an object"))
    return out


def copy_rules(check: Check) -> None:
    p = check.program
    fn = p.func("Engine.copy")
    check.analysed(fn)
    r = Resolver(p, fn)
    rets = [r.term(n.ast.value, n) for n in r.cfg.stmt_nodes() if isinstance(n.ast, ast.Return) and n.ast.value is not None]
    ok = bool(rets) and all(t == ("call", ("global", "copy.deepcopy"), (("param", "self"),), ()) for t in rets)
    check.require(ok, "H4", "Engine.copy/deepcopy", "copy() returns copy.deepcopy(self)" if ok else f"copy() returns {[show(t) for t in rets]}", loc(fn))
    # copying does not touch the original: no store through `self`, no call on something reached from `self` that writes state
    cg = CallGraph(p)
    touched = []
    for n in r.cfg.stmt_nodes():
        if n.copy:
            continue
        for tg in r.cfg.stores_at(n):
            if isinstance(tg, (ast.Attribute, ast.Subscript)) and any(x == ("param", "self") for x in walk(r.term(tg.value, n))):
                touched.append((n, f"`{unparse(n.ast)[:60]}` writes to the original engine"))
        for c in r.cfg.calls_in(n):
            if not isinstance(c.func, ast.Attribute):
                continue
            recv = r.term(c.func.value, n)
            if not any(x == ("param", "self") for x in walk(recv)):
                continue
            for q in sorted(cg._call_targets(r, c, n)):
                if _writes_state(cg, q):
                    touched.append((n, f"`{unparse(c)[:60]}` calls {q}, which writes state, on an object of the original engine: "
                                    "the original is modified by being copied (e.g. its terms now refer to the copy)"))
                    break
    check.require(not touched, "H4", "Engine.copy/original-untouched", "copy() neither writes to the original engine nor calls a state-writing method on "
                  "one of its components" if not touched else touched[0][1], loc(fn, touched[0][0] if touched else None))
    hooks, defaults, shared_writes = [], [], []
    shared = []
    for mod in p.modules.values():
        check.units.add(mod.relpath)
        hooks += [(mod.relpath, l, w) for l, w in scan_copy_hooks(mod.tree)]
        defaults += [(mod.relpath, l, w) for l, w in scan_mutable_defaults(mod.tree)]
        shared += [(mod.relpath, l, o, nme) for l, o, nme in scan_shared_mutables(mod.tree)]
    atomic = [(mod.relpath, l, w) for mod in p.modules.values() for l, w in scan_deepcopy_atomic(mod.tree)]
    for rel, l, w in atomic:
        check.violation("H4", f"deepcopy-atomic/{rel}:{w.split('`')[1][:40]}", f"{w}: copy.deepcopy hands such a value over as it is, so the copy of an engine keeps referring to "
                        "(a part of) the original - it follows the original's inputs, or breaks once the original is gone", f"{rel}:{l}")
    if not atomic:
        check.ok("H4", "package/deepcopy-atomic", "no attribute holds a weak reference, a closure over an object or a partial application (values deepcopy does not copy)")
    for rel, l, w in hooks:
        check.violation("H4", f"copy-hook/{w}", f"{w} customises copying: deepcopy of an engine may share or drop state", f"{rel}:{l}")
    if not hooks:
        check.ok("H4", "package/copy-hooks", f"no class defines a copy/pickle hook or __slots__ ({len(p.classes)} classes)")
    for rel, l, w in defaults:
        check.violation("H4", f"mutable-default/{w}", f"mutable default argument ({w}) is shared by every object constructed with the default", f"{rel}:{l}")
    if not defaults:
        check.ok("H4", "package/mutable-defaults", "no function has a mutable default argument")
    for rel, l, owner, nme in shared:
        for mod in p.modules.values():
            for line in scan_writes_to(mod.tree, nme):
                shared_writes.append((mod.relpath, line, owner, nme))
    for rel, l, owner, nme in shared_writes:
        check.violation("H4", f"shared-mutable/{owner}.{nme}", f"the shared container {owner}.{nme} is mutated at run time: engines (and copies) influence each other", f"{rel}:{l}")
    if not shared_writes:
        check.ok("H4", "package/shared-mutables", f"class- and module-level containers are never mutated by functions ({[f'{o}.{n}' for _, _, o, n in shared]})")
    # deep copies of cloning factory elements (Function elements are shared prototypes)
    fc = p.func("CloningFactory.copy")
    check.analysed(fc)
    rc = Resolver(p, fc)
    rets = [rc.term(m.ast.value, m) for m in rc.cfg.stmt_nodes() if isinstance(m.ast, ast.Return) and m.ast.value is not None]
    keyp = ("param", fc.params[1].name)
    proto = ("sub", ("attr", ("param", "self"), "objects"), keyp)

    def deep(t):  # type: ignore[no-untyped-def]
        return t[0] == "call" and t[1] == ("global", "copy.deepcopy") and t[2][:1] == (proto,)

    ok = bool(rets) and all(any(deep(x) for x in walk(t)) for t in rets)
    check.require(ok, "H4", "CloningFactory.copy/deepcopy", "formula elements are deep-copied from their prototypes", loc(fc))


# ------------------------------------------------------------------------------------------------ H6
def ownership(check: Check) -> None:
    p = check.program
    fn = p.func("Aggregated.grouped_terms")
    check.analysed(fn)
    r = Resolver(p, fn)
    cfg = r.cfg
    stores = [(n, t) for n in cfg.stmt_nodes() for t in cfg.stores_at(n) if isinstance(t, ast.Subscript) and isinstance(t.value, ast.Name)]
    fresh = bool(stores) and all((lambda v: v[0] == "call" and v[1] == ("global", "fuzzylite.term.Activated"))(r.term(n.ast.value, n)) for n, t in stores)  # type: ignore[union-attr]
    check.require(fresh, "H6", "Aggregated.grouped_terms/fresh-objects",
                  "grouping stores newly created Activated objects, never the activations held by the fuzzy output" if fresh else
                  "grouping stores an activation object of the fuzzy output itself: combining degrees then mutates the output on every query",
                  loc(fn, stores[0][0] if stores else fn.node))
    deg_stores = [(n, t) for n in cfg.stmt_nodes() for t in cfg.stores_at(n) if isinstance(t, ast.Attribute) and t.attr in ("degree", "_degree")]
    ok = True
    for n, t in deg_stores:
        recv = r.term(t.value, n)
        alts = recv[1] if recv[0] == "phi" else [recv]
        for a in alts:
            if a[0] == "elem" or path_of(a):  # an element of self.terms or an attribute of self
                ok = False
    check.require(ok and bool(deg_stores), "H6", "Aggregated.grouped_terms/degree-owner",
                  "the degree that is re-assigned belongs to an object taken from the local groups" if ok else
                  "the degree of a stored activation is re-assigned", loc(fn))
    key_ok = all((lambda k: k[0] == "attr" and k[2] == "name" and k[1][0] == "attr" and k[1][2] == "term")(r.term(t.slice, n)) for n, t in stores)
    check.require(key_ok, "H6", "Aggregated.grouped_terms/key", "activations are grouped by the name of their term", loc(fn))


# ------------------------------------------------------------------------------------------------ H7
def engine_init(check: Check) -> None:
    """H7 [E on the model engines]: `Engine(..., load=True)` interpreted (sa/objexec.py) on engines with a Function and a Linear term in an input
    and in an output variable and two rule blocks: afterwards every such term refers to the new engine (`update_reference` is interpreted too) and
    every rule block was asked to load its rules with the new engine, after the references were set; with `load=False` nothing is touched."""
    from ..absexec import Internal, MObj, Raised, Unknown
    from .roundtrip_sem import E0, new_exec

    p = check.program
    fn = p.func("Engine.__init__")
    check.analysed(fn)
    for qual in ("Linear.update_reference", "Function.update_reference"):
        check.analysed(p.func(qual))
    why_u = why_l = None
    cases = 0
    try:
        for load in (True, False):
            for where in ("input", "output", "both"):
                cases += 1
                ex = new_exec(p)
                log: list[tuple] = []

                def load_rules(ex_, e, args, kw, log=log):
                    blk, eng_ = args[0], (args[1] if len(args) > 1 else kw.get("engine"))
                    terms_ = [t for coll in ("input_variables", "output_variables") for v in (eng_.fields.get(coll, []) if isinstance(eng_, MObj) else [])
                              for t in v.fields.get("terms", [])]
                    log.append((blk.fields.get("name"), eng_, all(t.fields.get("engine", t.fields.get("_engine")) is eng_ for t in terms_ if "engine" in t.fields or "_engine" in t.fields)))

                ex.func_hooks["RuleBlock.load_rules"] = load_rules

                def C(cname, *a, **k):
                    return ex.instantiate(p.cls(cname), list(a), k, E0)

                def terms():
                    return [C("Function", "f", "a + 1"), C("Linear", "l", [1.0, 2.0]), C("Triangle", "t", 0.0, 1.0, 2.0)]

                iv = C("InputVariable", name="A", terms=terms() if where in ("input", "both") else [])
                ov = C("OutputVariable", name="O", terms=terms() if where in ("output", "both") else [])
                rbs = [C("RuleBlock", name="first"), C("RuleBlock", name="second")]
                try:
                    eng = C("Engine", name="model", input_variables=[iv], output_variables=[ov], rule_blocks=rbs, load=load)
                except (Raised, Internal) as err:
                    why_u = why_u or f"Engine(..., load={load}) with engine-referring terms in the {where} variables fails with {err.cls}"
                    continue
                holders = [(v.fields.get("name"), t) for v in (iv, ov) for t in v.fields.get("terms", []) if "engine" in t.fields or "_engine" in t.fields]
                for vname, t in holders:
                    ref = t.fields.get("engine", t.fields.get("_engine"))
                    if load and ref is not eng:
                        why_u = why_u or (f"Engine(..., load=True): the {t.cls} term `{t.fields.get('name')}` of the variable `{vname}` refers to "
                                          f"{'no engine' if ref is None else 'another object'} afterwards, not to the new engine: a Linear / Function term of that variable "
                                          "keeps pointing at the engine it was built for (or at none)")
                    if not load and ref is not None:
                        why_u = why_u or f"Engine(..., load=False) sets the engine reference of the {t.cls} term `{t.fields.get('name')}`"
                if load:
                    if [x[0] for x in log] != ["first", "second"] or not all(x[1] is eng for x in log):
                        why_l = why_l or f"Engine(..., load=True): the rule blocks asked to load their rules with the new engine are {[x[0] for x in log]}, specified every block, in order"
                    elif holders and not all(x[2] for x in log):
                        why_l = why_l or "Engine(..., load=True) loads the rules before every term refers to the new engine (a rule's Function terms are then parsed against no engine)"
                elif log:
                    why_l = why_l or "Engine(..., load=False) loads rules"
    except Unknown as u:
        raise AnalysisError(str(u)) from None
    check.require(why_u is None, "H7", "Engine.__init__/update-references", f"under load, every term of every input and output variable is re-pointed to this engine ({cases} model engines)"
                  if why_u is None else why_u, loc(fn), exhaustive=True, cases=cases)
    check.require(why_l is None, "H7", "Engine.__init__/load-rules", "then every rule block is loaded against this engine" if why_l is None else why_l, loc(fn), exhaustive=True, cases=cases)


# ------------------------------------------------------------------------------------------------ H9
VIEW_CALLS = {"fuzzylite.library.scalar", "fuzzylite.library.array", "numpy.asarray", "numpy.asanyarray", "numpy.atleast_1d", "numpy.atleast_2d",
              "numpy.squeeze", "numpy.transpose", "numpy.reshape", "numpy.ravel", "numpy.broadcast_to"}


def fresh(t: Term) -> bool:
    """The value is an object of its own (arithmetic / numpy results, constants, new objects): writing into it in place
    cannot reach anything else. Pass-through of a parameter, an attribute or another call's result is not."""
    k = t[0]
    if k == "const":
        return True
    if k == "binop":
        return t[1] in ("+", "-", "*", "/", "**", "%", "//", "&", "|", "^")
    if k == "unop":
        return t[1] in ("-", "~", "not")
    if k == "cmp":
        return True
    if k == "ifexp":
        return fresh(t[2]) and fresh(t[3])
    if k == "phi":
        return all(fresh(a) for a in t[1])
    if k == "call" and t[1][0] == "global":
        g = t[1][1]
        if g in VIEW_CALLS:
            return bool(t[2]) and fresh(t[2][0])
        if g.startswith("numpy.") or g in ("float", "int", "bool", "copy.copy", "copy.deepcopy"):
            return True
        return g.split(".")[-1][:1].isupper()  # a constructor
    if k == "call" and t[1][0] == "attr" and t[1][2] in ("copy", "astype", "sum", "mean", "max", "min", "clip", "round", "cumsum", "prod"):
        return True
    return False


def inplace_updates(check: Check) -> None:
    """H9: a stored array that is updated in place on the processing path (`obj.attr op= v`) must be an object of its own at every
    place the attribute is assigned; otherwise the update writes through to whatever the value was taken from (an input value,
    a term parameter): processing then changes its own inputs and the next step differs."""
    p = check.program
    cg = CallGraph(p)
    reach = cg.reachable(["Engine.process"])
    sites = []
    for q in sorted(reach):
        f = cg._fn.get(q)
        if f is None:
            continue
        for x in ast.walk(f.analysis_node):
            if isinstance(x, ast.AugAssign) and isinstance(x.target, ast.Attribute):
                sites.append((f, x, x.target.attr))
            elif isinstance(x, (ast.Assign, ast.AugAssign)):
                for tg in (x.targets if isinstance(x, ast.Assign) else [x.target]):
                    if isinstance(tg, ast.Subscript) and isinstance(tg.value, ast.Attribute):
                        sites.append((f, x, tg.value.attr))
    for f, x, attr in sites:
        check.analysed(f)
        stale = []
        stores = 0
        for g in p.functions.values():
            if "/examples/" in g.file:
                continue
            has = any(isinstance(s_, (ast.Assign, ast.AnnAssign)) and any(isinstance(tg, ast.Attribute) and tg.attr == attr for tg in
                      (s_.targets if isinstance(s_, ast.Assign) else [s_.target])) for s_ in ast.walk(g.analysis_node))
            if not has:
                continue
            rg = Resolver(p, g)
            for m in rg.cfg.stmt_nodes():
                if m.copy or not isinstance(m.ast, (ast.Assign, ast.AnnAssign)) or m.ast.value is None:
                    continue
                for tg in rg.cfg.stores_at(m):
                    if isinstance(tg, ast.Attribute) and tg.attr == attr:
                        stores += 1
                        v = rg.term(m.ast.value, m)
                        if not fresh(v):
                            stale.append((g, m, v))
        construct = f"{f.qualname}/{attr}"
        check.require(stores > 0 and not stale, "H9", construct,
                      f"`{unparse(x)[:60]}` updates an array in place; each of the {stores} assignments to `.{attr}` stores an object of its own" if not stale else
                      f"`{unparse(x)[:60]}` updates `.{attr}` in place, but {stale[0][0].qualname} (line {stale[0][1].lineno}) can store "
                      f"`{show(stale[0][2])[:80]}` there without copying: the update then writes through to the value it came from "
                      "(an input value, another rule's degree), so processing modifies its own inputs", loc(f, x))
    if not sites:
        check.ok("H9", "processing-path/no-in-place-updates", "no stored array is updated in place on the processing path")


# ------------------------------------------------------------------------------------------------ H10
NUMPY_INPLACE_FIRST = {"numpy.copyto", "numpy.put", "numpy.place", "numpy.putmask", "numpy.put_along_axis", "numpy.fill_diagonal"}
ARRAY_INPLACE_METHODS = {"fill", "itemset", "put", "partition", "resize", "setfield", "sort"}


def inplace_sinks(r: Resolver) -> list[tuple[Any, ast.Call, Term, str]]:
    """numpy interfaces that write into storage they are handed: `copy=False`, `out=`, np.copyto/put/place/putmask,
    ndarray.fill/itemset/put/partition/resize/sort. Returns (node, call, target term, how)."""
    out = []
    for n, c in r.cfg.all_calls():
        if n.copy:
            continue
        t = r.term(c, n)
        if t[0] != "call":
            continue
        kw = dict(t[3])
        if t[1][0] == "global" and t[1][1].startswith("numpy."):
            if "copy" in kw and kw["copy"] == ("const", False) and t[2]:
                out.append((n, c, t[2][0], "copy=False"))
            if "out" in kw and kw["out"] != ("const", None):
                out.append((n, c, kw["out"], "out="))
            if t[1][1] in NUMPY_INPLACE_FIRST and t[2]:
                out.append((n, c, t[2][0], t[1][1]))
        elif t[1][0] == "attr" and t[1][2] in ARRAY_INPLACE_METHODS:
            recv = t[1][1]
            if recv[0] in ("list", "dict", "set") or (recv[0] == "call" and recv[1][0] == "global" and recv[1][1] in ("list", "sorted", "dict", "collections.deque")):
                continue  # a container built here
            out.append((n, c, recv, f".{t[1][2]}()"))
    return out


def no_inplace_on_handed_values(check: Check, roots: list[str], rule: str = "H10") -> None:
    """H10: on the paths from `roots`, no numpy in-place interface is applied to a value the function was handed (a parameter, an
    attribute, another call's result): the write would reach the caller's array - e.g. the activation degree that the next
    conclusion, the next rule or the next step still reads."""
    p = check.program
    cg = CallGraph(p)
    reach = cg.reachable(roots)
    n_sites = 0
    for q in sorted(reach):
        f = cg._fn.get(q)
        if f is None or "/examples/" in f.file:
            continue
        rf = None
        src_has = any(isinstance(x, ast.Call) and (any(k.arg in ("copy", "out") for k in x.keywords) or (isinstance(x.func, ast.Attribute) and (
            x.func.attr in ARRAY_INPLACE_METHODS or x.func.attr in {g.split(".")[1] for g in NUMPY_INPLACE_FIRST}))) for x in ast.walk(f.analysis_node))
        rf = Resolver(p, f)
        for n, c, target, how in (inplace_sinks(rf) if src_has else []):
            n_sites += 1
            check.analysed(f)
            ok = fresh(target)
            check.require(ok, rule, f"{f.qualname}/in-place:{how}",
                          f"`{unparse(c)[:70]}` writes in place into a value created in this function" if ok else
                          f"`{unparse(c)[:70]}` writes in place into `{show(target)[:60]}`, which this function was handed: the caller's array "
                          "(a rule's activation degree, an input value) is modified, so whoever reads it next - the next conclusion, "
                          "the next rule, the next step - sees the modified value", loc(f, n))
        # `x op= v` / `x[...] = v` where x is (a view of) an array-typed parameter: numpy updates arrays in place
        ann = {prm.name: unparse(prm.annotation) for prm in f.params if prm.annotation is not None}
        arrayish = {k for k, v in ann.items() if any(w in v for w in ("Scalar", "Array", "ndarray"))}
        if not arrayish:
            continue
        for n in rf.cfg.stmt_nodes():
            if n.copy:
                continue
            a = n.ast
            bases: list[ast.expr] = []
            if isinstance(a, ast.AugAssign) and isinstance(a.target, ast.Name):
                bases.append(ast.copy_location(ast.Name(id=a.target.id, ctx=ast.Load()), a.target))
            elif isinstance(a, ast.AugAssign) and isinstance(a.target, ast.Subscript):
                bases.append(a.target.value)
            elif isinstance(a, ast.Assign):
                bases += [tg.value for tg in a.targets if isinstance(tg, ast.Subscript)]
            for b in bases:
                t = rf.term(b, n)
                while t[0] == "call" and t[1][0] == "global" and t[1][1] in VIEW_CALLS and t[2]:
                    t = t[2][0]
                if t[0] == "param" and t[1] in arrayish:
                    n_sites += 1
                    check.violation(rule, f"{f.qualname}/in-place:{t[1]}",
                                    f"`{unparse(a)[:70]}` updates the array parameter `{t[1]}` in place (numpy does not rebind arrays): the "
                                    "caller's value is modified and whoever reads it next sees the modified value", loc(f, n))
    check.ok(rule, "in-place-interfaces/scanned", f"{len(reach)} functions reachable from {roots} scanned for numpy in-place interfaces "
             f"(copy=False, out=, copyto/put/place/putmask, ndarray.fill/sort/..., op= and subscript stores on array parameters): {n_sites} site(s)")


def fixtures(check: Check) -> None:
    path = os.path.join(VERIF, "selftest", "fixtures", "c13_shared_state.py")
    with open(path, encoding="utf-8") as f:
        tree = ast.parse(f.read())
    hooks = scan_copy_hooks(tree)
    defaults = scan_mutable_defaults(tree)
    shared = scan_shared_mutables(tree)
    writes = [w for _, _, nme in shared for w in scan_writes_to(tree, nme)]
    atomic = scan_deepcopy_atomic(tree)
    if len(hooks) < 2 or len(defaults) < 2 or len(shared) < 2 or len(writes) < 2 or len(atomic) != 4:
        raise AnalysisError(f"positive fixture for H4 no longer matches (hooks={len(hooks)}, defaults={len(defaults)}, shared={len(shared)}, writes={len(writes)}, "
                            f"deepcopy-atomic={len(atomic)} of 4)")
    check.ok("H4", "fixture/shared-state", f"positive fixture matched {len(hooks)} hooks, {len(defaults)} mutable defaults, {len(writes)} shared writes")
