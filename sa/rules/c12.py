"""C12 - Output values follow the lock-previous / default / lock-range cascade.

Path and origin rules on the CFG of OutputVariable.defuzzify, Variable.value (setter) and
OutputVariable.clear; the two NaN-filling blocks are interpreted abstractly under their guards.
"""

from __future__ import annotations

import ast
import itertools

from ..guards import RoleEval, simulate
from ..pm import AnalysisError, unparse
from ..report import Check
from ..sym import Resolver, Term, path_of, show, walk, mentions
from .common import const_value, loc, strip

EXPLANATION = (
    "static analysis of OutputVariable.defuzzify, Variable.value.setter and OutputVariable.clear: CFG must-precede "
    "rules (disabled => no effect; defuzzifier call before every write; previous value captured from the old value "
    "before the commit; lock-previous block before default block before commit), abstract interpretation of the "
    "NaN fill loop and of the range-locking setter under all assignments of their guards, origin rules for the "
    "filler seed, the default substitution and the clipping bounds; who-may-write: only the value setter assigns the backing field _value; O-sem - "
    "defuzzify together with the value setter interpreted abstractly (sa/absexec.py) on arrays of abstract elements (NaN or symbols) for every "
    "two-call sequence of failing / scalar / batch results under all 16 settings: value, previous value, untouched state on disabled or failing "
    "calls exactly as specified (undecided, not an error, when the code leaves the array model)"
    "; the cascade is also interpreted under ranges bounded on one side and unbounded (clipping to (-inf, inf) is the identity), with static helpers of other classes inlined"
    "; P1 - every output is defuzzified once per process(), after all rule blocks (the previous value is the one held before the call); R1-sem - the variable constructors store default value, range and flags as given (0.0 included)"
)
ASSUMPTIONS = [
    "numpy.nditer(readwrite) iterates the result in row order; numpy.clip(x, lo, hi) clips to [lo, hi]",
    "user-defined defuzzifiers return a fresh value (the in-package ones are checked: O9)",
]
FLOORS = {"O9": 5, "O-sem": 1, "O1": 1, "O2": 1, "O3": 2, "O4": 3, "O5": 3, "O6": 3, "O8": 3}

SELF = ("param", "self")


def run(check: Check) -> None:
    from . import wiring

    wiring.p1_process_phases(check)  # every output is defuzzified once per process(), after all rule blocks: "previous" = before the call
    from .pyroundtrip_sem import constructor_fidelity

    # "if a default value is set": the flags and the default the cascade reads are the ones the variable was built with
    constructor_fidelity(check, bases=("Variable",))
    cascade(check)
    defuzzifier_results_fresh(check)
    setter(check)
    clear(check)
    from .common import who_may_write

    who_may_write(check, "O6", "_value", {"Variable.value.setter"}, "every other write skips the range lock of the setter")
    # the structural rules above decide the necessary conditions on every shape of the code; O-sem adds the decision of the whole
    # cascade where the code stays within the array model of the interpreter - outside it the clause is undecided, not an error
    try:
        cascade_semantics(check)
    except AnalysisError as ex:
        check.notes.append(f"O-sem undecided: {ex}")
        check.ok("O-sem", "OutputVariable.defuzzify/undecided", f"the cascade as a whole is outside the array model of the interpreter ({ex}); decided by O1-O8 only")


NON_COPYING = {"fuzzylite.library.scalar", "fuzzylite.library.array", "numpy.asarray", "numpy.asanyarray", "numpy.atleast_1d", "numpy.atleast_2d", "numpy.squeeze",
               "numpy.ravel", "numpy.reshape", "numpy.transpose"}


def defuzzifier_results_fresh(check: Check, rule: str = "O9") -> None:
    """O9: `OutputVariable.defuzzify` fills the defuzzified value in place (previous value, default value) after coercing it with a function that
    does not copy an array. That is only sound when every defuzzifier hands out a value of its own: a `defuzzify` that returns an object it (or its
    class, or its module) keeps - `return self.undefined` - gets that object rewritten by the cascade, for every variable and every later call.
    Every return value of every concrete defuzzifier must be the result of a computation (a call, an arithmetic expression) and not a stored object
    or a non-copying view of one. If the cascade copies the result itself the rule has nothing to demand."""
    p = check.program
    fn = p.func("OutputVariable.defuzzify")
    r0 = Resolver(p, fn)
    copied = False
    for n, c in r0.cfg.all_calls():
        t = r0.term(c, n)
        if t[0] == "call" and ((t[1][0] == "global" and t[1][1] in ("numpy.array", "numpy.copy", "copy.copy", "copy.deepcopy")) or (t[1][0] == "attr" and t[1][2] in ("copy", "astype"))) \
                and any(s_[0] == "call" and s_[1][0] == "attr" and s_[1][2] == "defuzzify" for s_ in walk(t)) and "copy=False" not in unparse(c).replace(" ", ""):
            copied = True
    if copied:
        check.ok(rule, "OutputVariable.defuzzify/own-copy", "the cascade works on a copy of the defuzzified value: what the defuzzifier keeps is never written", loc(fn))
        return

    def stored(t: Term, depth: int = 0) -> Term | None:
        """The stored object `t` is (or is a non-copying view of), if any."""
        t = strip(t)
        if t[0] == "attr" and (t[1] == SELF or t[1][0] == "global" or (t[1][0] == "call" and t[1][1] == ("global", "type"))):
            return t
        if t[0] == "attr" and stored(t[1], depth + 1) is not None and t[2] in ("T", "real", "flat"):
            return stored(t[1], depth + 1)
        if t[0] == "global" and "." in t[1] and t[1].split(".")[0] == p.package and t[1].rsplit(".", 1)[0] in p.modules and t[1] not in p.functions and \
                t[1].rsplit(".", 1)[1] not in ("nan", "inf"):
            name = t[1].rsplit(".", 1)[1]
            mod = p.modules[t[1].rsplit(".", 1)[0]]
            if name in getattr(mod, "globals", {}) or name in getattr(mod, "assigned", {}):
                return t
            return None
        if t[0] == "phi":
            for a in t[1]:
                s_ = stored(a, depth + 1)
                if s_ is not None:
                    return s_
            return None
        if t[0] == "ifexp":
            return stored(t[2], depth + 1) or stored(t[3], depth + 1)
        if t[0] == "call" and t[1][0] == "global" and t[1][1] in NON_COPYING and t[2]:
            return stored(t[2][0], depth + 1)
        if t[0] == "call" and t[1][0] == "attr" and t[1][2] in ("squeeze", "ravel", "reshape", "view", "transpose") :
            return stored(t[1][1], depth + 1)
        if t[0] == "sub":
            return stored(t[1], depth + 1)
        if t[0] == "call" and t[1][0] == "attr" and t[1][1] == SELF and depth < 3 and current[0] is not None:
            # a helper method of the defuzzifier: what it returns is what is handed out
            helper = current[0].lookup(t[1][2])
            if helper is not None and helper.name != "defuzzify":
                rh = Resolver(p, helper)
                for n_ in rh.cfg.stmt_nodes():
                    if isinstance(n_.ast, ast.Return) and n_.ast.value is not None:
                        s_ = stored(rh.term(n_.ast.value, n_), depth + 1)
                        if s_ is not None:
                            return s_
        return None

    current: list = [None]

    def immutable_attr(c, name: str) -> bool:  # type: ignore[no-untyped-def]
        """Every value the classes of `c` give the attribute is a Python number / None / string: nothing that can be written in place."""
        rhs: list[ast.AST] = []
        for k in c.mro:
            node = k.class_attrs.get(name)
            if node is not None:
                rhs.append(node)
            for m in k.methods.values():
                for a in ast.walk(m.node):
                    tg = a.targets if isinstance(a, ast.Assign) else [a.target] if isinstance(a, (ast.AnnAssign, ast.AugAssign)) else []
                    if any(isinstance(t_, ast.Attribute) and t_.attr == name and isinstance(t_.value, ast.Name) and t_.value.id in ("self", "cls") for t_ in tg) and a.value is not None:
                        rhs.append(a.value)

        def plain(v: ast.AST) -> bool:
            if isinstance(v, ast.Constant):
                return True
            if isinstance(v, ast.UnaryOp):
                return plain(v.operand)
            if isinstance(v, ast.Name) and v.id in ("nan", "inf"):
                return True
            if isinstance(v, ast.Attribute) and unparse(v) in ("math.nan", "math.inf", "np.nan", "np.inf", "numpy.nan", "numpy.inf"):
                return True
            if isinstance(v, ast.Call) and isinstance(v.func, ast.Name) and v.func.id in ("float", "int", "str", "bool") :
                return True
            return False

        return bool(rhs) and all(plain(v) for v in rhs)

    seen = set()
    n_ret = 0
    for c in p.subclasses("Defuzzifier", concrete_only=True):
        f = c.lookup("defuzzify")
        if f is None or f.qualname in seen:
            continue
        seen.add(f.qualname)
        check.analysed(f)
        r = Resolver(p, f)
        hit = None
        current[0] = c
        for n in r.cfg.stmt_nodes():
            if isinstance(n.ast, ast.Return) and n.ast.value is not None:
                n_ret += 1
                s_ = stored(r.term(n.ast.value, n))
                if s_ is not None and s_[0] == "attr" and s_[1] == SELF and immutable_attr(c, s_[2]):
                    s_ = None  # a Python number kept by the defuzzifier: the cascade's coercion makes a new array of it
                if s_ is not None and hit is None:
                    hit = (n, s_)
        check.require(hit is None, rule, f"{f.qualname}/fresh-result",
                      "every value returned is computed for this call (nothing the defuzzifier keeps is handed out)" if hit is None else
                      f"returns the stored object `{show(hit[1])}` (or a non-copying view of it): OutputVariable.defuzzify fills the previous / default value into the returned "
                      "array in place, so the stored object is rewritten and every later call and every other variable sees the filled value instead of NaN",
                      loc(f, hit[0]) if hit else loc(f))
    if n_ret == 0:
        raise AnalysisError("O9: no return statement found in any defuzzifier")


def cascade(check: Check) -> None:
    """Rules on OutputVariable.defuzzify (O1-O6)."""
    p = check.program
    fn = p.func("OutputVariable.defuzzify")
    check.analysed(fn)
    r = Resolver(p, fn)
    cfg = r.cfg

    dcalls = [(n, c) for n, c in cfg.find_calls(".defuzzify") if path_of(r.term(c.func.value, n)) == "self.defuzzifier"]  # type: ignore[union-attr]
    if len(dcalls) != 1:
        raise AnalysisError(f"OutputVariable.defuzzify: expected one call self.defuzzifier.defuzzify(...), found {len(dcalls)}")
    dn, dc = dcalls[0]
    dterm = r.term(dc, dn)

    def is_result(t: Term) -> bool:
        """The defuzzified value (or an nditer element aliasing it)."""
        t = strip(t)
        if t == dterm:
            return True
        if t[0] == "elem" and t[1][0] == "with" and t[1][1][0] == "call" and t[1][1][1] == ("global", "numpy.nditer"):
            return bool(t[1][1][2]) and is_result(t[1][1][2][0])
        if t[0] == "phi":
            return any(is_result(a_) for a_ in t[1])
        if t[0] == "ifexp":
            return is_result(t[2]) or is_result(t[3])
        if t[0] == "call" and t[1][0] == "global" and t[1][1] in ("numpy.where", "numpy.nan_to_num", "numpy.clip", "numpy.copy"):
            return any(s_ == dterm for s_ in walk(t))
        return False

    # effects: stores to self.<attr>, in-place writes into the result
    self_stores = [(n, t.attr) for n in cfg.stmt_nodes() for t in cfg.stores_at(n)
                   if isinstance(t, ast.Attribute) and r.term(t.value, n) == SELF]
    inplace = [(n, t) for n in cfg.stmt_nodes() for t in cfg.stores_at(n)
               if isinstance(t, ast.Subscript) and is_result(r.term(t.value, n))]
    other_sub = [(n, t) for n in cfg.stmt_nodes() for t in cfg.stores_at(n)
                 if isinstance(t, ast.Subscript) and not is_result(r.term(t.value, n))]
    effects = [n for n, _ in self_stores] + [n for n, _ in inplace] + [n for n, _ in other_sub]
    mutating_calls = [n for n, c in cfg.all_calls() if isinstance(c.func, ast.Attribute) and
                      c.func.attr in ("clear", "append", "extend", "pop", "remove", "insert", "update", "sort") and
                      (path_of(r.term(c.func.value, n)) or "").startswith("self.")]
    effects += mutating_calls

    # O1 disabled => untouched
    def classify(t: Term, e):
        pth = path_of(t)
        if pth == "self.enabled":
            return "enabled"
        if pth == "self.lock_previous":
            return "lock_previous"
        if pth == "self.defuzzifier":
            return "has_defuzzifier"
        if t[0] == "call" and t[1] == ("global", "numpy.isnan") and len(t[2]) == 1:
            a = t[2][0]
            if path_of(a) == "self.default_value":
                return "default_is_nan"
            if is_result(a) and strip(a)[0] == "elem":
                return "elem_is_nan"
        return None

    ev = RoleEval(r, classify)
    start = [s for s, _ in cfg.entry.succ][0]
    may, _ = simulate(cfg, start, ev, {"enabled": False, "has_defuzzifier": True, "lock_previous": True, "default_is_nan": False, "elem_is_nan": True},
                      set(effects) | {dn}, set())
    check.require(not may, "O1", "OutputVariable.defuzzify/disabled",
                  "a disabled variable executes neither the defuzzifier nor any write"
                  if not may else f"with enabled=False the statements at lines {sorted(n.lineno for n in may)} still execute",
                  loc(fn), exhaustive=True, cases=1)

    # O2 defuzzifier call precedes every effect
    late = [n for n in effects if not cfg.must_precede([dn], n)]
    check.require(not late, "O2", "OutputVariable.defuzzify/atomic",
                  "the defuzzifier is called before every write to the variable, so an exception leaves value, "
                  "previous value and fuzzy output unchanged" if not late else
                  f"writes at lines {sorted(n.lineno for n in late)} can execute before the defuzzifier call (line {dn.lineno})",
                  loc(fn, late[0] if late else dn))

    # O3 previous value capture
    prevs = [n for n, a in self_stores if a == "previous_value"]
    commits = [n for n, a in self_stores if a in ("value", "_value")]
    if not commits:
        check.violation("O6", "OutputVariable.defuzzify/commit", "the defuzzified value is never stored", loc(fn))
        return
    cn = commits[-1]
    check.require(len(prevs) == 1, "O3", "OutputVariable.defuzzify/previous-once",
                  f"previous_value is written exactly once per call (found {len(prevs)})", loc(fn, prevs[0] if prevs else fn.node))
    if prevs:
        pn = prevs[0]
        pt = r.term(pn.ast.value, pn)  # type: ignore[union-attr]
        reads_old = any(path_of(s) in ("self.value", "self._value") for s in walk(pt))
        before_commit = all(cfg.must_precede([pn], c) and pn not in cfg.reach([s for s, _ in c.succ]) for c in commits)
        check.require(reads_old and before_commit, "O3", "OutputVariable.defuzzify/previous-capture",
                      "previous_value is computed from the value held before the call and stored before the commit"
                      if reads_old and before_commit else
                      ("previous_value does not read self.value" if not reads_old else "previous_value is captured after the commit"),
                      loc(fn, pn), {"expr": show(pt)})

    # O4 / O5 fill blocks: every change of the result after the defuzzifier call (rebinding or in-place)
    res_names = {d.name for d in cfg.defs_at(dn)}
    updates: list[tuple] = []
    for n in cfg.stmt_nodes():
        if n is dn or n.copy:
            continue
        for d in cfg.defs_at(n):
            if d.name in res_names and d.kind in ("value", "aug", "walrus"):
                updates.append((n, "rebind", None))
        for t in cfg.stores_at(n):
            if isinstance(t, ast.Subscript) and is_result(r.term(t.value, n)):
                updates.append((n, "inplace", t))
    lock_writes, default_writes, unguarded = [], [], []
    for n, how, t in updates:
        gs = [(r.term(g, gn), pol) for g, pol, gn in cfg.must_guards(n)]
        under_lock = any(pol and path_of(gt) == "self.lock_previous" for gt, pol in gs)
        under_default = any(any(path_of(s_) == "self.default_value" for s_ in walk(gt)) for gt, pol in gs)
        (lock_writes if under_lock else default_writes if under_default else unguarded).append((n, how, t))
    check.require(bool(lock_writes) and bool(default_writes) and not unguarded, "O4", "OutputVariable.defuzzify/blocks",
                  "after defuzzification the result is changed only by a block guarded by lock_previous and a block guarded by default_value"
                  if lock_writes and default_writes and not unguarded else
                  ("lock_previous has no effect on the result" if not lock_writes else "default_value has no effect on the result" if not default_writes
                   else f"the result is also changed unconditionally at lines {sorted(n.lineno for n, _, _ in unguarded)}"), loc(fn))
    if lock_writes and default_writes:
        order_ok = all(ln not in cfg.reach([s for s, _ in dn_.succ]) for ln, _, _ in lock_writes for dn_, _, _ in default_writes)
        commit_last = all(cn in cfg.reach([s for s, _ in n.succ]) and n not in cfg.reach([s for s, _ in cn.succ])
                          for n, _, _ in lock_writes + default_writes)
        check.require(order_ok, "O4", "OutputVariable.defuzzify/order",
                      "the lock-previous fill runs before the default-value fill", loc(fn, default_writes[0][0]))
        check.require(commit_last, "O4", "OutputVariable.defuzzify/commit-last",
                      "both fills run before the value is committed", loc(fn, cn))
        # default block: exactly the NaN entries become default_value, iff default_value is not NaN
        n, how, t = default_writes[0]
        if how == "inplace":
            idx = r.term(t.slice, n)
            rhs = r.term(n.ast.value, n)  # type: ignore[union-attr]
            idx_ok = idx[0] == "call" and idx[1] == ("global", "numpy.isnan") and len(idx[2]) == 1 and is_result(idx[2][0])
            rhs_ok = path_of(rhs) == "self.default_value"
            shown = f"index={show(idx)} value={show(rhs)}"
        else:
            v = r.term(n.ast.value, n)  # type: ignore[union-attr]
            idx_ok = rhs_ok = False
            if v[0] == "call" and v[1] == ("global", "numpy.where") and len(v[2]) == 3:
                c_, a_, b_ = v[2]
                idx_ok = c_[0] == "call" and c_[1] == ("global", "numpy.isnan") and is_result(c_[2][0]) and is_result(b_)
                rhs_ok = path_of(a_) == "self.default_value"
            elif v[0] == "call" and v[1] == ("global", "numpy.nan_to_num") and v[2] and is_result(v[2][0]):
                kw = dict(v[3])
                idx_ok = set(kw) == {"nan"}
                rhs_ok = path_of(kw.get("nan", ("const", None))) == "self.default_value"
            shown = f"value={show(v)[:160]}"
        rows = 0
        bad = []
        for dnan in (True, False):
            env = {"enabled": True, "has_defuzzifier": True, "lock_previous": False, "default_is_nan": dnan, "elem_is_nan": False}
            may, must = simulate(cfg, start, ev, env, {n}, set())
            rows += 1
            if (n in must) != (not dnan) or (n in may) != (n in must):
                bad.append(env)
        check.require(idx_ok and rhs_ok and not bad, "O5", "OutputVariable.defuzzify/default-fill",
                      "exactly the NaN entries of the result are replaced by default_value, iff default_value is not NaN"
                      if idx_ok and rhs_ok and not bad else f"{shown} guard-disagreements={bad}",
                      loc(fn, n), exhaustive=True, cases=rows)
        lock_fill(check, fn, r, cfg, ev, is_result, lock_writes, prevs, "O5")

    # O6 commit through the property, value = the (filled) result
    tgt = [t for t in cfg.stores_at(cn) if isinstance(t, ast.Attribute)][0]
    ct = r.term(cn.ast.value, cn)  # type: ignore[union-attr]
    check.require(tgt.attr == "value" and is_result(ct), "O6", "OutputVariable.defuzzify/commit",
                  "the result is committed by assigning the property `self.value` (clipping setter)"
                  if tgt.attr == "value" and is_result(ct) else f"commit assigns self.{tgt.attr} = {show(ct)}", loc(fn, cn))


def lock_fill(check: Check, fn, r: Resolver, cfg, ev, is_result, lock_writes, prevs, rule: str) -> None:
    """The lock-previous block: fill forward along the batch (shared by C12/O5 and C02/V4)."""
    from .common import body_entry

    inloop = [(n, how, t) for n, how, t in lock_writes if how == "inplace" and cfg.enclosing_loops(n)]
    if not inloop:
        # no loop: is there a scan (ufunc.accumulate / cumulative index trick)? otherwise a fill-forward is impossible
        scans = []
        for n, how, t in lock_writes:
            for e in cfg.exprs_of(n):
                for x in ast.walk(e):
                    if isinstance(x, ast.Attribute) and x.attr in ("accumulate", "cummax", "ffill", "reduceat"):
                        scans.append(n)
        if scans:
            raise AnalysisError("OutputVariable.defuzzify: a vectorised fill-forward (accumulate idiom) is not modelled by this rule")
        n = lock_writes[0][0]
        check.violation(rule, "OutputVariable.defuzzify/lock-fill",
                        "the lock-previous block neither carries a value from row to row nor scans the batch: each NaN row can only take a "
                        "value at a fixed offset, so the second NaN of a run is not replaced by the most recent value (a batch differs from "
                        "row-by-row processing)", loc(fn, n), {"expr": unparse(n.ast)[:200]})
        return
    n, how, t = inloop[0]
    head = cfg.enclosing_loops(n)[-1]
    elem = r.term(head.ast.target, body_entry(head))  # type: ignore[union-attr]
    over_result = is_result(elem)
    filler = r.term(n.ast.value, n)  # type: ignore[union-attr]
    alts = set(filler[1]) if filler[0] == "phi" else {filler}
    seeded = any(path_of(strip(a)) == "self.previous_value" for a in alts)
    carried = any(strip(a) == elem for a in alts)
    extra = [a for a in alts if path_of(strip(a)) != "self.previous_value" and strip(a) != elem and a[0] != "carried"]
    updates = [m for m in cfg.loop_body(head) if m.kind == "stmt" and isinstance(m.ast, ast.Assign) and
               isinstance(n.ast.value, ast.Name) and any(isinstance(tg, ast.Name) and tg.id == n.ast.value.id for tg in m.ast.targets)]  # type: ignore[union-attr]
    bad = []
    rows = 0
    for isn in (True, False):
        env = {"enabled": True, "has_defuzzifier": True, "lock_previous": True, "default_is_nan": True, "elem_is_nan": isn}
        outside = {m for m in cfg.nodes if m not in cfg.loop_body(head)}
        may, must = simulate(cfg, body_entry(head), ev, env, {n} | set(updates), outside)
        rows += 1
        if (n in must) != isn or (n in may) != isn:
            bad.append(("write", env))
        if any((u in must) != (not isn) or (u in may) != (not isn) for u in updates):
            bad.append(("carry", env))
    ok = over_result and seeded and carried and not extra and bool(updates) and not bad
    check.require(ok, rule, "OutputVariable.defuzzify/lock-fill",
                  "NaN entries are replaced by a filler that starts as the just-recorded previous value and is "
                  "updated by every non-NaN entry (fill forward)" if ok else
                  f"over_result={over_result} seeded_from_previous={seeded} carried_update={carried and bool(updates)} "
                  f"other_sources={[show(a) for a in extra]} guard-disagreements={bad}",
                  loc(fn, n), {"filler": show(filler)}, exhaustive=True, cases=rows)
    if prevs:
        check.require(cfg.must_precede([prevs[0]], head), rule, "OutputVariable.defuzzify/seed-after-capture",
                      "the filler is seeded after previous_value has been recorded", loc(fn, head))


def body0(head):
    from .common import body_entry

    return body_entry(head)


NP_NAMES = ("asarray", "array", "atleast_1d", "asanyarray", "take", "astype", "copy", "squeeze", "isnan", "isfinite", "isinf", "nditer", "clip", "minimum", "maximum", "fmin",
            "fmax", "where", "full_like", "min", "max", "amin", "amax", "nanmin", "nanmax", "any", "all", "ndim", "size", "isscalar")


def setter(check: Check) -> None:
    """O6: the `value` setter interpreted (sa/absexec.py) on arrays of abstract elements: with lock_range every element that is not NaN is stored
    clipped to [minimum, maximum] (for the four kinds of range: bounded, bounded below, bounded above, unbounded - where clipping is the identity),
    without it the value is stored as it is."""
    from ..absexec import AbsExec, Closure, Internal, MObj, Opaque, Raised, Unknown
    from .common import static_resolver

    p = check.program
    ov = p.cls("OutputVariable")
    fn = ov.lookup_setter("value")
    if fn is None:
        raise AnalysisError("anchor vanished: Variable.value setter")
    check.analysed(fn)
    am = array_model(fn.qualname)
    bad: dict[str, str] = {}
    cases = 0
    try:
        for lock in (True, False):
            for bounds in [(0.0, 1.0), (0.0, float("inf")), (float("-inf"), 1.0), (float("-inf"), float("inf"))]:
                for items, zero_d in (([0.25], True), ([2.0], True), ([-1.0], True), ([NAN], True), ([0.25, NAN, 2.0], False), ([-1.0, 0.5], False), ([0.25, 0.5], False),
                                      ([NAN, NAN], False), ([2.0, NAN, -1.0], False), ("plain", 0.25), ("plain", 2.0), ("plain", -1.0), ("plain", float("nan")),
                                      ("plain", 1)):
                    cases += 1
                    obj = MObj("OutputVariable", {"lock_range": lock, "minimum": bounds[0], "maximum": bounds[1], "_value": am.Arr([NAN], True), "name": Opaque("name")})
                    hooks = {"setitem": am.setitem, "scalar": lambda ex_, e, args, kw: am.as_arr(args[0]), "array": lambda ex_, e, args, kw: am.as_arr(args[0]),
                             "compare": am.compare, "truth": am.truth, "instance-of": am.instance_of, "builtin:min": am.minmax("min"), "builtin:max": am.minmax("max")}
                    for nm in NP_NAMES:
                        hooks[f"method:{nm}"] = am.np_call(nm)
                    ex = AbsExec(fn.qualname, hooks, helpers={k: v for k, v in fn.cls.methods.items() if k.startswith("_") and not k.startswith("__")})
                    ex.static_resolver = static_resolver(p)
                    ex.globals = {"np": Opaque("np"), "nan": NAN}
                    plain = items == "plain"
                    handed = zero_d if plain else am.Arr(list(items), zero_d)
                    if plain:
                        items = [am.mark(zero_d)]
                    what = f"lock_range={lock}, range [{bounds[0]}, {bounds[1]}], value {('the plain number ' + str(handed)) if plain else (items[0] if zero_d else items)}"
                    try:
                        ex.call_closure(Closure(fn.node, {}), [obj, handed], {}, fn.node)
                    except (Raised, Internal) as err:
                        bad.setdefault("lock-range" if lock else "no-lock", f"{what}: the setter ends with {err.cls}")
                        continue
                    got = obj.fields["_value"]
                    got_items = list(got.items) if isinstance(got, am.Arr) else [am.mark(got)]
                    want = [am.clipped(x, bounds[0], bounds[1]) for x in items] if lock else list(items)
                    if got_items != want:
                        bad.setdefault("lock-range" if lock else "no-lock", f"{what}: the stored value is {got_items}, specified {want}")
    except Unknown as u:
        raise AnalysisError(str(u)) from None
    check.require("lock-range" not in bad, "O6", "Variable.value.setter/lock-range", f"with lock_range the stored value is the value clipped to [minimum, maximum], NaN kept "
                  f"({cases} cases)" if "lock-range" not in bad else bad["lock-range"], loc(fn), exhaustive=True, cases=cases)
    check.require("no-lock" not in bad, "O6", "Variable.value.setter/no-lock", "without lock_range the value is stored unchanged" if "no-lock" not in bad else bad["no-lock"],
                  loc(fn), exhaustive=True, cases=cases)


def clear(check: Check) -> None:
    from .common import self_effects

    p = check.program
    fn = p.func("OutputVariable.clear")
    check.analysed(fn)
    eff = self_effects(p, fn)
    r = Resolver(p, fn)
    cfg = r.cfg
    fuzzy_cleared = any(v[0] == "call" and v[1] == ("const", "clear") for v in eff.get("fuzzy", []) + eff.get("fuzzy.terms", []))
    uncond = all(not cfg.must_guards(n) for n in cfg.stmt_nodes())
    isnan = lambda v: isinstance(v, float) and v != v  # noqa: E731

    def last_is_nan(attrs) -> bool:
        vals = [v for a_ in attrs for v in eff.get(a_, [])]
        return bool(vals) and all(isnan(const_value(v)) for v in vals)

    check.require(fuzzy_cleared and uncond, "O8", "OutputVariable.clear/fuzzy", "clear() empties the fuzzy output", loc(fn))
    check.require(last_is_nan(["previous_value"]), "O8", "OutputVariable.clear/previous", "clear() resets previous_value to NaN", loc(fn))
    check.require(last_is_nan(["value", "_value"]), "O8", "OutputVariable.clear/value", "clear() resets value to NaN", loc(fn))


# ------------------------------------------------------------------------------------------------ O-sem
NAN = "nan"
VALUES = (0.25, 2.0, -1.0, 0.5, 1.5, -0.5)  # inside, above, below the range [0, 1]
DEFAULT = 3.0  # a default value outside [0, 1], so that clipping it is visible


def array_model(qual: str):  # type: ignore[no-untyped-def]
    """The model of numpy arrays the interpretations of this module share: arrays whose elements are the marker NAN or distinct numbers chosen below,
    inside and above the range, so that clipping, NaN-propagating / NaN-ignoring reductions and elementwise comparisons have their numpy meaning."""
    from types import SimpleNamespace

    from ..absexec import Unknown

    class Arr:
        """An array of abstract elements (0-d when `zero_d`)."""

        def __init__(self, items: list, zero_d: bool = False):
            self.items = list(items)
            self.zero_d = zero_d

        def __repr__(self) -> str:
            return (str(self.items[0]) if self.zero_d else str(self.items))

    class Ref:
        def __init__(self, arr: Arr, i: int):
            self.arr, self.i = arr, i

    def mark(x):  # type: ignore[no-untyped-def]
        return NAN if isinstance(x, float) and x != x else x  # a plain Python NaN is the same element as the marker

    def elems(v):  # type: ignore[no-untyped-def]
        if isinstance(v, Arr):
            return list(v.items)
        if isinstance(v, Ref):
            return [v.arr.items[v.i]]
        return [mark(v)]

    def as_arr(v) -> Arr:  # type: ignore[no-untyped-def]
        if isinstance(v, Arr):
            return v
        if isinstance(v, Ref):
            return Arr([v.arr.items[v.i]], True)
        return Arr([mark(v)], True)

    def instance_of(ex_, v, c):  # type: ignore[no-untyped-def]
        if isinstance(v, (Arr, Ref)):
            return False  # an array is neither an int nor a float
        cs = c if isinstance(c, tuple) and c and isinstance(c[0], tuple) else (c,)
        names = {x[1] for x in cs if isinstance(x, tuple) and len(x) == 2 and x[0] == "builtin"}
        if isinstance(v, (int, float)) and not isinstance(v, bool) and names and len(names) == len(cs):
            return ("float" in names and isinstance(v, float)) or ("int" in names and isinstance(v, int))
        return NotImplemented

    def clipped(x, lo_, hi_):  # type: ignore[no-untyped-def]
        """An element limited to [lo_, hi_]: NaN stays NaN (elements are the marker NAN or numbers)."""
        if x == NAN:
            return x
        if not isinstance(lo_, (int, float)) or not isinstance(hi_, (int, float)) or not isinstance(x, (int, float)):
            raise Unknown(f"{qual}: clipping something other than numbers to the bounds of the range is outside the model of the cascade")
        return min(max(x, lo_), hi_)

    def reduce_(name: str, v):  # type: ignore[no-untyped-def]
        xs = elems(v)
        nums = [x for x in xs if x != NAN]
        if name in ("min", "max", "amin", "amax"):
            if len(nums) != len(xs) or not nums:
                return NAN  # NaN propagates through np.min / np.max
            return min(nums) if name in ("min", "amin") else max(nums)
        if not nums:
            return NAN
        return min(nums) if name == "nanmin" else max(nums)

    def compare(ex_, op: str, a, b):  # type: ignore[no-untyped-def]
        """Comparisons with arrays are elementwise; every comparison with NaN is false, except !=."""
        def one(x, y) -> bool:  # type: ignore[no-untyped-def]
            if x == NAN or y == NAN:
                return op == "!="
            return {"<": x < y, "<=": x <= y, ">": x > y, ">=": x >= y, "==": x == y, "!=": x != y}[op]

        if not isinstance(a, (Arr, Ref)) and not isinstance(b, (Arr, Ref)) and a != NAN and b != NAN:
            return NotImplemented
        ea, eb = elems(a), elems(b)
        n_ = max(len(ea), len(eb))
        out = [one(ea[i if len(ea) > 1 else 0], eb[i if len(eb) > 1 else 0]) for i in range(n_)]
        whole = (isinstance(a, Arr) and not a.zero_d) or (isinstance(b, Arr) and not b.zero_d)
        return Arr(out) if whole else out[0]

    def truth(ex_, v):  # type: ignore[no-untyped-def]
        if isinstance(v, (Arr, Ref)):
            xs = elems(v)
            if len(xs) != 1:
                from ..absexec import Raised

                raise Raised("ValueError", None)  # the truth value of an array with more than one element is ambiguous
            return xs[0] == NAN or bool(xs[0])
        if v == NAN:
            return True
        return NotImplemented

    def minmax(name: str):
        """Python's own min(a, b, ...) / max(a, b, ...) on model values: the first argument is kept unless a later one compares smaller / larger
        (so a NaN first argument stays and a NaN later argument is skipped); a comparison with a multi-element array has no truth value."""
        def f(ex_, e, args):
            if not any(isinstance(a, (Arr, Ref)) or a == NAN for a in args) or len(args) < 2:
                return NotImplemented
            best = args[0]
            for x in args[1:]:
                c = compare(ex_, "<" if name == "min" else ">", x, best)
                if c is NotImplemented:
                    c = (x < best) if name == "min" else (x > best)
                t = truth(ex_, c) if isinstance(c, (Arr, Ref)) else bool(c)
                if t:
                    best = x
            return best
        return f

    def np_call(name: str):
        def f(ex_, e, recv, args, kw):
            if name in ("asarray", "array", "atleast_1d", "scalar", "asanyarray"):
                return as_arr(args[0])
            if name in ("ndim", "size", "isscalar"):
                v = args[0] if args else recv
                if name == "isscalar":
                    return not isinstance(v, Arr)
                if name == "ndim":
                    return 1 if isinstance(v, Arr) and not v.zero_d else 0
                return len(v.items) if isinstance(v, Arr) else 1
            if name == "take":
                a = as_arr(args[0] if args else kw.get("a"))
                idx_ = args[1] if len(args) > 1 else kw.get("indices")
                if not isinstance(idx_, int) or not -len(a.items) <= idx_ < len(a.items):
                    raise Unknown(f"{qual}: numpy.take with this index is outside the model of the cascade")
                return Arr([a.items[idx_]], True)
            if name in ("astype", "copy", "squeeze"):
                return Arr(list(recv.items), recv.zero_d) if isinstance(recv, Arr) else recv
            if name == "isnan":
                v = args[0]
                if isinstance(v, Arr) and not v.zero_d:
                    return Arr([x == NAN for x in v.items])
                return elems(v)[0] == NAN
            if name == "isfinite":
                v = args[0]
                fin = lambda x: (x == x and abs(x) != float("inf")) if isinstance(x, float) else x != NAN  # noqa: E731
                if isinstance(v, Arr) and not v.zero_d:
                    return Arr([fin(x) for x in v.items])
                return fin(elems(v)[0])
            if name == "isinf":
                v = args[0]
                inf_ = lambda x: isinstance(x, float) and abs(x) == float("inf")  # noqa: E731
                if isinstance(v, Arr) and not v.zero_d:
                    return Arr([inf_(x) for x in v.items])
                return inf_(elems(v)[0])
            if name in ("min", "max", "amin", "amax", "nanmin", "nanmax"):
                return reduce_(name, args[0] if args else recv)
            if name in ("any", "all"):
                xs = elems(args[0] if args else recv)
                return (any if name == "any" else all)(x == NAN or bool(x) for x in xs)
            if name == "nditer":
                return ("nditer", as_arr(args[0]))
            if name in ("clip", "minimum", "maximum", "fmin", "fmax"):
                a = as_arr(args[0])
                if name == "clip":
                    lo_, hi_ = (list(args[1:3]) + [kw.get("a_min", kw.get("min")), kw.get("a_max", kw.get("max"))])[:2] if len(args) >= 3 else \
                        (kw.get("a_min", kw.get("min", args[1] if len(args) > 1 else None)), kw.get("a_max", kw.get("max")))
                    return Arr([clipped(x, lo_, hi_) for x in a.items], a.zero_d)
                other = elems(args[1])[0]
                return Arr([clipped(x, other if name in ("maximum", "fmax") else float("-inf"), other if name in ("minimum", "fmin") else float("inf")) for x in a.items], a.zero_d)
            if name == "where" and len(args) == 3:
                m, a, b = as_arr(args[0]), as_arr(args[1]), as_arr(args[2])
                n_ = max(len(m.items), len(a.items), len(b.items))
                pick = lambda arr, i: arr.items[i if len(arr.items) > 1 else 0]  # noqa: E731
                return Arr([pick(a, i) if pick(m, i) else pick(b, i) for i in range(n_)], n_ == 1 and m.zero_d and a.zero_d and b.zero_d)
            if name == "full_like":
                a = as_arr(args[0])
                return Arr([elems(args[1])[0]] * len(a.items), a.zero_d)
            raise Unknown(f"{qual}: numpy.{name} is outside the model of the cascade")
        return f

    def setitem(ex_, e, base, idx, v):
        val = elems(v)
        if isinstance(base, Ref):
            base.arr.items[base.i] = val[0]
            return
        if isinstance(base, Arr) and isinstance(idx, Arr):  # boolean mask
            for i, m in enumerate(idx.items if len(idx.items) == len(base.items) else idx.items * len(base.items)):
                if m:
                    base.items[i] = val[0] if len(val) == 1 else val[i]
            return
        if isinstance(base, Arr) and isinstance(idx, bool):  # 0-d array indexed with a 0-d boolean
            if idx:
                base.items[:] = [val[0]] * len(base.items)
            return
        if isinstance(base, Arr) and idx is Ellipsis:
            base.items[:] = val * len(base.items) if len(val) == 1 else val
            return
        raise Unknown(f"{qual}: this element assignment is outside the model of the cascade")

    return SimpleNamespace(Arr=Arr, Ref=Ref, elems=elems, as_arr=as_arr, clipped=clipped, np_call=np_call, setitem=setitem, compare=compare, truth=truth, instance_of=instance_of, mark=mark, minmax=minmax)


def cascade_semantics(check: Check) -> None:
    """O-sem [E up to the bound]: `OutputVariable.defuzzify` (with the `value` property setter it commits through) is interpreted
    abstractly (sa/absexec.py) on arrays of abstract elements - NaN or distinct symbols - for every sequence of two calls drawn from
    {a failing defuzzifier, the batches [nan], [a], [nan, a], [a, nan, nan], [nan, nan]}, from the cleared state, under all 16 settings
    of enabled x lock-previous x default (NaN / set) x lock-range. After every call value and previous value must be those of the
    statement: the defuzzified rows, NaN rows replaced by the most recent value when lock-previous is on (previous row of the batch,
    else the last value held before the call), then by the default when one is set, then clipped when lock-range is on; the
    previous value is the last value held before the call; a disabled variable and a failing defuzzifier leave everything as it was
    (and the failure reaches the caller)."""
    import itertools

    from ..absexec import AbsExec, Internal, MObj, Opaque, Raised, Unknown, _Return

    p = check.program
    fn = p.func("OutputVariable.defuzzify")
    check.analysed(fn)
    cls_var = p.cls("Variable")
    getter, setter = cls_var.lookup_getter("value"), cls_var.lookup_setter("value")
    if getter is None or setter is None:
        raise AnalysisError("anchor vanished: Variable.value property")
    check.analysed(setter)
    node = fn.analysis_node
    from .common import static_resolver

    resolver = static_resolver(p)

    am = array_model(fn.qualname)
    Arr, Ref, elems, as_arr, clipped, np_call, setitem = am.Arr, am.Ref, am.elems, am.as_arr, am.clipped, am.np_call, am.setitem

    def enter(ex_, e, ctx):
        return ctx

    batches = [None, (NAN,), ("a",), (NAN, "a"), ("a", NAN, NAN), (NAN, NAN)]
    bad: dict[str, str] = {}
    cases = 0

    def expected(state, batch, cfg, bounds):
        value, prev = state
        enabled, lockp, default, lockr = cfg
        if not enabled:
            return state, None
        if batch is None:
            return state, "ValueError"
        last = value[-1]
        out = []
        filler = last
        for d in batch:
            if lockp:
                if d == NAN:
                    out.append(filler)
                else:
                    out.append(d)
                    filler = d
            else:
                out.append(d)
        if default != NAN:
            out = [default if x == NAN else x for x in out]
        if lockr:
            out = [clipped(x, bounds[0], bounds[1]) for x in out]
        return (out, last), None

    try:
        for enabled, lockp, default, lockr in itertools.product((True, False), (True, False), (NAN, DEFAULT), (True, False)):
            cfg = (enabled, lockp, default, lockr)
            # the range matters only under lock-range: bounded, bounded on one side, unbounded
            ranges = [(0.0, 1.0), (0.0, float("inf")), (float("-inf"), 1.0), (float("-inf"), float("inf"))] if lockr else [(0.0, 1.0)]
            for bounds, seq in itertools.product(ranges, itertools.product(batches, repeat=2)):
                cases += 1
                obj = MObj("OutputVariable", {"enabled": enabled, "lock_previous": lockp, "default_value": default, "lock_range": lockr, "minimum": bounds[0], "maximum": bounds[1],
                                              "name": Opaque("name"), "fuzzy": MObj("Aggregated", {"terms": ["activation"]}), "previous_value": NAN,
                                              "_value": Arr([NAN], True)})
                state = ([NAN], NAN)
                script: list = []

                def defuzzify(ex_, e, recv, args, kw, script=script):
                    b = script[0]
                    if b is None:
                        raise Raised("ValueError", e)
                    return Arr(list(b), False) if len(b) > 1 else Arr(list(b), True)

                obj.fields["defuzzifier"] = MObj("Defuzzifier", {})
                hooks = {"method:defuzzify": defuzzify, "setitem": setitem, "enter": enter, "scalar": lambda ex_, e, args, kw: as_arr(args[0]),
                         "array": lambda ex_, e, args, kw: as_arr(args[0]), "compare": am.compare, "truth": am.truth,
                         "instance-of": am.instance_of, "builtin:min": am.minmax("min"), "builtin:max": am.minmax("max")}
                for nm in NP_NAMES:
                    hooks[f"method:{nm}"] = np_call(nm)
                ex = AbsExec(fn.qualname, hooks, helpers={k: v for k, v in fn.cls.methods.items() if k.startswith("_") and not k.startswith("__")})
                ex.properties[("OutputVariable", "value")] = (getter, setter)
                ex.static_resolver = resolver
                ex.iterate_hook = lambda v: [Ref(v[1], i) for i in range(len(v[1].items))] if isinstance(v, tuple) and v and v[0] == "nditer" else None  # type: ignore[attr-defined]
                k = 0
                position = 0
                for batch in seq:
                    k += 1
                    # distinct numbers, below / inside / above [0, 1] in turn, different from call to call
                    b = None if batch is None else tuple(x if x == NAN else VALUES[(position := position + 1) % len(VALUES)] + k / 64.0 for x in batch)
                    script[:] = [b]
                    env = {"self": obj, "np": Opaque("np"), "nan": NAN}
                    pv0 = obj.fields["previous_value"]
                    if not isinstance(obj.fields["_value"], Arr):
                        raise Unknown(f"{fn.qualname}: the value stored by the setter is outside the model of the cascade ({type(obj.fields['_value']).__name__})")
                    before = (list(obj.fields["_value"].items), pv0.items[0] if isinstance(pv0, Arr) else pv0, list(obj.fields["fuzzy"].fields["terms"]))
                    try:
                        ex.block(list(node.body), env)
                        outcome = None
                    except _Return:
                        outcome = None
                    except Raised as r_:
                        outcome = r_.cls
                    except Internal as i_:
                        outcome = f"internal {i_.cls} ({i_.why})"
                    state, want_exc = expected(state, b, cfg, bounds)
                    what = (f"enabled={enabled}, lock-previous={lockp}, default={'set' if default != NAN else 'nan'}, lock-range={lockr}"
                            + (f" with range [{bounds[0]}, {bounds[1]}]" if lockr else "") + f"; call {k} of "
                            f"{[('fails' if x is None else list(x)) for x in seq]}")
                    got_v = list(obj.fields["_value"].items) if isinstance(obj.fields["_value"], Arr) else [obj.fields["_value"]]
                    pv = obj.fields["previous_value"]
                    got_p = pv.items[0] if isinstance(pv, Arr) else pv
                    if outcome != want_exc:
                        bad.setdefault("failure" if want_exc or (outcome or "").startswith("ValueError") else "internal",
                                       f"{what}: " + (f"raises {outcome}" if outcome else "completes") + ", specified " + (f"to raise {want_exc}" if want_exc else "to complete"))
                        break
                    if not enabled or want_exc:
                        now = (got_v, got_p, list(obj.fields["fuzzy"].fields["terms"]))
                        if now != (before[0], before[1], before[2]):
                            bad.setdefault("untouched", f"{what}: value / previous value / fuzzy output change although the variable is disabled or the defuzzifier failed "
                                           f"({before[:2]} -> {now[:2]})")
                        continue
                    if got_v != state[0]:
                        kind = "lock-previous" if lockp and NAN in (b or ()) else ("default" if default != NAN and NAN in (b or ()) else ("lock-range" if lockr else "value"))
                        bad.setdefault(kind, f"{what}: the value becomes {got_v}, specified {state[0]}")
                    if got_p != state[1]:
                        bad.setdefault("previous", f"{what}: previous value is {got_p}, specified {state[1]} (the last value held before the call)")
    except Unknown as u:
        raise AnalysisError(str(u)) from None

    def verdict(construct: str, kinds: list[str], ok_text: str) -> None:
        hits = [bad[k_] for k_ in kinds if k_ in bad]
        check.require(not hits, "O-sem", f"OutputVariable.defuzzify/{construct}", ok_text if not hits else hits[0], loc(fn), {"cases": cases}, exhaustive=True, cases=cases)

    verdict("cascade", ["value", "lock-previous", "default", "lock-range"],
            f"value = defuzzified rows, NaN -> most recent value (lock-previous) -> default -> clipped (lock-range), over {cases} two-call sequences x settings")
    verdict("previous-value", ["previous"], "the recorded previous value is the last value held before the call")
    verdict("atomicity", ["untouched", "failure", "internal"], "a disabled variable and a failing defuzzifier leave value, previous value and fuzzy output unchanged; the failure "
            "reaches the caller")
