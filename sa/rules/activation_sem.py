"""A-sem: the seven `Activation.activate` methods interpreted on model rule blocks (C08).

The code of each `activate` is interpreted by sa/absexec.py on a rule block of N rules (N = 3 quick, 4 thorough). The methods
consult the activation degrees only through comparisons with each other, with zero and with the threshold (and, for Proportional,
through their sum), so a configuration is a weak order of (d_1 .. d_N, 0, threshold): every weak order is enumerated and realised
by two embeddings into dyadic rationals (spread over [0, 5/8], and crowded below 1), times loaded / unloaded flags, times the `rules`
parameter, times the six comparators. The rule objects are models that log what is done to them; the log is compared with the
definition of the property:

  - every rule is deactivated before anything else is done to it                                     (deactivate-first)
  - the degree of every loaded rule is computed exactly once, with the block's conjunction and disjunction; never of a rule
    that is not loaded                                                                                (degrees)
  - exactly the rules the definition selects are triggered, once, with the block's implication, holding the degree the
    definition gives them (their own; for Proportional their own divided by the sum of the positive ones)    (selection)
  - the method does not end with an exception of its own                                              (no-internal-error)

Nothing here looks at how the method is written: a heap, a sort, a counter or a second loop are all the same to it.
"""

from __future__ import annotations

import ast
import heapq
import itertools
import operator as _op
from typing import Any, Iterator

from ..absexec import AbsExec, Internal, MObj, Opaque, Raised, Unknown, _Return
from ..pm import AnalysisError
from ..report import Check
from .common import loc

COMPARATORS = {"<": _op.lt, "<=": _op.le, "==": _op.eq, "!=": _op.ne, ">=": _op.ge, ">": _op.gt}
STALE = 0.8125  # what a rule holds from an earlier activation


class Deg(float):
    """The activation degree of one rule: a number that remembers whose it is (whatever is computed from it is a plain number)."""
    index: int = -1

    @staticmethod
    def of(v: float, index: int) -> "Deg":
        d = Deg(v)
        d.index = index
        return d


def weak_orders(items: list[str]) -> Iterator[list[list[str]]]:
    """Every ordered partition of the items (ascending classes of equal items)."""
    if not items:
        yield []
        return
    first, rest = items[0], items[1:]
    for part in weak_orders(rest):
        for i in range(len(part)):
            yield part[:i] + [[first] + part[i]] + part[i + 1:]
        for i in range(len(part) + 1):
            yield part[:i] + [[first]] + part[i:]


def embeddings(order: list[list[str]]) -> list[dict[str, float]]:
    """Two realisations of a weak order that contains the item "0": dyadic values (sums and negations are exact)."""
    z = next(i for i, c in enumerate(order) if "0" in c)
    above = len(order) - 1 - z
    out = []
    for crowded in (False, True, "tiny"):
        val: dict[str, float] = {}
        for i, c in enumerate(order):
            k = i - z
            if k == 0:
                v = 0.0
            elif crowded == "tiny":
                v = k / 8192.0  # everything within the library's comparison tolerance of zero (and of each other): a tolerance test is not the exact one
            elif k > 0:
                v = 1.0 - (above - k) / 64.0 if crowded else k / 8.0
            else:
                v = k / 64.0 if crowded else k / 8.0
            for name in c:
                val[name] = v
        out.append(val)
    return out


class World:
    """One model rule block and the log of what is done to its rules."""

    def __init__(self, degrees: list[float], loaded: list[bool], enabled: list[bool] | None = None):
        enabled = enabled or [True] * len(loaded)
        self.log: list[tuple] = []
        self.conj, self.disj, self.impl = MObj("TNorm", {"name": "conjunction"}), MObj("SNorm", {"name": "disjunction"}), MObj("TNorm", {"name": "implication"})
        self.degrees = degrees
        self.rules = [MObj("Rule", {"index": i, "loaded": l, "activation_degree": STALE, "triggered": True, "enabled": enabled[i], "weight": 1.0}) for i, l in enumerate(loaded)]
        self.block = MObj("RuleBlock", {"name": "block", "rules": self.rules, "conjunction": self.conj, "disjunction": self.disj, "implication": self.impl,
                                        "enabled": True, "__len__": len(self.rules)})

    def hooks(self) -> dict[str, Any]:
        w = self

        def is_rule(recv: Any, e: Any, what: str) -> MObj:
            if not (isinstance(recv, MObj) and recv.cls == "Rule"):
                raise Unknown(f"`{what}` on something that is not a rule of the block")
            return recv

        def deactivate(ex, e, recv, args, kw):
            r = is_rule(recv, e, "deactivate")
            w.log.append(("deactivate", r.fields["index"]))
            r.fields["activation_degree"] = 0.0
            r.fields["triggered"] = False

        def is_loaded(ex, e, recv, args, kw):
            r = is_rule(recv, e, "is_loaded")
            w.log.append(("is_loaded", r.fields["index"]))
            return r.fields["loaded"]

        def activate_with(ex, e, recv, args, kw):
            r = is_rule(recv, e, "activate_with")
            a = list(args) + [None, None]
            c, d = kw.get("conjunction", a[0]), kw.get("disjunction", a[1])
            i = r.fields["index"]
            w.log.append(("activate_with", i, c is w.conj, d is w.disj))
            if not r.fields["loaded"]:
                raise Raised("RuntimeError", e)
            d = Deg.of(w.degrees[i], i)
            r.fields["activation_degree"] = d
            return d

        def trigger(ex, e, recv, args, kw):
            r = is_rule(recv, e, "trigger")
            impl = kw.get("implication", args[0] if args else None)
            w.log.append(("trigger", r.fields["index"], impl is w.impl, r.fields["activation_degree"]))
            d = r.fields["activation_degree"]
            r.fields["triggered"] = bool(r.fields["enabled"] and isinstance(d, (int, float)) and d > 0.0)  # what Rule.trigger leaves (U1)

        def assert_is_not_vector(ex, e, recv, args, kw):
            v = args[0] if args else kw.get("activation_degree")
            w.log.append(("assert", v.index if isinstance(v, Deg) else None))

        def use(ex, v):
            for x in (v if isinstance(v, (tuple, list)) else [v]):
                if isinstance(x, Deg):
                    w.log.append(("use", x.index))

        def is_close(ex, e, recv, args, kw):
            # Op.is_close(a, b): |a - b| <= atol + rtol * |b| with the library's default tolerances (1e-3, 0)
            a, b = args[0], args[1]
            if not all(isinstance(x, (int, float)) for x in (a, b)):
                raise Unknown("is_close on something that is not a pair of numbers")
            ex.used(a, b)
            return abs(a - b) <= 1e-3

        return {"method:deactivate": deactivate, "method:is_loaded": is_loaded, "method:activate_with": activate_with, "method:trigger": trigger,
                "method:assert_is_not_vector": assert_is_not_vector, "use": use, "method:is_close": is_close, "method:isclose": is_close}


def _heapq_ns(use: Any) -> MObj:
    def numbers(x: Any, e: Any) -> None:
        for v in (x if isinstance(x, (list, tuple)) else [x]):
            if isinstance(v, (list, tuple)):
                numbers(v, e)
            elif not isinstance(v, (int, float)):
                raise Internal("TypeError", "heap entries that are not numbers cannot be ordered", e)
            else:
                use(None, v)

    def heappush(ex, e, args, kw):
        numbers(args[1], e)
        heapq.heappush(args[0], args[1])

    def heappop(ex, e, args, kw):
        if not args[0]:
            raise Internal("IndexError", "heappop of an empty heap", e)
        return heapq.heappop(args[0])

    def heapify(ex, e, args, kw):
        numbers(args[0], e)
        heapq.heapify(args[0])

    def n_of(ex, e, args, kw, largest):
        n_, items = (list(args) + [kw.get("iterable")])[:2] if len(args) < 2 else args[:2]
        if not isinstance(n_, int) or isinstance(n_, bool):
            raise Internal("TypeError", "heapq.nlargest / nsmallest with a count that is not an integer", e)
        keyf = kw.get("key", args[2] if len(args) > 2 else None)
        ordered = ex.sort_values(list(items), keyf, largest, e)  # both are documented as sorted(iterable, key=key, reverse=largest)[:n]
        return ordered[:max(n_, 0)]

    def nsmallest(ex, e, args, kw):
        return n_of(ex, e, args, kw, False)

    def nlargest(ex, e, args, kw):
        return n_of(ex, e, args, kw, True)

    def heappushpop(ex, e, args, kw):
        numbers(args[1], e)
        return heapq.heappushpop(args[0], args[1])

    def heapreplace(ex, e, args, kw):
        numbers(args[1], e)
        if not args[0]:
            raise Internal("IndexError", "heapreplace on an empty heap", e)
        return heapq.heapreplace(args[0], args[1])

    return MObj("module", {"heapreplace": heapreplace, "heappush": heappush, "heappop": heappop, "heapify": heapify, "nsmallest": nsmallest, "nlargest": nlargest, "heappushpop": heappushpop})


def _expected(cls: str, degrees: list[float], loaded: list[bool], n: int, t: float, cmp: str) -> dict[int, float]:
    """The definition: which rules are triggered, and the degree each holds when it is."""
    idx = [i for i in range(len(degrees)) if loaded[i]]
    if cls == "General":
        return {i: degrees[i] for i in idx}
    if cls in ("First", "Last"):
        seq = idx if cls == "First" else list(reversed(idx))
        chosen = [i for i in seq if degrees[i] > 0.0 and degrees[i] >= t][:max(n, 0)]
        return {i: degrees[i] for i in chosen}
    if cls in ("Highest", "Lowest"):
        pos = [i for i in idx if degrees[i] > 0.0]
        pos.sort(key=(lambda i: (-degrees[i], i)) if cls == "Highest" else (lambda i: (degrees[i], i)))
        return {i: degrees[i] for i in pos[:max(n, 0)]}
    if cls == "Threshold":
        return {i: degrees[i] for i in idx if COMPARATORS[cmp](degrees[i], t)}
    if cls == "Proportional":
        pos = [i for i in idx if degrees[i] > 0.0]
        total = sum(degrees[i] for i in pos)
        return {i: degrees[i] / total for i in pos}
    raise AnalysisError(f"no definition for activation method {cls}")


def _describe(cls: str, degrees: list[float], states: list[str], n: int, t: float, cmp: str) -> str:
    s = "degrees " + ", ".join(f"{d:g}" + ("" if st == "ok" else f" ({st})") for d, st in zip(degrees, states))
    if cls in ("First", "Last"):
        s += f"; rules={n}, threshold={t:g}"
    if cls in ("Highest", "Lowest"):
        s += f"; rules={n}"
    if cls == "Threshold":
        s += f"; comparator `{cmp}`, threshold={t:g}"
    return s


def configurations(cls: str, n_rules: int, thorough: bool) -> Iterator[tuple[list[float], list[str], int, float, str]]:
    names = [f"d{i}" for i in range(n_rules)]
    with_t = cls in ("First", "Last", "Threshold")
    items = names + ["0"] + (["t"] if with_t else [])
    # per rule: "ok" (loaded, enabled), "unloaded", "disabled" (loaded; triggering it has no effect and leaves it not triggered)
    flags = [["ok"] * n_rules] + [[("unloaded" if j == i else "ok") for j in range(n_rules)] for i in range(n_rules)] + \
        [[("disabled" if j == i else "ok") for j in range(n_rules)] for i in range(n_rules)]
    if thorough and n_rules <= 3:
        flags = [list(f) for f in itertools.product(("ok", "unloaded", "disabled"), repeat=n_rules)]
    counts = [1, 2] if not thorough else [0, 1, 2, n_rules, n_rules + 1]
    if cls not in ("First", "Last", "Highest", "Lowest"):
        counts = [1]
    cmps = list(COMPARATORS) if cls == "Threshold" else [">"]
    if cls == "General":
        items = names[:1] + ["0"]  # the degrees decide nothing
    for order in weak_orders(items):
        for which, val in enumerate(embeddings(order)):
            degrees = [val.get(nm, val[names[0]]) for nm in names]
            for states in flags:
                if which == 2 and not thorough and not all(s == "ok" for s in states):
                    continue  # the third embedding (degrees within the comparison tolerance of zero): on the fully loaded block only in the quick tier
                # quick: the degenerate counts 0 ("the first 0 rules": none) and N + 1 (more than there are) on the block whose rules are all loaded
                edge = [0, n_rules + 1] if (not thorough and len(counts) > 1 and all(s == "ok" for s in states)) else []
                for n in counts + edge:
                    for cmp in cmps:
                        yield degrees, states, n, val.get("t", 0.0), cmp


def nan_configurations(cls: str) -> Iterator[tuple[list[float], list[str], int, float, str]]:
    """A degree that is NaN (an input without a value): it compares false with everything, so it is selected by no method that asks `degree > 0` - and it
    must not disturb the order in which the other rules are selected (an entry that cannot be ordered corrupts a heap or a sort it is put into: five rules,
    the NaN in every position, the other four degrees in every order)."""
    if cls == "General":
        return
    base = [0.125 * (k + 1) for k in range(4)]
    with_t = cls in ("First", "Last", "Threshold")
    perms = list(itertools.permutations(base))
    for j in range(5):
        for perm in (perms if cls in ("Highest", "Lowest") else perms[::4]):
            degrees = list(perm[:j]) + [float("nan")] + list(perm[j:])
            for cmp in (list(COMPARATORS) if cls == "Threshold" else [">"]):
                yield degrees, ["ok"] * 5, (2 if cls in ("First", "Last") else 1), 0.25 if with_t else 0.0, cmp


ASPECTS = {
    "deactivate-first": ("O-dea", "deactivate", "every rule of the block is deactivated before anything else is done to it"),
    "degrees": ("A-sem", "degrees", "the degree of every loaded rule (and of no other) is computed exactly once"),
    "conjunction": ("P2", "conjunction", "the degrees are computed with the block's own conjunction"),
    "disjunction": ("P2", "disjunction", "the degrees are computed with the block's own disjunction"),
    "implication": ("P2", "implication", "the rules are triggered with the block's own implication"),
    "selection": ("A-sem", "selection", "exactly the rules the definition selects are triggered, once, holding the degree the definition gives them"),
    "scalar-only": ("O-vec", "assert_is_not_vector", "assert_is_not_vector(degree) comes before anything consults the degree as a single number"),
    "no-internal-error": ("A-sem", "no-internal-error", "the method ends without an exception of its own"),
    "accumulated": ("P11", "accumulated-so-far", "a selected rule is triggered before the degree of any later rule (in the method's order of going through the block) is "
                    "computed: an output variable read by a later antecedent sees the contributions accumulated so far"),
    "history-free": ("A-sem", "history-free", "an activation object that was used before on another block does exactly what a new one does"),
}
VECTOR_INCAPABLE = ("First", "Last", "Highest", "Lowest", "Proportional", "Threshold")


def activation_semantics(check: Check, cls: str, aspects: tuple[str, ...] | None = None) -> None:
    """Interpret `cls.activate` on the model rule blocks and report the named aspects (all by default) as obligations
    <rule>/<cls>.activate/<construct> of the table above."""
    if aspects is None:
        aspects = tuple(a for a in ASPECTS if (a != "scalar-only" or cls in VECTOR_INCAPABLE) and (a != "accumulated" or cls in ("General", "First", "Last", "Threshold")))
    p = check.program
    fn = p.func(f"{cls}.activate")
    check.analysed(fn)
    node = fn.node
    params = [a.arg for a in node.args.args]
    if len(params) < 2:
        raise AnalysisError(f"{cls}.activate: expected (self, rule_block)")
    thorough = check.tier == "thorough"
    # quick: 3 rules (2 for Threshold, whose rules are decided one by one), one rule at a time unloaded / disabled;
    # thorough: 3 rules with every combination of rule states, and 4 rules with one rule at a time unloaded / disabled
    sizes = ([3, 4] if cls in ("Highest", "Lowest", "Proportional", "General") else [3]) if thorough else [2 if cls == "Threshold" else 3]
    n_rules = max(sizes)
    helpers: dict[str, Any] = {}
    for c in reversed(fn.cls.mro or [fn.cls]):
        helpers.update({k: v for k, v in c.methods.items() if k not in ("activate", "assert_is_not_vector", "__init__")})
    bad: dict[str, tuple[str, Any]] = {}
    cases = 0
    try:
        # which rules are selected depends on the order of the degrees; which operators are handed on, whether deactivation comes first and whether
        # something survives in the object do not: for those aspects alone every 16th configuration is interpreted in the quick tier
        full = bool({"selection", "degrees", "scalar-only"} & set(aspects)) or thorough
        for number, (degrees, states, n, t, cmp) in enumerate(itertools.chain(*[configurations(cls, k, thorough) for k in sizes], nan_configurations(cls))):
            if not full and number % 16:
                continue
            cases += 1
            loaded = [st != "unloaded" for st in states]
            w = World(degrees, loaded, [st != "disabled" for st in states])
            comparator = MObj("Comparator", {"value": cmp, "name": cmp, "operator": (lambda ex, e, args, kw, f=COMPARATORS[cmp]: _compare(f, args, e, ex))})
            what = _describe(cls, degrees, states, n, t, cmp)

            def run(world: World, me: MObj) -> None:
                hooks = world.hooks()
                ex = AbsExec(fn.qualname, hooks, helpers=helpers)
                ex.globals = {"heapq": _heapq_ns(hooks["use"]), "scalar": lambda ex, e, args, kw: args[0], "np": Opaque("numpy"),
                              "operator": _operator_ns(),
                              "itemgetter": _operator_ns().fields["itemgetter"], "attrgetter": _operator_ns().fields["attrgetter"],
                              "Scalar": Opaque("type"), "Rule": ("class", "Rule"), "nan": float("nan"), "inf": float("inf")}
                try:
                    ex.block(list(node.body), {params[0]: me, params[1]: world.block})
                except _Return:
                    pass

            me = _instance(p, fn, cls, n, t, comparator, helpers)
            try:
                run(w, me)
            except (Raised, Internal) as err:
                bad.setdefault("no-internal-error", (f"{what}: the method ends with {err.cls}" + (f" ({err.why})" if getattr(err, "why", "") else ""), getattr(err, "node", None)))
                continue
            want = _expected(cls, degrees, loaded, n, t, cmp)
            _judge(cls, w, want, what, bad)
            # history: the same activation object, used before on another block (more candidates than it triggers), does the same
            if "history-free" not in bad and (thorough or not full or cases % 4 == 0):
                k = len(degrees)
                me2 = _instance(p, fn, cls, n, t, comparator, helpers)
                prime = World([1.0 - i / 8.0 for i in range(k)], [True] * k)
                w2 = World(degrees, loaded, [st != "disabled" for st in states])
                try:
                    run(prime, me2)
                    run(w2, me2)
                    same = repr(w2.log) == repr(w.log)  # by their printed form: a NaN degree equals itself here
                    how = "does something else"
                except (Raised, Internal) as err:
                    same, how = False, f"ends with {err.cls}"
                if not same:
                    first = next((f"{a} instead of {b}" for a, b in zip(w2.log, w.log) if repr(a) != repr(b)), f"{len(w2.log)} steps instead of {len(w.log)}")
                    bad["history-free"] = (f"{what}: the same {cls} object, after having activated a block with degrees {', '.join(f'{d:g}' for d in prime.degrees)}, "
                                           f"{how} ({first}): something survives in the activation object from one activation to the next", None)
    except Unknown as u:
        raise AnalysisError(str(u)) from None
    for aspect in aspects:
        rule, construct, good = ASPECTS[aspect]
        hit = bad.get(aspect) or (bad.get("no-internal-error") if aspect == "selection" and "no-internal-error" not in aspects else None)
        check.require(hit is None, rule, f"{cls}.activate/{construct}", f"{good} ({cases} configurations of {' and '.join(map(str, sizes))} rules)" if hit is None else hit[0],
                      loc(fn, hit[1]) if hit is not None and hit[1] is not None else loc(fn), {"configurations": cases, "rules": n_rules}, exhaustive=True, cases=cases)


def _instance(p: Any, fn: Any, cls: str, n: int, t: float, comparator: MObj, helpers: dict[str, Any]) -> MObj:
    """The activation object: what its own __init__ builds (so that state it sets up is there), with the parameters of the configuration."""
    me = MObj(cls, {"__bases__": ("Activation",)})
    init = fn.cls.lookup("__init__")
    if init is not None and init.cls is not None and init.cls.name != "object":
        node = init.node
        names = [a.arg for a in node.args.args]
        given = {"rules": n, "threshold": t, "comparator": comparator}
        env: dict[str, Any] = {names[0]: me}
        ex = AbsExec(init.qualname, {}, helpers=helpers)
        ex.globals = {"Threshold": MObj("class", {"Comparator": lambda ex_, e, args, kw: comparator}), "Scalar": Opaque("type")}
        try:
            defaults = [None] * (len(names) - len(node.args.defaults)) + list(node.args.defaults)
            for nm, d in zip(names[1:], defaults[1:]):
                env[nm] = given[nm] if nm in given else (ex.ev(d, env) if d is not None else None)
            ex.block(list(node.body), env)
        except _Return:
            pass
        except (Unknown, Raised, Internal, AnalysisError):
            me = MObj(cls, {"__bases__": ("Activation",)})  # the constructor is not the subject here
    me.fields.update({"rules": n, "threshold": t, "comparator": comparator})
    return me


def _operator_ns() -> MObj:
    def itemgetter(ex, e, args, kw):
        idx = list(args)

        def get(ex_, e_, a, k):
            vals = [ex_.ev(ast.copy_location(ast.Subscript(value=ast.Name(id="<v>", ctx=ast.Load()), slice=ast.Constant(value=i), ctx=ast.Load()), e_), {"<v>": a[0]})
                    for i in idx]
            return vals[0] if len(vals) == 1 else tuple(vals)
        return get

    def attrgetter(ex, e, args, kw):
        names = list(args)

        def get(ex_, e_, a, k):
            vals = [ex_.attr(a[0], n_, e_) for n_ in names]
            return vals[0] if len(vals) == 1 else tuple(vals)
        return get

    def neg(ex, e, args, kw):
        ex.used(args[0])
        return -args[0]

    ns = {k: (lambda ex, e, args, kw, f=f: _compare(f, args, e, ex)) for k, f in
          (("lt", _op.lt), ("le", _op.le), ("eq", _op.eq), ("ne", _op.ne), ("ge", _op.ge), ("gt", _op.gt))}
    ns.update({"itemgetter": itemgetter, "attrgetter": attrgetter, "neg": neg})
    return MObj("module", ns)


def _compare(f: Any, args: list[Any], e: Any, ex: AbsExec) -> bool:
    if len(args) != 2 or not all(isinstance(a, (int, float)) for a in args):
        raise Unknown("comparison operator applied to something that is not a pair of numbers")
    ex.used(*args)
    return bool(f(args[0], args[1]))


def _judge(cls: str, w: World, want: dict[int, float], what: str, bad: dict[str, tuple[str, Any]]) -> None:
    n = len(w.rules)
    first: dict[int, str] = {}
    for ev in w.log:
        if ev[0] != "assert":
            first.setdefault(ev[1], ev[0])
    for i in range(n):
        if first.get(i) != "deactivate" and "deactivate-first" not in bad:
            bad["deactivate-first"] = (f"{what}: rule {i} " + ("is never deactivated" if ("deactivate", i) not in w.log else f"is asked `{first[i]}` before it is deactivated")
                                       + " - it keeps the degree and the triggered flag of an earlier activation", None)
    computed = [ev for ev in w.log if ev[0] == "activate_with"]
    for i in range(n):
        mine = [ev for ev in computed if ev[1] == i]
        loaded = w.rules[i].fields["loaded"]
        if "degrees" in bad:
            break
        if loaded and len(mine) != 1:
            bad["degrees"] = (f"{what}: the degree of loaded rule {i} is computed {len(mine)} times (specified: once)", None)
        elif not loaded and mine:
            bad["degrees"] = (f"{what}: activate_with is called on rule {i}, which is not loaded", None)
    for ev in computed:
        if not ev[2]:
            bad.setdefault("conjunction", (f"{what}: the degree of rule {ev[1]} is computed with something other than the block's conjunction as first operator", None))
        if not ev[3]:
            bad.setdefault("disjunction", (f"{what}: the degree of rule {ev[1]} is computed with something other than the block's disjunction as second operator", None))
    trig = [ev for ev in w.log if ev[0] == "trigger"]
    for ev in trig:
        if not ev[2]:
            bad.setdefault("implication", (f"{what}: rule {ev[1]} is triggered with something other than the block's implication", None))
    # chained rules: the methods that decide rule by rule (General, First, Threshold forwards, Last backwards) fire a selected rule before they
    # compute the degree of the next one, so that an antecedent over an output variable reads what the earlier rules of the block concluded
    if cls in ("General", "First", "Last", "Threshold"):
        pos = {(ev[0], ev[1]): k for k, ev in enumerate(w.log) if ev[0] in ("activate_with", "trigger")}
        for (kind, i), pt in pos.items():
            if kind != "trigger":
                continue
            for (kind2, j), pa in pos.items():
                later = j < i if cls == "Last" else j > i
                if kind2 == "activate_with" and later and pa < pt:
                    bad.setdefault("accumulated", (f"{what}: the degree of rule {j} is computed before rule {i} is triggered - an antecedent of rule {j} that reads an output "
                                                   f"variable does not see what rule {i} concludes (the rules of a block fire in order, each seeing the contributions so far)", None))
    # the degree is consulted as a single number only after assert_is_not_vector has seen it
    asserted: set[int] = set()
    for ev in w.log:
        if ev[0] == "assert" and ev[1] is not None:
            asserted.add(ev[1])
        elif ev[0] == "use" and ev[1] not in asserted:
            bad.setdefault("scalar-only", (f"{what}: the degree of rule {ev[1]} is compared / negated / added as a single number before assert_is_not_vector has seen it "
                                           "(a batch of degrees is mis-selected or fails with numpy's own error instead of being rejected)", None))
    if "selection" in bad:
        return
    got = [ev[1] for ev in trig]
    if sorted(got) != sorted(want):
        extra, missing = sorted(set(got) - set(want)), sorted(set(want) - set(got))
        twice = sorted({i for i in got if got.count(i) > 1})
        bad["selection"] = (f"{what}: triggered rules {got}, specified {sorted(want)}" + (f" - rule(s) {extra} must not be triggered" if extra else "")
                            + (f" - rule(s) {missing} must be triggered" if missing else "") + (f" - rule(s) {twice} triggered more than once" if twice and not extra and not missing else ""), None)
        return
    for ev in trig:
        d = ev[3]
        if not isinstance(d, (int, float)) or abs(d - want[ev[1]]) > 1e-12:
            bad["selection"] = (f"{what}: rule {ev[1]} holds activation degree {d} when it is triggered (specified: {want[ev[1]]:g})", None)
            return
    # what is left in the rules afterwards: a rule that is not triggered must not look triggered
    for i, r in enumerate(w.rules):
        if i not in want and r.fields["triggered"]:
            bad["selection"] = (f"{what}: rule {i} is not selected but is left marked as triggered", None)
            return
