"""AG-sem: the three methods of the fuzzy output value (`Aggregated.membership`, `.grouped_terms`, `.activation_degree`) interpreted
(sa/objexec.py) on model fuzzy outputs built through the real constructors.

The norms and the terms' membership functions are uninterpreted symbols (x (+) y for the aggregation, x (*) y for the implication, x + y for the
default sum, mu_t(x) for a term), the activation degrees generic numbers; the fuzzy outputs hold 0-5 activated terms, one term activated three
times, with and without an aggregation operator. The statement's formulas are the expectation:

  membership(x)         = 0 (+) a_1 (*) mu_1(x) (+) ... (+) a_n (*) mu_n(x), a ValueError with terms and no operator, 0 for the empty output      [P7]
  grouped_terms()       = one fresh Activated per term name, in order of first activation, its degree the (+)-fold of the degrees of that
                          name (a plain sum without an operator), the activations of the output left as they were                                [W-grp]
  activation_degree(t)  = the grouped degree of t's name, 0 for a term that was not activated                                                     [P10]

(+) is compared modulo commutativity (every S-norm is commutative). The shape rules of the same names are the fallback where the interpreter
cannot follow the code."""

from __future__ import annotations

from typing import Any

from ..absexec import App, Internal, MObj, Raised, Sym, Unknown
from ..pm import AnalysisError
from ..report import Check
from .common import loc
from .roundtrip_sem import E0, concrete, ctor_params, new_exec


def norm(v: Any) -> Any:
    if isinstance(v, App):
        args = tuple(norm(a) for a in v.args)
        if v.fn in ("⊕", "+"):
            args = tuple(sorted(args, key=repr))
        return App(v.fn, args, v.kwargs)
    if isinstance(v, float) and v == 0.0:
        return 0.0
    return v


def aggregated_semantics(check: Check, want: tuple[str, ...] = ("P7", "W-grp", "P10")) -> set[str]:
    """-> the rule ids decided by interpretation (the others fall back to their shape rules)."""
    p = check.program
    agg_c, act_c = p.cls("Aggregated"), p.cls("Activated")
    fns = {"P7": agg_c.lookup("membership"), "W-grp": agg_c.lookup("grouped_terms"), "P10": agg_c.lookup("activation_degree")}
    for k, f in fns.items():
        if f is None:
            raise AnalysisError(f"anchor vanished: Aggregated.{ {'P7': 'membership', 'W-grp': 'grouped_terms', 'P10': 'activation_degree'}[k]}")
    ex = new_exec(p)
    ex.qual = "fuzzy output"
    snorm = next(c for c in concrete(p, "SNorm") if not ctor_params(c) and c.name != "UnboundedSum")
    tnorm = next(c for c in concrete(p, "TNorm") if not ctor_params(c))
    def ab(fi_name: str, args: list, kw: dict) -> tuple:
        """The two operands of compute(self, a, b) / the argument of membership(self, x), given by position or by keyword."""
        fi = p.func(fi_name)
        names = [q.name for q in fi.params[1:]]
        vals = list(args[1:]) + [kw[n_] for n_ in names[len(args) - 1:] if n_ in kw]
        if len(vals) != len(names):
            raise Unknown(f"{fi_name} called with other arguments than its parameters")
        return tuple(vals)

    ex.func_hooks[f"{snorm.qualname}.compute"] = lambda ex_, e, args, kw: App("⊕", ab(f"{snorm.qualname}.compute", args, kw))
    ex.func_hooks[f"{tnorm.qualname}.compute"] = lambda ex_, e, args, kw: App("⊗", ab(f"{tnorm.qualname}.compute", args, kw))
    if "UnboundedSum" in p.classes:
        ex.func_hooks[f"{p.cls('UnboundedSum').qualname}.compute"] = lambda ex_, e, args, kw: App("+", ab(f"{p.cls('UnboundedSum').qualname}.compute", args, kw))
    ex.func_hooks[f"{p.cls('Constant').qualname}.membership"] = lambda ex_, e, args, kw: App("μ", (args[0].fields.get("name"),) + ab(f"{p.cls('Constant').qualname}.membership", args, kw))
    ex.func_hooks["ext:np.nan_to_num"] = lambda ex_, e, args, kw: args[0]  # generic degrees are finite numbers
    x = Sym("x")
    names = ["low", "mid", "high", "rare"]
    bad: dict[tuple[str, str], str] = {}
    undecided: dict[str, str] = {}
    cases = {k: 0 for k in fns}

    def build(seq: list[int], with_agg: bool) -> tuple[MObj, list[MObj], list[MObj]]:
        terms = [ex.instantiate(p.cls("Constant"), [], {"name": nm, "value": Sym(f"k{i}")}, E0) for i, nm in enumerate(names)]
        acts = [ex.instantiate(act_c, [terms[t], Sym(f"a{j}")], {"implication": ex.instantiate(tnorm, [], {}, E0)}, E0) for j, t in enumerate(seq)]
        agg = ex.instantiate(agg_c, [], {"name": "out", "minimum": Sym("lo"), "maximum": Sym("hi"), "aggregation": ex.instantiate(snorm, [], {}, E0) if with_agg else None,
                                         "terms": list(acts)}, E0)
        return agg, terms, acts

    sequences = [[], [0], [0, 1], [0, 1, 0], [1, 0, 2, 0, 0], [2, 2], [0, 0, 1, 1]]
    for seq in sequences:
        for with_agg in (True, False):
            label = f"fuzzy output with activations of {[names[t] for t in seq]}{'' if with_agg else ' and no aggregation operator'}"
            op = "⊕" if with_agg else "+"
            # ---- membership
            if "P7" in want and "P7" not in undecided:
                agg, terms, acts = build(seq, with_agg)
                cases["P7"] += 1
                try:
                    try:
                        got: Any = ex.invoke(fns["P7"], [agg, x], {}, E0)
                    except Raised as r:
                        got = ("raises", r.cls)
                    except Internal as i_:
                        got = ("raises", i_.cls)  # an internal error (None has no compute) is an outcome too
                    if seq and not with_agg:
                        if got != ("raises", "ValueError"):
                            bad.setdefault(("P7", "no-operator"), f"{label}: membership(x) must raise ValueError, got {got}")
                    elif isinstance(got, tuple) and got and got[0] == "raises":
                        bad.setdefault(("P7", "fold" if seq else "seed"), f"{label}: membership(x) raises {got[1]}")
                    else:
                        exp: Any = 0.0
                        for a in acts:
                            exp = App("⊕", (exp, ex.invoke(act_c.lookup("membership"), [a, x], {}, E0)))  # the activation's own membership (rule P6) is the operand
                        if norm(got) != norm(exp):
                            aspect = "seed" if not seq else ("all-terms" if repr(norm(got)).count("μ") != len(seq) else "fold")
                            bad.setdefault(("P7", aspect), f"{label}: membership(x) is {show(got)}, the statement's formula gives {show(exp)}")
                except (Unknown, Internal) as err:
                    undecided["P7"] = f"{label}: {getattr(err, 'why', err)}"
            # ---- grouped_terms
            if "W-grp" in want and "W-grp" not in undecided:
                agg, terms, acts = build(seq, with_agg)
                cases["W-grp"] += 1
                try:
                    before = [(a.fields["term"], a.fields["_degree"], a.fields["implication"]) for a in acts]
                    got = ex.invoke(fns["W-grp"], [agg], {}, E0)
                    if not isinstance(got, dict):
                        raise Unknown("grouped_terms does not return a dictionary")
                    order: list[int] = []
                    for t in seq:
                        if t not in order:
                            order.append(t)
                    if list(got.keys()) != [names[t] for t in order]:
                        bad.setdefault(("W-grp", "same-key" if set(got.keys()) != {names[t] for t in order} else "order"),
                                       f"{label}: the groups are {list(got.keys())}, expected {[names[t] for t in order]}")
                    else:
                        for t in order:
                            g = got[names[t]]
                            degs = [Sym(f"a{j}") for j, t2 in enumerate(seq) if t2 == t]
                            exp = degs[0]
                            for d in degs[1:]:
                                exp = App(op, (exp, d))
                            if not (isinstance(g, MObj) and g.cls == act_c.qualname):
                                bad.setdefault(("W-grp", "combine"), f"{label}: the group of {names[t]} is not an Activated term")
                                continue
                            if any(g is a for a in acts):
                                bad.setdefault(("W-grp", "fresh"), f"{label}: the group of {names[t]} is the output's own activation object, not a fresh Activated: "
                                                                   "combining degrees into it rewrites the fuzzy output")
                            if g.fields.get("term") is not terms[t]:
                                bad.setdefault(("W-grp", "same-key"), f"{label}: the group of {names[t]} holds another term")
                            gd = g.fields.get("_degree")
                            if norm(gd) != norm(exp):
                                other = App("+" if with_agg else "⊕", (degs[0], degs[1])) if len(degs) > 1 else None
                                aspect = "default-aggregation" if other is not None and repr(norm(gd)).count("+" if with_agg else "⊕") else \
                                    ("all-activations" if sum(repr(gd).count(f"'a{j}'") for j in range(len(seq))) < len(degs) else "combine")
                                bad.setdefault(("W-grp", aspect), f"{label}: the grouped degree of {names[t]} is {show(gd)}, expected {show(exp)}")
                            if g.fields.get("implication") is not None:
                                bad.setdefault(("W-grp", "combine"), f"{label}: the group of {names[t]} carries an implication operator (the degrees are combined as they are)")
                    after = [(a.fields["term"], a.fields["_degree"], a.fields["implication"]) for a in acts]
                    if any(b[0] is not a[0] or b[1] != a[1] or b[2] is not a[2] for b, a in zip(before, after)) or list(agg.fields["terms"]) != acts:
                        bad.setdefault(("W-grp", "fresh"), f"{label}: grouping changes the activations of the fuzzy output itself")
                except Raised as r:
                    bad.setdefault(("W-grp", "all-activations"), f"{label}: grouped_terms() raises {r.cls}")
                except (Unknown, Internal) as err:
                    undecided["W-grp"] = f"{label}: {getattr(err, 'why', err)}"
            # ---- activation_degree
            if "P10" in want and "P10" not in undecided:
                agg, terms, acts = build(seq, with_agg)
                try:
                    for t in range(len(names)):
                        cases["P10"] += 1
                        probe = terms[t] if t % 2 else ex.instantiate(p.cls("Constant"), [], {"name": names[t], "value": Sym("other")}, E0)  # found by name
                        got = ex.invoke(fns["P10"], [agg, probe], {}, E0)
                        degs = [Sym(f"a{j}") for j, t2 in enumerate(seq) if t2 == t]
                        if not degs:
                            if not (isinstance(got, (int, float)) and got == 0.0):
                                bad.setdefault(("P10", "absent"), f"{label}: activation_degree of the term {names[t]} (not activated) is {show(got)}, expected 0")
                            continue
                        exp = degs[0]
                        for d in degs[1:]:
                            exp = App(op, (exp, d))
                        if norm(got) != norm(exp):
                            bad.setdefault(("P10", "lookup"), f"{label}: activation_degree of the term {names[t]} is {show(got)}, expected {show(exp)}")
                except Raised as r:
                    bad.setdefault(("P10", "lookup"), f"{label}: activation_degree raises {r.cls}")
                except (Unknown, Internal) as err:
                    undecided["P10"] = f"{label}: {getattr(err, 'why', err)}"
    ASPECTS = {"P7": (("seed", "an output without activations has membership 0 (the fold starts at 0, the S-norm identity)"),
                      ("fold", "membership(x) is the (+)-fold of a_i (*) mu_i(x) over the activations, in order"),
                      ("all-terms", "every activation takes part in the fold"),
                      ("no-operator", "activations without an aggregation operator are refused with ValueError")),
               "W-grp": (("same-key", "one group per term name, holding that term"), ("order", "groups come in order of first activation"),
                         ("combine", "the group's degree is the fold of the degrees of its activations, no implication attached"),
                         ("default-aggregation", "combined with the output's aggregation operator, or a plain sum when there is none"),
                         ("all-activations", "every activation of the fuzzy output is grouped"),
                         ("fresh", "the groups are fresh Activated objects: the output's own activations are left as they were")),
               "P10": (("lookup", "activation_degree(t) is the grouped degree of t's name"), ("absent", "a term without activations yields 0"))}
    member = {"P7": "membership", "W-grp": "grouped_terms", "P10": "activation_degree"}
    decided: set[str] = set()
    for rule in want:
        if rule in undecided:
            check.notes.append(f"AG-sem: Aggregated.{member[rule]} is outside the interpreter's model ({undecided[rule]}): the shape rule {rule} decides")
            continue
        decided.add(rule)
        check.analysed(fns[rule])
        for aspect, good in ASPECTS[rule]:
            hit = bad.get((rule, aspect))
            check.require(hit is None, rule, f"Aggregated.{member[rule]}/{aspect}", good + " (by interpretation on model fuzzy outputs)" if hit is None else hit,
                          loc(fns[rule]), {}, exhaustive=True, cases=cases[rule])
    return decided


def show(v: Any) -> str:
    if isinstance(v, App):
        if v.fn in ("⊕", "⊗", "+") and len(v.args) == 2:
            return f"({show(v.args[0])} {v.fn} {show(v.args[1])})"
        return f"{v.fn}({', '.join(show(a) for a in v.args)})"
    if isinstance(v, Sym):
        return v.name
    if isinstance(v, MObj):
        return f"<{v.cls.split('.')[-1]}>"
    return repr(v)
