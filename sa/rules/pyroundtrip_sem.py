"""PY-sem and R1-sem: the Python representation interpreted on model engines (C15), and what constructors store (C12, C14, C15).

PY-sem. `repr(engine)` - every `__repr__`, `Representation.as_constructor` / `construction_arguments` / `package_of` / `repr_float` /
`repr_ndarray`, with `reprlib.Repr.repr` / `repr1`, `inspect.signature` and `inspect.getmodule` by their documented meaning - is interpreted by
sa/objexec.py on the model engines of RT-sem (engines built through the real constructors: every term / norm / activation / defuzzifier class,
flags in both states, optional components present and absent, floating-point fields as symbols) and on engines whose components were configured by
*assignment* after a default construction (the other public route to the same state). The text obtained is parsed as the Python expression it is
and evaluated by interpreting the constructors it calls, under the three alias settings ("fl", "", "*"). Decided:

  structure      eval(repr(E)) equals E field by field (same classes, same symbols, flags, names, texts)
  fixed-point    repr(eval(repr(E))) == repr(E) and the FuzzyLite Language export of both is the same text
  evaluates      the text is a Python expression whose names resolve under the alias setting and whose constructor calls are accepted

A symbol printed by `repr` / `str` reads back as itself (Python prints floats exactly); printed in the library's number format it reads back as
itself as well (rule weights: representable by the property's precondition); printed any other way it is a different number.

R1-sem. For every component class, a constructor argument of a number / flag type is stored as it is given: `C(p=v).p == v` for the edge values
0, 0.0, False and the empty string too (a default applied through the truth value of the argument loses them).
"""

from __future__ import annotations

import ast
import re
from typing import Any

from ..absexec import App, Internal, MObj, Opaque, Raised, Sym, Unknown
from ..objexec import CLOSE, OPEN, Arr, ClassV, FuncV, ObjExec
from ..pm import AnalysisError, Program
from ..report import Check
from .common import loc
from .roundtrip_sem import loaded_engine, E0, Counter, concrete, ctor_params, count_fields, differences, field_key, make_component, model_engines, new_exec

OBJECT_INIT = Opaque("object.__init__")
EMPTY = MObj("<empty>", {})


class Named:
    """A module-level function of the library modelled by a Python callable that still has a name (`array.__name__`)."""

    def __init__(self, name: str, f: Any):
        self.model_name = name
        self.f = f

    def __call__(self, ex: Any, e: Any, args: list, kw: dict) -> Any:
        return self.f(ex, e, args, kw)


def py_exec(p: Program, alias: str) -> ObjExec:
    ex = new_exec(p)
    ex.qual = "Python representation"
    ex.function_variables = True
    settings = ex.globals["settings"]
    settings.fields["alias"] = alias
    settings.fields["<module>"] = "fuzzylite.library"
    rep_c = p.cls("Representation")
    rep = MObj(rep_c.qualname, {"maxlevel": 10, "__bases__": ("Repr",)})
    ex.globals["representation"] = rep
    arr = Named("array", lambda ex_, e, args, kw: ex_.to_array(args[0], e))
    ex.globals["array"] = arr
    ex.globals["scalar"] = Named("scalar", lambda ex_, e, args, kw: ex_.to_array(args[0], e))

    def typename(x: Any) -> str:
        if isinstance(x, (Sym, App)):
            return "float"
        if isinstance(x, Arr):
            return "ndarray"
        if isinstance(x, MObj):
            return x.cls.split(".")[-1]
        return type(x).__name__

    def repr1(ex_: Any, e: Any, recv: Any, args: list, kw: dict) -> str:
        x, level = args[0], args[1] if len(args) > 1 else kw.get("level", 10)
        tn = typename(x).replace(" ", "_")
        m = rep_c.lookup(f"repr_{tn}")
        if m is not None:
            return ex_.invoke(m, [recv, x, level], {}, e)
        alias_attr = rep_c.lookup_class_attr(f"repr_{tn}")  # `repr_float64 = repr_float`
        if isinstance(alias_attr, ast.Name):
            m = rep_c.lookup(alias_attr.id)
            if m is not None:
                return ex_.invoke(m, [recv, x, level], {}, e)
        if isinstance(x, (list, tuple, set, frozenset, dict)) and not (isinstance(x, tuple) and x and x[0] in ("builtin", "bound")):
            if not isinstance(level, int) or level <= 0:
                return "..."
            if isinstance(x, dict):
                return "{" + ", ".join(f"{repr1(ex_, e, recv, [k, level - 1], {})}: {repr1(ex_, e, recv, [v, level - 1], {})}" for k, v in x.items()) + "}"
            inner = ", ".join(repr1(ex_, e, recv, [y, level - 1], {}) for y in (sorted(x, key=str) if isinstance(x, (set, frozenset)) else x))
            if isinstance(x, list):
                return f"[{inner}]"
            if isinstance(x, tuple):
                return f"({inner},)" if len(x) == 1 else f"({inner})"
            return "{" + inner + "}" if x else "set()"
        return ex_.to_repr(x, e)

    ex.hooks["method:repr1"] = repr1
    ex.hooks["method:repr"] = lambda ex_, e, recv, args, kw: repr1(ex_, e, recv, [args[0], recv.fields.get("maxlevel", 10) if isinstance(recv, MObj) else 10], {})
    ex.globals["repr"] = lambda ex_, e, args, kw: repr1(ex_, e, rep, [args[0], 10], {})

    def getmodule(ex_: Any, e: Any, args: list, kw: dict) -> Any:
        x = args[0]
        name = None
        if isinstance(x, MObj):
            ci = ex_.class_of(x)
            name = ci.module.name if ci is not None else x.fields.get("<module>")
        elif isinstance(x, ClassV):
            name = p.classes[x.qual].module.name
        elif isinstance(x, FuncV):
            name = x.fi.module.name
        if name is None:
            return None
        return MObj("<module>", {"__name__": name, "__bool__": True})

    ex.func_hooks["ext:inspect.getmodule"] = getmodule

    def signature(ex_: Any, e: Any, args: list, kw: dict) -> Any:
        f = args[0]
        if f is OBJECT_INIT:
            return MObj("<signature>", {"parameters": {}})
        if not isinstance(f, FuncV):
            raise Unknown("inspect.signature of something that is not a function of the package")
        a = f.fi.node.args
        pos = a.posonlyargs + a.args
        defaults = [None] * (len(pos) - len(a.defaults)) + list(a.defaults)
        params: dict[str, Any] = {}
        for x, d in list(zip(pos, defaults)) + list(zip(a.kwonlyargs, a.kw_defaults)):
            params[x.arg] = MObj("<parameter>", {"name": x.arg, "default": EMPTY if d is None else MObj("<default>", {}), "empty": EMPTY, "__bool__": True})
        if f.bound is not None and pos:
            params.pop(pos[0].arg, None)
        return MObj("<signature>", {"parameters": params})

    ex.func_hooks["ext:inspect.signature"] = signature
    ex.func_hooks["ext:np.abs"] = lambda ex_, e, args, kw: abs(args[0]) if isinstance(args[0], (int, float)) else App("np.abs", (args[0],))
    ex.func_hooks["Operation.isinf"] = lambda ex_, e, args, kw: (not isinstance(args[0], (Sym, App))) and isinstance(args[0], float) and args[0] in (float("inf"), float("-inf"))
    return ex


def namespace(ex: ObjExec, alias: str, line: str | None = None) -> dict[str, Any]:
    """The names the import statement of the library (or the statement `line` found in exported code) brings into scope."""
    p = ex.p
    names: dict[str, Any] = {}
    for q, c in p.classes.items():
        if c.outer is None and c.module.name.startswith("fuzzylite.") and ".examples" not in c.module.name:
            exported = c.module.all_names
            if exported is None or c.name in exported:
                names[c.name] = ClassV(q)
    lib = next((m for m in p.modules.values() if m.name == "fuzzylite.library"), None)
    exported = set(lib.all_names or []) if lib is not None else set()
    for nm, val in (("inf", float("inf")), ("nan", float("nan")), ("array", ex.globals["array"]), ("scalar", ex.globals["scalar"])):
        if not exported or nm in exported:
            names[nm] = val
    line = import_line(ex) if line is None else line
    if line.startswith("<"):
        raise Unknown("Representation.import_statement is outside the interpreter's model")
    try:
        imp = ast.parse(line).body[0]
    except (SyntaxError, IndexError):
        return {}
    if isinstance(imp, ast.ImportFrom) and imp.module == "fuzzylite" and any(a.name == "*" for a in imp.names):
        return names
    if isinstance(imp, ast.ImportFrom) and imp.module == "fuzzylite":
        return {(a.asname or a.name): names[a.name] for a in imp.names if a.name in names}
    if not (isinstance(imp, ast.Import) and imp.names and imp.names[0].name == "fuzzylite"):
        return {}
    bound = imp.names[0].asname or "fuzzylite"
    top = dict(names)
    if True:  # the submodules are attributes of the package
        for m in p.modules.values():
            parts = m.name.split(".")
            if len(parts) == 2 and parts[0] == "fuzzylite":
                sub = {c.name: ClassV(c.qualname) for c in m.classes.values()}
                if m.name == "fuzzylite.library":
                    sub.update({k: v for k, v in names.items() if k in ("inf", "nan", "array", "scalar")})
                top.setdefault(parts[1], MObj("<namespace>", sub))
    return {bound: MObj("<namespace>", top)}


def import_line(ex: ObjExec) -> str:
    rep = ex.globals["representation"]
    try:
        m = ex.class_of(rep).lookup("import_statement")  # type: ignore[union-attr]
        s = ex.invoke(m, [rep], {}, E0) if m is not None else None
    except (Unknown, Raised, Internal):
        s = None
    return s if isinstance(s, str) else "<import statement outside the model>"


def unresolved(tree: ast.AST, env: dict[str, Any]) -> str | None:
    """The first dotted name of the expression that the environment does not define (a NameError / AttributeError when the code is run)."""
    for node in ast.walk(tree):
        if isinstance(node, ast.Name) and node.id not in env:
            return node.id
    for node in ast.walk(tree):
        if isinstance(node, ast.Attribute):
            chain = []
            cur: ast.AST = node
            while isinstance(cur, ast.Attribute):
                chain.append(cur.attr)
                cur = cur.value
            if not isinstance(cur, ast.Name):
                continue
            v = env.get(cur.id)
            path = cur.id
            for a in reversed(chain):
                if isinstance(v, MObj) and v.cls == "<namespace>":
                    path += "." + a
                    if a not in v.fields:
                        return path
                    v = v.fields[a]
                else:
                    break
    return None


def lift_placeholders(text: str) -> tuple[str, dict[str, Any]]:
    """Placeholders outside string literals become names (`__ph3__`) bound to the number they stand for; inside string literals (a rule's text)
    they stay text and are read by the code that parses the string."""
    out: list[str] = []
    env: dict[str, Any] = {}
    i, n = 0, len(text)
    quote = None
    while i < n:
        ch = text[i]
        if quote:
            out.append(ch)
            if ch == "\\" and i + 1 < n:
                out.append(text[i + 1])
                i += 1
            elif ch == quote:
                quote = None
        elif ch in "'\"":
            quote = ch
            out.append(ch)
        elif ch == OPEN:
            j = text.index(CLOSE, i)
            body = text[i + 1:j]
            name = f"__ph{len(env)}__"
            if "|" in body:
                base, how = body.rsplit("|", 1)
                env[name] = Sym(base) if how in ("repr", "str") else Sym(f"{base}~{how}")  # Python prints floats exactly
            else:
                env[name] = Sym(body)
            out.append(name)
            i = j
        else:
            out.append(ch)
        i += 1
    return "".join(out), env


def assigned_engine(ex: ObjExec, cnt: Counter) -> MObj:
    """An engine whose components are built with their default constructors and then configured by assignment, with the edge values a constructor
    might treat specially (0 rules, a zero threshold / default value, an empty description)."""
    p = ex.p

    def C(cname: str, *a: Any, **k: Any) -> MObj:
        return ex.instantiate(p.cls(cname), list(a), k, E0)

    rbs = []
    for j, ac in enumerate(concrete(p, "Activation")):
        a = ex.instantiate(ac, [], {}, E0)
        for pname, ann, _ in ctor_params(ac):
            ann_ = ann.replace(" ", "")
            if ann_ == "int":
                ex.store_attr(a, pname, 0, E0)
            elif ann_ in ("float", "Scalar"):
                ex.store_attr(a, pname, 0.0, E0)
        rb = C("RuleBlock")
        for k, v in (("name", f"R{j}"), ("activation", a)):
            ex.store_attr(rb, k, v, E0)
        rbs.append(rb)
    ov = C("OutputVariable")
    for k, v in (("name", "O"), ("default_value", 0.0), ("minimum", 0.0), ("maximum", cnt.sym("hi")), ("lock_previous", True)):
        ex.store_attr(ov, k, v, E0)
    iv = C("InputVariable")
    for k, v in (("name", "I"), ("description", "  "), ("minimum", cnt.sym("lo")), ("maximum", 0.0), ("enabled", False)):  # a description of blanks is a description
        ex.store_attr(iv, k, v, E0)
    eng = C("Engine", load=False)
    ex.store_attr(eng, "name", "assigned", E0)
    for k, v in (("input_variables", [iv]), ("output_variables", [ov]), ("rule_blocks", rbs)):
        lst = ex.attr(eng, k, E0)
        if not isinstance(lst, list):
            raise Unknown(f"Engine.{k} is not a list")
        lst.extend(v)  # components are added to the engine's own lists
    return eng


def py_roundtrip(check: Check, rule: str = "PY-sem") -> bool:
    """-> True when every model engine was decided under every alias setting."""
    p = check.program
    eng_c = p.cls("Engine")
    rep_fn = eng_c.lookup("__repr__")
    if rep_fn is None:
        raise AnalysisError("anchor vanished: Engine.__repr__")
    check.analysed(rep_fn)
    as_ctor = p.cls("Representation").lookup("as_constructor")
    if as_ctor is not None:
        check.analysed(as_ctor)
    exp_c = p.cls("FllExporter")
    exp_engine = exp_c.lookup("engine")
    bad: dict[str, tuple[str, Any]] = {}
    cases = 0
    compared = 0
    undecided: list[str] = []
    entered: set[str] = set()
    for alias in ("fl", "", "*"):
        ex = py_exec(p, alias)
        ex.entered = entered
        cnt = Counter()
        try:
            engines = model_engines(ex, cnt) if alias == "fl" else model_engines(ex, cnt)[1:2] + model_engines(ex, cnt)[-2:]
            engines.append(("engine configured by assignment", assigned_engine(ex, cnt)))
            if alias == "fl":
                try:
                    engines.append(("engine with loaded rules", loaded_engine(ex, cnt)))
                except (Unknown, Raised, Internal) as err:
                    cases += 1
                    undecided.append(f"engine with loaded rules: loading its rules is outside the interpreter's model ({getattr(err, 'cls', '')}{getattr(err, 'why', err)})")
        except (Unknown, Raised, Internal) as err:
            raise AnalysisError(f"{rule}: the model engines cannot be built by interpreting the constructors: {getattr(err, 'cls', '')} {getattr(err, 'why', err)}") from None
        for label, eng in engines:
            cases += 1
            label = f"{label}, alias {alias!r}"
            try:
                text = ex.to_repr(eng, E0)
            except (Raised, Internal) as err:
                bad.setdefault("evaluates", (f"{label}: repr(engine) fails with {err.cls}{(' (' + err.why + ')') if isinstance(err, Internal) else ''}", getattr(err, "node", None)))
                continue
            except Unknown as err:
                undecided.append(f"{label}: {err}")
                continue
            code, phs = lift_placeholders(text)
            try:
                tree = ast.parse(code, mode="eval")
            except SyntaxError as se:
                bad.setdefault("evaluates", (f"{label}: the representation is not a Python expression ({se.msg} near `{(se.text or '')[max(0, (se.offset or 1) - 30):(se.offset or 1) + 10].strip()}`)", None))
                continue
            env = {**namespace(ex, alias), **phs, "<module>": "__main__"}
            missing = unresolved(tree, env)
            if missing:
                bad.setdefault("evaluates", (f"{label}: `{missing}` in the representation does not resolve after the library's import statement for this alias setting "
                                             f"(`{import_line(ex)}`)", None))
                continue
            try:
                back = ex.ev(tree.body, env)
                text2 = ex.to_repr(back, E0)
                exporter = ex.instantiate(exp_c, [], {}, E0)
                fll1 = ex.invoke(exp_engine, [exporter, eng], {}, E0) if exp_engine is not None else ""
                fll2 = ex.invoke(exp_engine, [exporter, back], {}, E0) if exp_engine is not None else ""
            except (Raised, Internal) as err:
                where = ""
                nd = getattr(err, "node", None)
                bad.setdefault("evaluates", (f"{label}: evaluating the representation fails with {err.cls}{(' (' + err.why + ')') if isinstance(err, Internal) else ''}{where}", nd))
                continue
            except Unknown as err:
                undecided.append(f"{label}: {err}")
                continue
            if isinstance(back, Opaque):
                bad.setdefault("evaluates", (f"{label}: a name of the representation does not resolve under the alias setting ({back.what})", None))
                continue
            diffs: list[str] = []
            differences(eng, back, "", diffs, set(), limit=40)
            compared += count_fields(eng, set())
            for d in diffs:
                bad.setdefault("structure:" + field_key(d), (f"{label}: after repr and eval, {re.sub(r'^<[^>]+> ', '', d)}", None))
            if label.startswith("model engine 1") or "assignment" in label:
                components_alone(ex, eng, alias, label, bad)
                encapsulated(ex, eng, alias, label, bad, undecided)
            if text != text2:
                i = next((k for k, (x, y) in enumerate(zip(text, text2)) if x != y), min(len(text), len(text2)))
                bad.setdefault("fixed-point", (f"{label}: the rebuilt engine represents itself differently: `...{text[max(0, i - 40):i + 40]}...` becomes `...{text2[max(0, i - 40):i + 40]}...`", None))
            elif fll1 != fll2:
                bad.setdefault("fixed-point", (f"{label}: the rebuilt engine exports a different FuzzyLite Language text", None))
    if cases and len(undecided) == cases:
        raise AnalysisError(f"{rule}: no model engine could be taken through repr / eval: {undecided[0]}")
    for u in undecided:
        check.notes.append(f"{rule}: undecided (outside the interpreter's model): {u}")
    construct = "repr~eval"
    structure_keys = sorted(k for k in bad if k.startswith("structure:"))
    for k in structure_keys:
        fld = k.split(":", 1)[1]
        if not any(o.status == "violation" and o.key == f"T10/{fld}" for o in check.obligations):
            check.violation("T10", fld, bad[k][0] + " (found by interpreting repr and eval, PY-sem)", loc(rep_fn), {"field": fld})
    if not structure_keys:
        check.ok(rule, f"{construct}/structure", f"eval(repr(E)) equals E field by field on the {cases} model engines x alias settings ({compared} fields compared)", loc(rep_fn), {},
                 exhaustive=True, cases=cases)
    for aspect, good in (("components", "every component represented on its own (variables, terms, rule blocks, rules, norms, activation methods, defuzzifiers) is rebuilt equal"),
                         ("encapsulated", "the code PythonExporter(encapsulated=True) writes brings its own import statement and rebuilds the engine"),
                         ("evaluates", "every representation is a Python expression that evaluates under its alias setting"),
                         ("fixed-point", "repr(eval(repr(E))) == repr(E), and both engines export the same FuzzyLite Language text")):
        hit = bad.get(aspect)
        where = loc(rep_fn)
        check.require(hit is None, rule, f"{construct}/{aspect}", good if hit is None else hit[0], where, {}, exhaustive=True, cases=cases)
    check.notes.append(f"{rule}: {cases} model engines x alias settings, {compared} fields compared")
    check.repr_interpreted = {q.split(":", 1)[1] for q in entered if q.startswith("__repr__:")}  # the classes whose representation the model engines exercised
    return not undecided


def evaluate_text(ex: ObjExec, text: str, env0: dict[str, Any]) -> Any:
    code, phs = lift_placeholders(text)
    tree = ast.parse(code, mode="eval")
    env = {**env0, **phs, "<module>": "__main__"}
    missing = unresolved(tree, env)
    if missing:
        raise Internal("NameError", f"`{missing}` does not resolve")
    return ex.ev(tree.body, env)


def components_alone(ex: ObjExec, eng: MObj, alias: str, label: str, bad: dict) -> None:
    """"The same holds for the representation of each component on its own": every component of the engine, represented and evaluated by itself."""
    parts: list[tuple[str, Any]] = []
    for coll in ("input_variables", "output_variables", "rule_blocks"):
        for c in eng.fields.get(coll, []):
            parts.append((f"{coll[:-1]} {c.fields.get('name')}", c))
            for t in c.fields.get("terms", []) if coll != "rule_blocks" else []:
                parts.append((f"term {t.fields.get('name')} ({t.cls})", t))
            for k in ("defuzzifier", "activation", "conjunction", "disjunction", "implication"):
                v = c.fields.get(k)
                if isinstance(v, MObj):
                    parts.append((f"{k} {v.cls}", v))
            agg = c.fields.get("fuzzy").fields.get("aggregation") if isinstance(c.fields.get("fuzzy"), MObj) else None
            if isinstance(agg, MObj):
                parts.append((f"aggregation {agg.cls}", agg))
            for rl in c.fields.get("rules", []) if coll == "rule_blocks" else []:
                parts.append(("rule", rl))
    env0 = namespace(ex, alias)
    seen_cls: set[str] = set()
    for what, obj in parts:
        key = obj.cls + ("" if obj.cls not in ("Rule",) else str(id(obj)))
        if key in seen_cls and obj.cls not in ("InputVariable", "OutputVariable", "RuleBlock"):
            continue
        seen_cls.add(key)
        try:
            text = ex.to_repr(obj, E0)
            back = evaluate_text(ex, text, env0)
        except (Raised, Internal) as err:
            bad.setdefault("components", (f"{label}: the {what} represented on its own does not evaluate: {err.cls}{(' (' + err.why + ')') if isinstance(err, Internal) else ''}", None))
            continue
        except (Unknown, SyntaxError):
            continue
        diffs: list[str] = []
        differences(obj, back, "", diffs, set(), limit=4)
        diffs = [d for d in diffs if "Rule.enabled" not in d]  # the known finding is reported once, on the engine
        if diffs:
            bad.setdefault("components", (f"{label}: the {what} represented on its own comes back different: {re.sub(r'^<[^>]+> ', '', diffs[0])}", None))


def encapsulated(ex: ObjExec, eng: MObj, alias: str, label: str, bad: dict, undecided: list[str]) -> None:
    """The code `PythonExporter(formatted=False, encapsulated=True).to_string(engine)` writes: its own import statement(s) give the namespace, the
    expression assigned to `self.engine` (or returned by the factory function) is evaluated in it and must rebuild the engine."""
    p = ex.p
    pc = p.classes.get("PythonExporter")
    if pc is None or pc.lookup("to_string") is None:
        return
    try:
        pe = ex.instantiate(pc, [], {"formatted": False, "encapsulated": True}, E0)
        code = ex.invoke(pc.lookup("to_string"), [pe, eng], {}, E0)
    except (Raised, Internal) as err:
        bad.setdefault("encapsulated", (f"{label}: PythonExporter(encapsulated=True).to_string fails with {err.cls}", None))
        return
    except Unknown as u:
        undecided.append(f"{label}: encapsulated export: {u}")
        return
    if not isinstance(code, str):
        return
    lifted, phs = lift_placeholders(code)
    try:
        mod = ast.parse(lifted)
    except SyntaxError as se:
        bad.setdefault("encapsulated", (f"{label}: the encapsulated code is not Python ({se.msg})", None))
        return
    env0: dict[str, Any] = {}
    for st in mod.body:
        if isinstance(st, (ast.Import, ast.ImportFrom)):
            env0.update(namespace(ex, alias, ast.unparse(st)))
    expr = None
    for node in ast.walk(mod):
        if isinstance(node, ast.Assign) and any(isinstance(t, ast.Attribute) and t.attr == "engine" for t in node.targets):
            expr = node.value
        elif isinstance(node, ast.Return) and node.value is not None and expr is None:
            expr = node.value
    if expr is None:
        bad.setdefault("encapsulated", (f"{label}: the encapsulated code builds no engine", None))
        return
    env = {**env0, **phs, "<module>": "__main__"}
    missing = unresolved(expr, env)
    if missing:
        bad.setdefault("encapsulated", (f"{label}: `{missing}` in the encapsulated code does not resolve after the import statements the code itself brings "
                                        f"({'; '.join(ast.unparse(s_) for s_ in mod.body if isinstance(s_, (ast.Import, ast.ImportFrom))) or 'none'})", None))
        return
    try:
        back = ex.ev(expr, env)
    except (Raised, Internal) as err:
        bad.setdefault("encapsulated", (f"{label}: evaluating the encapsulated code fails with {err.cls}", None))
        return
    except Unknown as u:
        undecided.append(f"{label}: encapsulated export: {u}")
        return
    diffs: list[str] = []
    differences(eng, back, "", diffs, set(), limit=4)
    diffs = [d for d in diffs if "Rule.enabled" not in d]
    if diffs:
        bad.setdefault("encapsulated", (f"{label}: the engine built by the encapsulated code differs: {re.sub(r'^<[^>]+> ', '', diffs[0])}", None))


# ---------------------------------------------------------------------------------------------- R1-sem
EDGE = {"float": [0.0], "int": [0], "bool": [False, True], "str": [""], "Scalar": [0.0]}
# parameters for which the edge value is outside the domain of the component, with the reason (the constructor may map it to the default)
NOT_A_VALUE = {("IntegralDefuzzifier", "resolution", 0): "a resolution of 0 has no sample points: None and 0 both select the default resolution"}


def constructor_fidelity(check: Check, rule: str = "R1-sem", bases: tuple[str, ...] = ("Term", "Activation", "Defuzzifier", "Variable", "RuleBlock", "Rule", "Engine"),
                         only: tuple[str, ...] | None = None) -> None:
    """`C(p=v).p == v` for every number / flag / text parameter p of every component constructor and the edge values 0, 0.0, False, ""."""
    p = check.program
    ex = new_exec(p)
    classes = []
    for b in bases:
        c0 = p.classes.get(b)
        if c0 is None:
            continue
        for c in [c0] + p.subclasses(b):
            if c not in classes and not c.is_abstract and c.outer is None and c.name not in ("Activated", "Aggregated"):
                classes.append(c)
    if only is not None:
        classes = [c for c in classes if c.name in only]
    n = 0
    n_und = 0
    for c in classes:
        init = c.lookup("__init__")
        if init is None:
            continue
        check.analysed(init)
        bad = None
        for pname, ann, default in ctor_params(c):
            ann_ = ann.replace(" ", "").replace("|None", "")
            if ann_ not in EDGE or pname in ("load",):
                continue
            for v in EDGE[ann_]:
                if any((k.name, pname, v) in NOT_A_VALUE for k in c.mro):
                    continue
                n += 1
                # the other number parameters get generic values (the defaults are NaN, which some constructors read as "derive this vertex")
                others = {q: Sym(f"v_{q}") for q, a2, _ in ctor_params(c) if q != pname and a2.replace(" ", "").replace("|None", "") in ("float", "Scalar") and q != "height"}
                try:
                    obj = ex.instantiate(c, [], {**others, pname: v}, E0)
                    got = ex.attr(obj, pname, E0)
                except Internal as err:
                    if err.cls == "AttributeError":
                        continue  # not stored under its own name: the subject of R1
                    bad = bad or f"{c.name}({pname}={v!r}) fails with {err.cls}"
                    continue
                except Raised:
                    continue  # the constructor rejects the value: not a silent change
                except Unknown:
                    n_und += 1
                    continue
                if isinstance(got, (FuncV, tuple)):
                    continue
                same = (got == v and type(got) is type(v)) or (isinstance(v, float) and isinstance(got, float) and got == v)
                if not same:
                    bad = bad or (f"{c.name}({pname}={v!r}) stores {got!r} as `{pname}`: the constructor does not keep the argument it is given "
                                  "(a default applied through the truth value of the argument loses 0, 0.0, False and the empty text)")
        # two objects built with the defaults share no mutable container (a mutable default argument, a class-level list: what one object is
        # given later - a function's own variables, a variable's terms - would then show in every other one)
        try:
            o1, o2 = ex.instantiate(c, [], {}, E0), ex.instantiate(c, [], {}, E0)
            for k, v in o1.fields.items():
                if isinstance(v, (list, dict, set)) and k in o2.fields and o2.fields[k] is v:
                    bad = bad or f"two {c.name} objects built with the default arguments share the same {type(v).__name__} as `{k}`: what is added to one shows in the other"
        except (Unknown, Raised, Internal):
            pass
        check.require(bad is None, rule, f"{c.name}.__init__/stores-arguments", f"{c.name}: number, flag and text arguments are stored as given, the edge values included"
                      if bad is None else bad, loc(init), exhaustive=True, cases=n)
    check.notes.append(f"{rule}: {n} (class, parameter, value) cases, {n_und} outside the interpreter's model")
    if n == 0:
        raise AnalysisError(f"{rule}: no constructor parameter examined")
