"""C14 - FuzzyLite Language export/import round-trips engines (writer/reader table agreement)."""

from __future__ import annotations

import ast
import glob
import os

from ..fll_tables import (configured_attrs, ctor_annotations, ctor_defaults, ctor_fields, exporter_table, importer_table,
                          printed_attrs)
from ..pm import AnalysisError, unparse
from ..report import Check
from ..sym import Resolver, Term, path_of, show, walk
from .common import const_value, loc

EXPLANATION = (
    "static analysis of FllExporter / FllImporter and of every parameters()/configure() pair: the writer's and reader's "
    "tables are extracted from the code and compared - keys per component, the attribute printed vs assigned under "
    "each key, value conversions vs constructor annotations, boolean/none spellings, ordered parameter lists of the 24 "
    "term classes (parameters() = configure() = constructor order, _parse arity, optional trailing height), "
    "activation/defuzzifier parameter order and conversions, elided lines vs constructor defaults, registration of "
    "every concrete class (constructible without arguments), coverage of every persistent constructor field, rule "
    "keywords; no variable / rule block (classes with __len__) is used as a truth value anywhere in the package (T15); thorough tier also "
    "checks the 61 shipped .fll files against the extracted tables; every parameter of the exporter / importer methods is read (T16)"
    "; FllImporter.engine is interpreted on nine model documents: every component of the text is processed once, in the order of the text, with its own lines (T13 flush)"
    "; RT-sem - the whole round trip is interpreted (sa/objexec.py: the package's classes on model objects, floating-point fields as symbols that print as "
    "placeholders in the library's number format) on model engines built through the real constructors, containing every term, norm, activation and "
    "defuzzifier class, every flag in both states, optional components present and absent: export(import(export(E))) == export(E) as text, and "
    "import(export(E)) equals E field by field"
)
ASSUMPTIONS = [
    "representability of numbers at settings.decimals and numeric equality after re-import are not decided",
    "identifier names and single-line descriptions without '#' (property precondition)",
]
FLOORS = {"RT-sem": 4, "R1-sem": 30, "H8": 2, "T17": 1, "T16": 1, "T15": 2, "T13": 1, "T9": 50, "T11": 1}

KIND_BY_ANNOTATION = [("bool", "boolean"), ("float", "to_float"), ("SNorm", "snorm"), ("TNorm", "tnorm"),
                      ("Defuzzifier", "defuzzifier"), ("Activation", "activation"), ("str", "raw")]
VIA_BY_CONV = {"snorm": "norm", "tnorm": "norm", "defuzzifier": "defuzzifier", "activation": "activation"}
UNREGISTERED = {
    "NormLambda": "wraps a user callable; cannot be named in FLL",
    "NormFunction": "wraps a user Function; cannot be named in FLL",
    "HedgeLambda": "wraps a user callable; cannot be named in FLL",
    "HedgeFunction": "wraps a user Function; cannot be named in FLL",
    "Activated": "run-time value inside fuzzy outputs, excluded by TermFactory",
    "Aggregated": "run-time value (the fuzzy output itself), excluded by TermFactory",
}
DIRECTIVES = {("Engine", "load"): "directive, not state", ("Function", "load"): "directive, not state",
              ("Linear", "engine"): "back reference re-established by update_reference",
              ("Function", "engine"): "back reference re-established by update_reference",
              ("Function", "variables"): "programmatic API, outside the property's quantifier"}


def expected_conv(annotation: str) -> str | None:
    for needle, conv in KIND_BY_ANNOTATION:
        if needle in annotation:
            return conv
    return None


def run(check: Check) -> None:
    from .pyroundtrip_sem import constructor_fidelity
    from .roundtrip_sem import roundtrip

    # RT-sem: export -> import -> export interpreted on model engines that contain every component class, every flag in both states, every optional
    # component present and absent. It *decides* the clauses the table rules T4-T8, T10, T13 (line syntax), T14 and T17 approximate pair by pair
    # (which key is written and read, which attribute under it, value kinds, parameter order, what is elided, which field is covered, where the
    # engine is threaded, how numbers are printed). Where every model engine was decided those rules have nothing to add - and, recognising ways
    # of writing, they are what raises an alarm on a harmless rewrite - so they run only as a fallback, when the interpreter could not follow the code.
    decided = roundtrip(check)
    constructor_fidelity(check)  # R1-sem: the importer's objects are built by the constructors: arguments are stored as given
    if decided:
        check.notes.append("RT-sem decided every model engine and text: the table rules T4-T8, T10, T13 line syntax, T14, T17 (its fallback) were not needed")
    else:
        components(check)
        spellings(check)
        term_tables(check)
        component_parameter_tables(check)
        elision_defaults(check)
        field_coverage(check)
        line_syntax(check)
        engine_threading(check)
    number_formatting(check)  # T17: every number Op.str formats (0-d and 1-d arrays too, which the model engines do not contain) is fixed-point at call-time decimals
    registration(check)
    keywords(check)
    engine_blocks(check)
    from .common import component_truthiness, memoisation_rule, unused_parameters

    component_truthiness(check, "T15")
    unused_parameters(check, "T16", {"FllExporter", "FllImporter", "Exporter", "Importer"})
    memoisation_rule(check)  # H8: a memoised printer / parser answers from an earlier state of the object or of the settings
    if check.tier == "thorough":
        try:
            corpus(check)
        except AnalysisError as ex:
            check.notes.append(f"T12 corpus conformance not run: the tables could not be extracted ({ex})")
    check.exhaustive_parts += ["the round trip on model engines containing every component class"]


# ------------------------------------------------------------------------------------------------ T4 / T5
def components(check: Check) -> None:
    p = check.program
    var_fn, _, var_entries = exporter_table(p, "variable")
    ov_fn, _, ov_entries = exporter_table(p, "output_variable")
    eng_fn, _, eng_entries = exporter_table(p, "engine")
    rb_fn, _, rb_entries = exporter_table(p, "rule_block")
    for f in (var_fn, ov_fn, eng_fn, rb_fn):
        check.analysed(f)
    # delegation: input_variable -> variable ; output_variable -> variable(terms=False) + own lines
    iv = p.func("FllExporter.input_variable")
    riv = Resolver(p, iv)
    rets = [riv.term(n.ast.value, n) for n in riv.cfg.stmt_nodes() if isinstance(n.ast, ast.Return) and n.ast.value is not None]
    ok = bool(rets) and all(t[0] == "call" and t[1] == ("attr", ("param", "self"), "variable") for t in rets)
    check.require(ok, "T4", "FllExporter.input_variable/delegates", "input variables are printed by the shared variable printer", loc(iv))
    rov = Resolver(p, ov_fn)
    deleg = [rov.term(c, n) for n, c in rov.cfg.all_calls() if rov.term(c.func, n) == ("attr", ("param", "self"), "variable")]
    ok = bool(deleg) and (dict(deleg[0][3]).get("terms") == ("const", False) or (len(deleg[0][2]) >= 2 and deleg[0][2][1] == ("const", False)))
    check.require(ok, "T4", "FllExporter.output_variable/delegates",
                  "output variables start with the shared variable lines (terms printed after the output-specific lines)", loc(ov_fn))
    sets = {
        "Engine": (eng_fn, eng_entries, "_process", "Engine"),
        "InputVariable": (var_fn, var_entries, "input_variable", "InputVariable"),
        "OutputVariable": (ov_fn, var_entries + ov_entries, "output_variable", "OutputVariable"),
        "RuleBlock": (rb_fn, rb_entries, "rule_block", "RuleBlock"),
    }
    for comp, (efn, eentries, imethod, ctor) in sets.items():
        ifn, ientries, tested = importer_table(p, imethod, ctor)
        check.analysed(ifn)
        ann = ctor_annotations(p, p.cls(comp))
        imp = {e.key: e for e in ientries if e.how == "assign"}
        exp_keys = {}
        for e in eentries:
            exp_keys[comp if e.key == "<class>" else e.key] = e
        for key, e in exp_keys.items():
            construct = f"{comp}/{key}"
            if key not in imp:
                check.violation("T4", construct, f"`{key}:` is written for a {comp} but the importer has no branch for it (re-import raises or drops it)",
                                f"{efn.file}:{e.lineno}")
                continue
            i = imp[key]
            same = e.attrs == [i.attr]
            if i.attr == "range":
                same = e.attrs == range_setter_order(check)
            check.require(same, "T4", construct,
                          f"`{key}:` prints {e.attrs} and the importer assigns `{i.attr}`" + ("" if same else " - a different attribute"),
                          f"{ifn.file}:{i.lineno}", {"exported": e.attrs, "imported": i.attr})
            # T5 conversion vs annotation
            if key == comp or i.attr == "range":
                continue
            want = expected_conv(ann.get(i.attr, ""))
            if want is None:
                continue
            ok = i.conv == want and e.via == VIA_BY_CONV.get(want)
            check.require(ok, "T5", construct, f"`{i.attr}` ({ann.get(i.attr)}) is written with {e.via or 'format'} and read with {i.conv}"
                          + ("" if ok else f"; expected reader {want} / writer {VIA_BY_CONV.get(want) or 'format'}"),
                          f"{ifn.file}:{i.lineno}")
        for key, i in imp.items():
            if key not in exp_keys:
                check.violation("T4", f"{comp}/{key}", f"the importer accepts `{key}:` for a {comp} but the exporter never writes it "
                                "(information lost by one import/export cycle)", f"{ifn.file}:{i.lineno}")
        # unknown keys are rejected
        raises = [n for n in ast.walk(ifn.analysis_node) if isinstance(n, ast.Raise)]
        check.require(bool(raises), "T4", f"{comp}/unknown-key", "an unknown key is rejected", loc(ifn))
    # sub-component lists
    def prints_all(efn, prm: str, coll: str, meth: str) -> int:
        """Position of `self.<meth>(x) for x in <prm>.<coll>` (comprehension, for-each or index loop); 0 when absent."""
        from .common import early_exits, is_path, loops_over

        rr = Resolver(p, efn)
        want = f"{prm}.{coll}"
        for n in rr.cfg.stmt_nodes():
            for e in rr.cfg.exprs_of(n):
                for x in ast.walk(e):
                    if isinstance(x, (ast.ListComp, ast.GeneratorExp)) and len(x.generators) == 1 and not x.generators[0].ifs:
                        g = x.generators[0]
                        if path_of(rr.term(g.iter, n)) == want and isinstance(g.target, ast.Name):
                            for c in ast.walk(x.elt):
                                if isinstance(c, ast.Call) and isinstance(c.func, ast.Attribute) and c.func.attr == meth and unparse(c.func.value) == "self" and \
                                        len(c.args) == 1 and isinstance(c.args[0], ast.Name) and c.args[0].id == g.target.id:
                                    return n.lineno * 1000 + x.col_offset
        for h, base, d in loops_over(rr, lambda b_: is_path(b_, want)):
            if d != "forward" or early_exits(rr.cfg, h):
                continue
            body = rr.cfg.loop_body(h)
            for n in body:
                for c in rr.cfg.calls_in(n):
                    t = rr.term(c, n)
                    if t[0] == "call" and t[1] == ("attr", ("param", "self"), meth) and t[2] == (("elem", base),) and \
                            not [g_ for g_ in rr.cfg.must_guards(n) if g_[2] in body]:
                        return h.lineno * 1000
        return 0

    for efn, meth, coll, comp in ((var_fn, "term", "terms", "Variable"), (ov_fn, "term", "terms", "OutputVariable"),
                                  (rb_fn, "rule", "rules", "RuleBlock")):
        prm = efn.params[1].name
        check.require(bool(prints_all(efn, prm, coll, meth)), "T4", f"{comp}/{coll}", f"every element of {coll} is printed with the {meth} printer, in order", loc(efn))
    eprm = eng_fn.params[1].name
    order = [prints_all(eng_fn, eprm, "input_variables", "input_variable"), prints_all(eng_fn, eprm, "output_variables", "output_variable"),
             prints_all(eng_fn, eprm, "rule_blocks", "rule_block")]
    check.require(all(o > 0 for o in order) and order == sorted(order), "T4", "Engine/components",
                  "an engine prints all input variables, output variables and rule blocks, in this order", loc(eng_fn))
    # every component that is read is added: nothing about the component itself decides whether it is kept
    for q in ("FllImporter._process", "FllImporter.input_variable", "FllImporter.output_variable", "FllImporter.rule_block"):
        f_ = p.func(q)
        check.analysed(f_)
        rr = Resolver(p, f_)
        for n, c in rr.cfg.find_calls(".append"):
            if not (isinstance(c.func, ast.Attribute) and isinstance(c.func.value, ast.Attribute) and
                    c.func.value.attr in ("input_variables", "output_variables", "rule_blocks", "terms", "rules") and c.args):
                continue
            val = rr.term(c.args[0], n)
            odd = []
            for g, pol, gn in rr.cfg.must_guards(n):
                gt = rr.term(g, gn)
                while gt[0] == "unop" and gt[1] == "not":
                    gt = gt[2]
                if gt[0] == "cmp" and any(x[0] == "const" and isinstance(x[1], str) for x in gt[2]):
                    continue  # which key / component this line is
                if gt[0] in ("elem", "call") and not any(q_ == val for q_ in walk(gt)) and gt != val:
                    continue  # a test on the line itself (blank lines)
                if gt == val:
                    # truthiness of the parsed component: harmless only for classes that are always truthy
                    meth = val[1][2] if val[0] == "call" and val[1][0] == "attr" else None
                    target = p.cls("FllImporter").lookup(meth) if meth else None
                    ret = unparse(target.node.returns).split("|")[0].strip() if target is not None and target.node.returns is not None else None
                    cls_ = p.classes.get(ret) if ret else None
                    sized = [m for m in ("__bool__", "__len__") if cls_ is not None and cls_.lookup(m) is not None]
                    if cls_ is not None and not sized:
                        continue
                    odd.append(f"`{unparse(g)}` - a {ret or 'component'} is falsy when " + (f"its {sized[0]} says so (no terms / no rules)" if sized else "?"))
                    continue
                odd.append(f"`{unparse(g)}`")
            check.require(not odd, "T4", f"{q.split('.')[-1]}/{c.func.value.attr}.append",
                          f"every {c.func.value.attr[:-1].replace('_', ' ')} that is read is added" if not odd else
                          f"a parsed component is added only when {odd[0]}: such a component is silently dropped by the import, the second export differs "
                          "from the first and the imported engine has a different structure", loc(f_, n))
    # (that blocks start at the four component headers is part of T13 flush: FllImporter.engine interpreted on model documents)
    # term line: name Class parameters
    tfn, _, tentries = exporter_table(p, "term")
    check.analysed(tfn)
    rt = Resolver(p, tfn)
    calls = [rt.term(c, n) for n, c in rt.cfg.all_calls() if rt.term(c.func, n) == ("attr", ("param", "self"), "format")]
    ok = False
    if calls and len(calls[0][2]) == 2 and calls[0][2][1][0] == "tuple":
        a, b, c_ = calls[0][2][1][1]
        ok = calls[0][2][0] == ("const", "term") and b[0] == "call" and b[1][1].endswith("class_name") and \
            c_ == ("call", ("attr", ("param", tfn.params[1].name), "parameters"), (), ()) and any(path_of(s) == f"{tfn.params[1].name}.name" for s in walk(a))
    check.require(ok, "T4", "Term/line", "a term line is `term: <name> <ClassName> <parameters()>`", loc(tfn))
    itf = p.func("FllImporter.term")
    check.analysed(itf)
    ri = Resolver(p, itf)
    values_t = None
    facts = {"construct": False, "configure": False, "update": False}
    for n, c in ri.cfg.all_calls():
        t = ri.term(c, n)
        if t[0] == "call" and t[1][0] == "attr" and t[1][2] == "construct" and len(t[2]) == 1:
            kw = dict(t[3])
            cls_arg, name_arg = t[2][0], kw.get("name", ("const", None))
            ok1 = cls_arg[0] == "sub" and cls_arg[2] == ("const", 1)
            ok2 = any(s_[0] == "sub" and s_[2] == ("const", 0) and s_[1] == cls_arg[1] for s_ in walk(name_arg))
            facts["construct"] = ok1 and ok2
            values_t = cls_arg[1]
        if t[0] == "call" and t[1][0] == "attr" and t[1][2] == "configure" and len(t[2]) == 1:
            facts["configure"] = t[2][0][0] == "sub" and t[2][0][2] == ("const", 2)
        if t[0] == "call" and t[1][0] == "attr" and t[1][2] == "update_reference":
            facts["update"] = t[2] == (("param", itf.params[2].name),) if len(itf.params) > 2 else False
    split_ok = values_t is not None and any(s_[0] == "call" and s_[1][0] == "attr" and s_[1][2] == "split" and dict(s_[3]).get("maxsplit") == ("const", 2) for s_ in walk(values_t))
    ok = all(facts.values()) and split_ok
    check.require(ok, "T4", "Term/read", "the importer constructs values[1] named values[0], configures it with the rest of the line and re-points it to the engine"
                  if ok else f"term import: {facts}, split into name/class/parameters={split_ok}", loc(itf))


def named_component_reader(check: Check, m: str) -> None:
    """FllImporter.tnorm/snorm/activation/defuzzifier interpreted on '', 'none', a bare class name and a name with parameters."""
    from ..guards import RoleEval, paths
    from ..sym import PathResolver

    p = check.program
    fn = p.func(f"FllImporter.{m}")
    check.analysed(fn)
    r = Resolver(p, fn)
    cfg = r.cfg
    prm = fn.params[1].name
    FLL = ("param", prm)

    def is_split(t: Term) -> bool:
        return t[0] == "call" and t[1] == ("attr", FLL, "split")

    def classify(t: Term, e):
        if t == FLL:
            return "fll"
        if t[0] == "call" and t[1] == ("global", "len") and len(t[2]) == 1 and is_split(t[2][0]):
            return "ntokens"
        if t[0] == "sub" and is_split(t[1]) and t[2] == ("const", 1):
            return "param_text"
        return None

    cases = [("", 0, "none"), ("none", 1, "none"), ("Name", 1, "bare")]
    if m in ("activation", "defuzzifier"):
        cases.append(("Name 1", 2, "with-parameters"))
    bad = []
    for text, ntok, kind in cases:
        ev = RoleEval(r, classify)
        env = {"fll": text, "ntokens": ntok, "param_text": "1"}
        pths = paths(cfg, [s_ for s_, _ in cfg.entry.succ][0], ev, env, set())
        for pa in pths:
            end = [n for n in pa if n.kind == "stmt" and isinstance(n.ast, ast.Return)]
            if pa[-1].kind == "raise_exit" or not end:
                bad.append((text, "does not return"))
                continue
            pr = PathResolver(p, fn, pa)
            rt = pr.at(end[-1].ast.value, pr.index_of(end[-1])) if end[-1].ast.value is not None else ("const", None)
            configured = [pr.at(c, i) for i, n in enumerate(pa) for c in cfg.calls_in(n) if isinstance(c.func, ast.Attribute) and c.func.attr == "configure"]
            constructs = rt[0] == "call" and rt[1][0] == "attr" and rt[1][2] == "construct" and any(s_[0] == "attr" and s_[2] == {"tnorm": "tnorm", "snorm": "snorm",
                         "activation": "activation", "defuzzifier": "defuzzifier"}[m] for s_ in walk(rt[1][1]))
            if kind == "none" and rt != ("const", None):
                bad.append((text, f"returns {show(rt)[:60]} instead of None"))
            if kind == "bare" and (not constructs or configured):
                bad.append((text, "a bare class name must be constructed and left with its defaults"))
            if kind == "with-parameters":
                def select(t: Term) -> Term:
                    while t[0] == "ifexp":
                        cnd = ev.eval_term(t[1], env)
                        t = t[2] if cnd is True else (t[3] if cnd is False else ("const", "<undecided>"))
                    return t

                arg = select(configured[0][2][0]) if len(configured) == 1 and configured[0][2] else ("const", None)
                conf_ok = len(configured) == 1 and arg[0] == "sub" and arg[2] == ("const", 1) and configured[0][1][1] == rt
                if not constructs or not conf_ok:
                    bad.append((text, "the class must be constructed from the first token and configured with the rest of the value"))
    check.require(not bad, "T5", f"FllImporter.{m}/none", f"`none`/empty is read back as a missing {m}; a class name is constructed"
                  + ("; parameters, when present, configure it" if m in ("activation", "defuzzifier") else "") if not bad else f"{m} reader: {bad[:3]}",
                  loc(fn), exhaustive=True, cases=len(cases))
    if m in ("activation", "defuzzifier"):
        check.require(not [b_ for b_ in bad if b_[0] in ("Name", "Name 1")], "T8", f"FllImporter.{m}/no-parameters",
                      "without parameters the freshly constructed object is kept as is", loc(fn))


def range_setter_order(check: Check) -> list[str]:
    """Attributes the `range` setter assigns, ordered by the position of the given pair they receive (resolved terms: tuple
    assignment, temporaries, subscripts of the parameter)."""
    p = check.program
    fn = p.cls("Variable").lookup_setter("range")
    if fn is None:
        raise AnalysisError("anchor vanished: Variable.range setter")
    r = Resolver(p, fn)
    prm = ("param", fn.params[1].name)
    got: dict[int, str] = {}
    for n in r.cfg.stmt_nodes():
        a = n.ast
        if not isinstance(a, (ast.Assign, ast.AnnAssign)) or a.value is None:
            continue
        targets = a.targets if isinstance(a, ast.Assign) else [a.target]
        for tg in targets:
            elts = list(tg.elts) if isinstance(tg, ast.Tuple) else [tg]
            for i, e in enumerate(elts):
                if not (isinstance(e, ast.Attribute) and r.term(e.value, n) == ("param", "self")):
                    continue
                v = r.term(a.value, n)
                pos = None
                if isinstance(tg, ast.Tuple) and v == prm:
                    pos = i
                elif v[0] == "unpack" and v[1] == prm and len(v[2]) == 1:
                    pos = v[2][0]
                elif v[0] == "sub" and v[1] == prm and v[2][0] == "const" and isinstance(v[2][1], int):
                    pos = v[2][1]
                if pos is not None:
                    got[pos] = e.attr
    return [got[k] for k in sorted(got)]


def spellings(check: Check) -> None:
    p = check.program
    fmt = p.func("FllExporter.format")
    check.analysed(fmt)
    r = Resolver(p, fmt)
    cfg = r.cfg
    # bool branch
    ok_bool = False
    ok_none = False
    ok_float = False
    for n, c in cfg.find_calls(".append"):
        gs = [(r.term(g, gn), pol) for g, pol, gn in cfg.must_guards(n)]
        t = r.term(c.args[0], n) if c.args else ("const", None)
        if any(pol and g[0] == "call" and g[1] == ("global", "isinstance") and g[2][1] == ("global", "bool") for g, pol in gs):
            ok_bool = t[0] == "call" and t[1][0] == "attr" and t[1][2] == "lower" and t[1][1][0] == "call" and t[1][1][1] == ("global", "str")
        if any(pol and g[0] == "cmp" and g[1] == ("is",) and g[2][1] == ("const", None) for g, pol in gs):
            ok_none = t == ("const", "none")
        if any(pol and g[0] == "call" and g[1] == ("global", "isinstance") and g[2][1] == ("global", "float") for g, pol in gs):
            ok_float = t[0] == "call" and t[1][0] == "global" and t[1][1].endswith("Operation.str")
    # isinstance(bool) is tested before isinstance(float)/others: bool is not a float subclass, fine; but it must precede the generic branch
    check.require(ok_bool, "T5", "FllExporter.format/bool", "booleans are written as str(value).lower() -> true/false", loc(fmt))
    check.require(ok_none, "T5", "FllExporter.format/none", "a missing component is written as `none`", loc(fmt))
    check.require(ok_float, "T5", "FllExporter.format/float", "floats are written with Op.str (settings.decimals)", loc(fmt))
    b = p.func("FllImporter.boolean")
    check.analysed(b)
    # by interpretation on concrete strings: "true" / "false" (also padded) read as True / False, anything else is a SyntaxError
    from ..absexec import AbsExec, Internal, MObj, Raised, Unknown, _Return

    got: dict[str, object] = {}
    try:
        for text in ("true", "false", " true ", "false\t", "True", "1", "", "yes", "truefalse"):
            ex = AbsExec(b.qualname, {}, helpers={k: v for k, v in b.cls.methods.items() if k != "boolean"})
            ex.concrete_strings = True
            try:
                try:
                    ex.block(list(b.node.body), {b.params[0].name: MObj("FllImporter", {"separator": "\n"}), b.params[1].name: text})
                    got[text] = None
                except _Return as r_:
                    got[text] = r_.value
            except Raised as err:
                got[text] = err.cls
            except Internal as err:
                got[text] = "!" + err.cls
    except Unknown as u:
        raise AnalysisError(str(u)) from None
    want = {"true": True, "false": False, " true ": True, "false\t": False, "True": "SyntaxError", "1": "SyntaxError", "": "SyntaxError", "yes": "SyntaxError",
            "truefalse": "SyntaxError"}
    wrong = {k: v for k, v in got.items() if v is not want[k] and v != want[k] or type(v) is not type(want[k])}
    check.require(not wrong, "T5", "FllImporter.boolean/spelling", "the importer reads true / false (surrounded by blanks or not) as True / False and rejects anything else "
                  "with a SyntaxError" if not wrong else f"FllImporter.boolean gives {wrong} (specified {({k: want[k] for k in wrong})})", loc(b), exhaustive=True, cases=len(want))
    for m in ("tnorm", "snorm", "activation", "defuzzifier"):
        named_component_reader(check, m)
    for m in ("norm", "activation", "defuzzifier"):
        fn = p.func(f"FllExporter.{m}")
        check.analysed(fn)
        rr = Resolver(p, fn)
        rets = [rr.term(n.ast.value, n) for n in rr.cfg.stmt_nodes() if isinstance(n.ast, ast.Return) and n.ast.value is not None]
        ok = any(any(s == ("const", "none") for s in walk(t)) for t in rets) and \
            any(any(s[0] == "call" and s[1][0] == "global" and s[1][1].endswith("class_name") for s in walk(t)) for t in rets)
        check.require(ok, "T5", f"FllExporter.{m}/none", f"a missing {m} is written as `none`, a present one by class name", loc(fn))


# ------------------------------------------------------------------------------------------------ T6
def term_tables(check: Check) -> None:
    p = check.program
    special = {"Constant", "Discrete", "Linear", "Function"}
    for c in p.subclasses("Term", concrete_only=True):
        if c.name in ("Activated", "Aggregated"):
            continue
        pa, pc, pfn = printed_attrs(p, c)
        ca, req, hflag, cfn = configured_attrs(p, c)
        ctor = ctor_fields(p, c)
        where = c.loc()
        for f in (pfn, cfn):
            if f is not None:
                check.analysed(f)
        if c.name in special:
            special_term(check, c, pa, ca, req, hflag, ctor)
            continue
        if pa is None or ca is None:
            check.violation("T6", f"{c.name}/pair", "parameters()/configure() pair not found", where)
            continue
        conf_names = [a for a, _ in ca]
        shape = ctor[1:-1] if ctor and ctor[0] == "name" and ctor[-1] == "height" else None
        problems = []
        if shape is None:
            problems.append(f"constructor is {ctor}, expected (name, <parameters>, height)")
        else:
            if pa != shape:
                problems.append(f"parameters() prints {pa}, constructor order is {shape}")
            if conf_names[:-1] != shape:
                problems.append(f"configure() assigns {conf_names}, constructor order is {shape} + height")
        if not conf_names or conf_names[-1] != "height":
            problems.append("configure() does not take the optional height last")
        if req != len(pa):
            problems.append(f"_parse expects {req} values but parameters() prints {len(pa)}")
        if hflag is not True:
            problems.append("_parse is called without the optional height")
        if pfn is not None and not any(isinstance(x, ast.Call) and isinstance(x.func, ast.Attribute) and x.func.attr == "_parameters" for x in ast.walk(pfn.analysis_node)):
            problems.append("parameters() does not go through _parameters (height elision)")
        check.require(not problems, "T6", f"{c.name}/parameters", f"{c.name}: parameters() = configure() = constructor order {pa} (+ optional height)"
                      if not problems else f"{c.name}: " + "; ".join(problems), where, {"printed": pa, "configured": conf_names, "constructor": ctor, "required": req})
    parse_helper(check)
    parameters_helper(check)


def parse_helper(check: Check) -> None:
    """Term._parse: interpreted for every (number of values given, required, height flag)."""
    from ..guards import UNKNOWN, RoleEval

    p = check.program
    fn = p.func("Term._parse")
    check.analysed(fn)
    r = Resolver(p, fn)
    cfg = r.cfg
    req_p, par_p = fn.params[1].name, fn.params[2].name
    hp = [q.name for q in fn.params if q.kind == "kwonly"] or ["height"]

    def classify(t: Term, e):
        if t[0] == "call" and t[1] == ("global", "len") and len(t[2]) == 1:
            return "n"
        if t == ("param", req_p):
            return "required"
        if t == ("param", hp[0]):
            return "height"
        return None

    bad = []
    rows = 0
    for n0 in range(0, 7):
        for required in range(0, 5):
            for height in (True, False):
                rows += 1
                appended = 0
                node = [s for s, _ in cfg.entry.succ][0]
                outcome = None
                steps = 0
                while outcome is None and steps < 200:
                    steps += 1
                    if node.kind == "exit":
                        outcome = "return"
                        break
                    if node.kind == "raise_exit":
                        outcome = "raise"
                        break
                    if node.kind == "test":
                        ev = RoleEval(r, classify)
                        v = ev.value(node.ast, node, {"n": n0 + appended, "required": required, "height": height})
                        if v is UNKNOWN:
                            raise AnalysisError(f"Term._parse: condition `{unparse(node.ast)}` not understood")
                        nxt = [s for s, l in node.succ if l == ("true" if v else "false")]
                    else:
                        if node.kind == "stmt":
                            for c in cfg.calls_in(node):
                                if isinstance(c.func, ast.Attribute) and c.func.attr == "append":
                                    appended += 1
                        if node.kind == "stmt" and isinstance(node.ast, ast.Raise):
                            outcome = "raise"
                            break
                        nxt = [s for s, l in node.succ if l != "exc"]
                    if not nxt:
                        outcome = "stuck"
                        break
                    node = nxt[0]
                want_accept = n0 == required + int(height) or (height and n0 == required)
                want_len = required + int(height)
                got_accept = outcome == "return"
                if got_accept != want_accept or (got_accept and n0 + appended != want_len):
                    bad.append({"given": n0, "required": required, "height": height, "outcome": outcome, "length": n0 + appended})
    raises = {unparse(x.exc.func) for x in ast.walk(fn.analysis_node) if isinstance(x, ast.Raise) and isinstance(x.exc, ast.Call)}
    ok = not bad and raises == {"ValueError"}
    check.require(ok, "T6", "Term._parse/arity", "_parse accepts exactly `required` values (height then defaults to 1.0) or `required`+1 when a height is allowed, else ValueError"
                  if ok else f"_parse disagrees with the specification: {bad[:3]} raises={sorted(raises)}", loc(fn), {"rows": rows}, exhaustive=True, cases=rows)
    # the default height appended is 1.0 and values are converted with to_float
    apps = [r.term(c.args[0], n) for n, c in cfg.find_calls(".append") if c.args]
    check.require(apps == [("const", 1.0)], "T6", "Term._parse/default-height", f"the height defaults to 1.0 (appended: {[show(a) for a in apps]})", loc(fn))


def parameters_helper(check: Check) -> None:
    from ..guards import RoleEval, simulate

    p = check.program
    fn = p.func("Term._parameters")
    check.analysed(fn)
    r = Resolver(p, fn)
    cfg = r.cfg
    vararg = [q.name for q in fn.params if q.kind == "vararg"]
    OPSTR = ("global", "fuzzylite.operation.Operation.str")
    h = ("attr", ("param", "self"), "height")
    # (1) the arguments, converted with Op.str, in order: extend(map(Op.str, args)) / extend(generator) / a list comprehension seed
    args_ok = False
    first_site = None
    for n in cfg.stmt_nodes():
        for c in cfg.calls_in(n):
            t = r.term(c, n)
            if t[0] == "call" and t[1][0] == "attr" and t[1][2] == "extend" and vararg and t[2] == (("call", ("global", "map"), (OPSTR, ("param", vararg[0])), ()),):
                args_ok, first_site = True, n
        for e in cfg.exprs_of(n):
            for x in ast.walk(e):
                if isinstance(x, (ast.ListComp, ast.GeneratorExp)) and len(x.generators) == 1 and not x.generators[0].ifs and vararg and \
                        unparse(x.generators[0].iter) == vararg[0] and isinstance(x.elt, ast.Call) and r.term(x.elt.func, n) == OPSTR and \
                        isinstance(x.generators[0].target, ast.Name) and len(x.elt.args) == 1 and unparse(x.elt.args[0]) == x.generators[0].target.id:
                    args_ok, first_site = True, n
    # (2) the height, printed with Op.str, appended exactly when it is not close to 1, after the arguments
    app = [(n, r.term(c, n)) for n, c in cfg.find_calls(".append")]
    app_ok = len(app) == 1 and app[0][1][2] == (("call", OPSTR, (h,), ()),)
    close = ("call", ("global", "fuzzylite.operation.Operation.is_close"), (h, ("const", 1.0)), ())
    guard_ok = False
    if app_ok:
        res = {}
        for cl in (True, False):
            ev = RoleEval(r, lambda t, e: "close" if t == close else ("args" if vararg and t == ("param", vararg[0]) else None))
            may, must = simulate(cfg, [s_ for s_, _ in cfg.entry.succ][0], ev, {"close": cl, "args": True}, {app[0][0]}, set())
            res[cl] = (bool(may), bool(must))
        guard_ok = res[True] == (False, False) and res[False] == (True, True)
    order_ok = args_ok and app_ok and first_site is not None and first_site not in cfg.reach([s_ for s_, _ in app[0][0].succ])
    rets = [r.term(n.ast.value, n) for n in cfg.stmt_nodes() if isinstance(n.ast, ast.Return) and n.ast.value is not None]
    join_ok = bool(rets) and all(t[0] == "call" and t[1] == ("attr", ("const", " "), "join") for t in rets)
    ok = args_ok and app_ok and guard_ok and order_ok and join_ok
    check.require(ok, "T6", "Term._parameters/height-last", "_parameters prints the arguments in order and the height last, unless it is (close to) 1" if ok else
                  f"arguments printed in order={args_ok}, height printed with Op.str={app_ok}, elided iff close to 1={guard_ok}, height last={order_ok}, space separated={join_ok}",
                  loc(fn), exhaustive=True, cases=2)


def _ret_terms(p, fn):
    r = Resolver(p, fn)
    return r, [r.term(n.ast.value, n) for n in r.cfg.stmt_nodes() if isinstance(n.ast, ast.Return) and n.ast.value is not None]


def _self_store(r: Resolver, attr: str):
    """[(node, value term)] of `self.<attr> = value` stores."""
    out = []
    for n in r.cfg.stmt_nodes():
        for t in r.cfg.stores_at(n):
            if isinstance(t, ast.Attribute) and t.attr == attr and r.term(t.value, n) == ("param", "self") and isinstance(n.ast, (ast.Assign, ast.AnnAssign)):
                out.append((n, r.term(n.ast.value, n)))
    return out


def special_term(check: Check, c, pa, ca, req, hflag, ctor) -> None:
    p = check.program
    where = c.loc()
    name = c.name
    pfn, cfn = c.lookup("parameters"), c.lookup("configure")
    SELF = ("param", "self")
    if name == "Constant":
        ok = pa == ["value"] and ca == [("value", "_parse")] and req == 1 and hflag is False and ctor == ["name", "value"]
        check.require(ok, "T6", "Constant/parameters", "Constant: one value, no height, on both sides" if ok else
                      f"Constant: printed {pa}, configured {ca}, required {req}, height {hflag}, constructor {ctor}", where)
    elif name == "Discrete":
        from ..guards import RoleEval, paths
        from ..sym import PathResolver

        rp, prets = _ret_terms(p, pfn)
        to_list = ("call", ("attr", SELF, "to_list"), (), ())
        p_ok = bool(prets) and all(t[0] == "call" and t[1][0] == "attr" and t[1][2] == "_parameters" and t[2] == (to_list,) for t in prets)
        rl, lrets = _ret_terms(p, c.lookup("to_list"))
        flat = ("call", ("attr", ("call", ("attr", ("attr", SELF, "values"), "flatten"), (), ()), "tolist"), (), ())
        l_ok = lrets == [flat]
        rc = Resolver(p, cfn)
        cfg = rc.cfg
        prm = cfn.params[1].name
        split = ("call", ("attr", ("param", prm), "split"), (), ())

        def classify(t, e):
            if t[0] == "binop" and t[1] == "%" and t[3] == ("const", 2) and t[2][0] == "call" and t[2][1] == ("global", "len"):
                return "rem"
            return None

        def pairs_of(tokens):
            return ("call", ("global", "fuzzylite.term.Discrete.to_xy"),
                    (("sub", tokens, ("slice", ("const", 0), ("const", None), ("const", 2))), ("sub", tokens, ("slice", ("const", 1), ("const", None), ("const", 2)))), ())

        results = {}
        for rem in (0, 1):
            ev = RoleEval(rc, classify)
            outcome = []
            for pa in paths(cfg, [s_ for s_, _ in cfg.entry.succ][0], ev, {"rem": rem}, set()):
                pr = PathResolver(p, cfn, pa)
                hs = [(i, n) for i, n in enumerate(pa) if n.kind == "stmt" and any(isinstance(t_, ast.Attribute) and t_.attr == "height" for t_ in cfg.stores_at(n))]
                vs = [(i, n) for i, n in enumerate(pa) if n.kind == "stmt" and any(isinstance(t_, ast.Attribute) and t_.attr == "values" for t_ in cfg.stores_at(n))]
                dropped = any(n.kind == "stmt" and isinstance(n.ast, ast.Delete) and const_value(rc.term(n.ast.targets[0].slice, n)) == -1 for n in pa
                              if isinstance(getattr(n.ast, "targets", [None])[0], ast.Subscript))
                ht = pr.at(hs[-1][1].ast.value, hs[-1][0]) if hs else None
                vt = pr.at(vs[-1][1].ast.value, vs[-1][0]) if vs else None
                outcome.append((ht, vt, dropped))
            results[rem] = outcome
        even_ok = bool(results[0]) and all(ht == ("const", 1.0) and vt == pairs_of(split) for ht, vt, _ in results[0])
        last = ("call", ("global", "fuzzylite.library.to_float"), (("sub", split, ("unop", "-", ("const", 1))),), ())
        but_last = ("sub", split, ("slice", ("const", None), ("unop", "-", ("const", 1)), ("const", None)))
        odd_ok = bool(results[1]) and all(ht == last and ((vt == pairs_of(split) and dropped) or vt == pairs_of(but_last)) for ht, vt, dropped in results[1])
        rx, xrets = _ret_terms(p, c.lookup("to_xy"))
        xy_ok = bool(xrets) and all(t[0] == "attr" and t[2] == "T" and t[1][0] == "call" and t[1][2] and t[1][2][0][0] == "list" and len(t[1][2][0][1]) == 2 for t in xrets)
        ok = p_ok and l_ok and even_ok and odd_ok and xy_ok
        check.require(ok, "T6", "Discrete/parameters", "Discrete: x y pairs flattened row-wise (+ optional height) are read back as pairs; an odd count means a trailing height"
                      if ok else f"Discrete: printed through to_list={p_ok}, row-wise flatten={l_ok}, even count -> height 1 and all tokens paired={even_ok}, "
                      f"odd count -> last token is the height and is removed before pairing={odd_ok}, (x, y) columns={xy_ok}", where, exhaustive=True, cases=2)
    elif name == "Linear":
        rp, prets = _ret_terms(p, pfn)
        p_ok = bool(prets) and all(t[0] == "call" and t[1][0] == "attr" and t[1][2] == "_parameters" and t[2] == (("star", ("attr", SELF, "coefficients")),) for t in prets)
        prm = cfn.params[1].name
        rc = Resolver(p, cfn)
        st = _self_store(rc, "coefficients")
        tokens = ("call", ("attr", ("param", prm), "split"), (), ())
        want = ("mapped", tokens, ("call", ("global", "fuzzylite.operation.Operation.to_float"), (("elem", tokens),), ()))
        got = st[0][1] if len(st) == 1 else None
        while got is not None and got[0] == "call" and got[1][0] == "global" and got[1][1] in ("list", "tuple") and len(got[2]) == 1:
            got = got[2][0]
        c_ok = got is not None and (got == want or (got[0] == "mapped" and got[1] == tokens and got[2][0] == "call" and got[2][1][0] == "global" and
                                                    got[2][1][1].split(".")[-1] in ("to_float", "float") and got[2][2] == (("elem", tokens),)))
        ok = p_ok and c_ok
        check.require(ok, "T6", "Linear/parameters", "Linear: the coefficient list is printed and read back in order (no height)" if ok else
                      f"Linear: printed *coefficients={p_ok}, read back one float per token in order={c_ok}", where)
    elif name == "Function":
        rp, prets = _ret_terms(p, pfn)
        p_ok = prets == [("attr", SELF, "formula")]
        rc = Resolver(p, cfn)
        st = _self_store(rc, "formula")
        loads = [n for n, c_ in rc.cfg.find_calls(".load") if rc.term(c_.func.value, n) == SELF]  # type: ignore[union-attr]
        ok = p_ok and len(st) == 1 and st[0][1] == ("param", cfn.params[1].name) and bool(loads) and rc.cfg.must_precede([st[0][0]], loads[0])
        check.require(ok, "T6", "Function/parameters", "Function: the formula text is printed and read back verbatim, then loaded" if ok else
                      "Function: formula is not round-tripped verbatim / not loaded after being set", where)


# ------------------------------------------------------------------------------------------------ T7
def component_parameter_tables(check: Check) -> None:
    p = check.program
    for base in ("Activation", "Defuzzifier"):
        for c in p.subclasses(base, concrete_only=True):
            pa, pc, pfn = printed_attrs(p, c)
            ca, _, _, cfn = configured_attrs(p, c)
            ctor = ctor_fields(p, c)
            ann = ctor_annotations(p, c)
            where = c.loc()
            if not ctor:
                ok = not pa and not ca
                check.require(ok, "T7", f"{c.name}/parameters", f"{c.name} has no parameters on either side", where)
                continue
            problems = []
            names = [a for a, _ in (ca or [])]
            if pa != ctor:
                problems.append(f"parameters() prints {pa}, constructor takes {ctor}")
            if names != ctor:
                problems.append(f"configure() assigns {names}, constructor takes {ctor}")
            for (a, conv), how in zip(ca or [], pc or []):
                an = ann.get(a, "")
                if an.startswith("int") and conv != "int":
                    problems.append(f"{a}: int parameter read with {conv}")
                if an.startswith("float") and conv != "to_float":
                    problems.append(f"{a}: float parameter read with {conv}")
                if how == "value" and not conv.endswith("()"):
                    problems.append(f"{a}: printed by enum value but read with {conv}")
                if how == "name" and not conv.endswith("[]"):
                    problems.append(f"{a}: printed by enum name but read with {conv}")
                if how in ("value", "name") and conv in ("raw",):
                    problems.append(f"{a}: enum read back as text")
            check.require(not problems, "T7", f"{c.name}/parameters", f"{c.name}: parameters() and configure() agree on {ctor}"
                          if not problems else f"{c.name}: " + "; ".join(problems), where, {"printed": pa, "configured": ca})


# ------------------------------------------------------------------------------------------------ T8
def elision_defaults(check: Check) -> None:
    p = check.program

    def default_of(cls: str, field_: str):
        d = ctor_defaults(p, p.cls(cls)).get(field_)
        return unparse(d) if d is not None else None

    for comp in ("Engine", "Variable", "RuleBlock"):
        check.require(default_of(comp, "description") == "''", "T8", f"{comp}/description",
                      f"an empty description is not written, and a fresh {comp} has description '' (default {default_of(comp, 'description')})", p.cls(comp).loc())
    check.require(default_of("Term", "height") == "1.0", "T8", "Term/height", "height 1 is not written and _parse/constructors default it to 1.0", p.cls("Term").loc())
    from ..guards import RoleEval, paths, simulate, specialise
    from ..sym import PathResolver

    me = lambda a: ("attr", ("param", "self"), a)  # noqa: E731

    def returned(fn, classify, env) -> set:
        """The (specialised) values returned along every abstract path of fn under the role assignment."""
        r = Resolver(p, fn)
        cfg = r.cfg
        ev = RoleEval(r, classify)
        first = [s_ for s_, _ in cfg.entry.succ][0]
        out = set()
        for pa in paths(cfg, first, ev, env, set()):
            rn = [x for x in pa if x.kind == "stmt" and isinstance(x.ast, ast.Return) and x.ast.value is not None]
            if not rn:
                out.add(("none",))
                continue
            pr = PathResolver(p, fn, pa)
            out.add(specialise(pr.at(rn[-1].ast.value, pr.index_of(rn[-1])), ev, env))
        return out

    # Rule.text: `with <weight>` is written iff the weight is not close to 1; Rule.parse starts from weight 1.0
    rp = p.func("Rule.parse")
    rt = p.cls("Rule").getters.get("text") or p.func("Rule.text")
    check.analysed(rt)
    r = Resolver(p, rt)
    cfg = r.cfg
    close = ("call", ("global", "fuzzylite.operation.Operation.is_close"), (me("weight"), ("const", 1.0)), ())
    close2 = ("call", ("global", "fuzzylite.operation.Operation.is_close"), (("const", 1.0), me("weight")), ())
    printed = ("call", ("global", "fuzzylite.operation.Operation.str"), (me("weight"),), ())
    writers = {n for n in cfg.stmt_nodes() if any(q == printed for e in cfg.exprs_of(n) for q in walk(r.term(e, n)))}
    ev = RoleEval(r, lambda t, e: "close" if t in (close, close2) else None)
    first = [s_ for s_, _ in cfg.entry.succ][0]
    res = {}
    for v in (True, False):
        may, must = simulate(cfg, first, ev, {"close": v}, writers, set())
        res[v] = (bool(may), bool(must))
    rpr = Resolver(p, rp)
    wstores = [rpr.term(m.ast.value, m) for m in rpr.cfg.stmt_nodes() for tg in rpr.cfg.stores_at(m)  # type: ignore[union-attr]
               if isinstance(tg, ast.Attribute) and tg.attr == "weight"]
    seeded = bool(wstores) and all(any(const_value(a) == 1.0 for a in (t[1] if t[0] == "phi" else [t])) for t in wstores)
    ok = bool(writers) and res[True] == (False, False) and res[False] == (True, True) and seeded and default_of("Rule", "weight") == "1.0"
    check.require(ok, "T8", "Rule/weight", "a weight (close to) 1 is not written and parse defaults the weight to 1.0" if ok else
                  f"weight written when close to 1 (may, must)={res[True]}, otherwise={res[False]}; parse seeds the weight with 1.0: {seeded}; "
                  f"constructor default {default_of('Rule', 'weight')}", loc(rt), exhaustive=True, cases=2)
    # IntegralDefuzzifier.parameters: "" iff resolution == default_resolution, else the resolution
    idf = p.cls("IntegralDefuzzifier")
    pf = idf.lookup("parameters")
    check.analysed(pf)
    dres = ("global", "fuzzylite.defuzzifier.IntegralDefuzzifier.default_resolution")

    def cl_res(t, e):  # type: ignore[no-untyped-def]
        return "resolution" if t == me("resolution") else ("default" if t == dres or (t[0] == "attr" and t[2] == "default_resolution") else None)

    eq = returned(pf, cl_res, {"resolution": 0, "default": 0})
    ne = returned(pf, cl_res, {"resolution": 1, "default": 0})
    ri = Resolver(p, idf.lookup("__init__"))
    stores = [ri.term(m.ast.value, m) for m in ri.cfg.stmt_nodes() for tg in ri.cfg.stores_at(m)  # type: ignore[union-attr]
              if isinstance(tg, ast.Attribute) and tg.attr == "resolution"]
    fresh_default = bool(stores) and all((t[0] == "bool" and t[1] == "or" and t[2][0][0] == "param" and cl_res(t[2][1], None) == "default") or
                                         (t[0] == "ifexp" and any(cl_res(x, None) == "default" for x in (t[2], t[3]))) for t in stores) and \
        default_of("IntegralDefuzzifier", "resolution") == "None"
    ok = eq == {("const", "")} and ne == {("call", ("global", "fuzzylite.operation.Operation.str"), (me("resolution"),), ())} and fresh_default
    check.require(ok, "T8", "IntegralDefuzzifier/resolution", "the default resolution is not written and a fresh defuzzifier has it" if ok else
                  f"parameters() at the default resolution: {sorted(show(t) for t in eq)}; otherwise: {sorted(show(t) for t in ne)}; "
                  f"a missing resolution becomes the default: {fresh_default}", idf.loc(), exhaustive=True, cases=2)
    # WeightedDefuzzifier.parameters: "" iff type is Automatic (the constructor default), else the name of the type
    wd = p.cls("WeightedDefuzzifier")
    pf = wd.lookup("parameters")
    check.analysed(pf)

    def cl_type(t, e):  # type: ignore[no-untyped-def]
        return "type" if t == me("type") else ("automatic" if t[0] == "global" and t[1].endswith("Type.Automatic") else None)

    eq = returned(pf, cl_type, {"type": 0, "automatic": 0})
    ne = returned(pf, cl_type, {"type": 1, "automatic": 0})
    ok = eq == {("const", "")} and ne == {("attr", me("type"), "name")} and default_of("WeightedDefuzzifier", "type") == "Type.Automatic"
    check.require(ok, "T8", "WeightedDefuzzifier/type", "type Automatic is not written and is the constructor default" if ok else
                  f"parameters() for Automatic: {sorted(show(t) for t in eq)}; otherwise: {sorted(show(t) for t in ne)}; constructor default "
                  f"{default_of('WeightedDefuzzifier', 'type')}", wd.loc(), exhaustive=True, cases=2)


# ------------------------------------------------------------------------------------------------ T9
def registration(check: Check) -> None:
    p = check.program
    for base in ("Term", "Activation", "Defuzzifier", "TNorm", "SNorm", "Hedge"):
        for c in p.subclasses(base, concrete_only=True):
            init = c.lookup("__init__")
            missing = [x.name for x in (init.params if init else []) if x.name != "self" and x.default is None and x.kind in ("pos", "posonly", "kwonly")]
            if c.name in UNREGISTERED:
                check.ok("T9", f"{base}/{c.name}", f"not registered by design: {UNREGISTERED[c.name]}", c.loc())
                continue
            check.require(not missing, "T9", f"{base}/{c.name}",
                          f"{c.name} is constructible without arguments, so reflection registers it in the {base} factory" if not missing else
                          f"{c.name}.__init__ requires {missing}: the factory's reflection silently drops the class and FLL text naming it cannot be imported",
                          c.loc())
    for fac, base, module in (("ActivationFactory", "Activation", "activation"), ("DefuzzifierFactory", "Defuzzifier", "defuzzifier"),
                              ("SNormFactory", "SNorm", "norm"), ("TNormFactory", "TNorm", "norm"), ("TermFactory", "Term", "term"), ("HedgeFactory", "Hedge", "hedge")):
        fn = p.func(f"{fac}.__init__")
        check.analysed(fn)
        entries = keyed_entries(p, fn)
        src = ("call", ("attr", SELF, "import_from"), (("global", f"fuzzylite.{module}"), ("global", f"fuzzylite.{module}.{base}")), ())
        by_class = ("call", ("global", "fuzzylite.operation.Operation.class_name"), (("elem", src),), ())
        by_name = ("attr", ("call", ("elem", src), (), ()), "name")  # hedges are looked up by the word used in rules: instance.name
        good = [e for e in entries if e["base"] == src and e["value"] == ("elem", src) and e["key"] == (by_name if fac == "HedgeFactory" else by_class)]
        check.require(len(entries) == 1 and len(good) == 1, "T9", f"{fac}/keys",
                      f"{fac} registers every concrete {base} of module {module} under " + ("the name its instances carry (the word used in rules)" if fac == "HedgeFactory" else "its class name, which is what the exporter writes") if len(good) == 1 and len(entries) == 1 else
                      f"{fac} registrations: {[(show(e['key'])[:60], show(e['value'])[:40], show(e['base'])[:60]) for e in entries]}", loc(fn))
        excl = sorted({x for e in entries for x in e["excluded"]})
        want = ["fuzzylite.term.Activated", "fuzzylite.term.Aggregated"] if fac == "TermFactory" else []
        check.require(excl == want and not any(e["other_conditions"] for e in entries), "T9", f"{fac}/exclusions",
                      f"{fac} excludes exactly {[w.split('.')[-1] for w in want]}" if excl == want else f"{fac} excludes {excl} (specified: {want})", loc(fn))


SELF = ("param", "self")


def keyed_entries(p, fn) -> list[dict]:
    """The registrations `dict[key] = value` a factory constructor makes over a collection: from a dict comprehension or from a
    loop that stores into a dict; with the classes excluded by `x not in {...}` conditions / `if x in {...}: continue` guards."""
    r = Resolver(p, fn)
    cfg = r.cfg
    out = []

    def exclusion(t, pol: bool, elem) -> tuple[list[str] | None, bool]:
        """(excluded classes, recognised) for a condition that has truth value `pol` when the element is registered."""
        if t[0] == "unop" and t[1] == "not":
            return exclusion(t[2], not pol, elem)
        if t[0] == "cmp" and len(t[2]) == 2 and t[2][0] == elem and t[1][0] in ("in", "not in") and t[2][1][0] in ("set", "tuple", "list"):
            inside_means_registered = (t[1][0] == "in") == pol
            if not inside_means_registered and all(x[0] == "global" for x in t[2][1][1]):
                return [x[1] for x in t[2][1][1]], True
        return None, False

    for n in cfg.stmt_nodes():
        if n.copy:
            continue
        for e in cfg.exprs_of(n):
            for x in ast.walk(e):
                if isinstance(x, ast.DictComp):
                    t = r.term(x, n)
                    if t[0] != "mapped_dict":
                        raise AnalysisError(f"{fn.qualname}: dict comprehension at line {x.lineno} not modelled")
                    ex, other = [], []
                    for c in t[4]:
                        names, ok = exclusion(c, True, ("elem", t[1]))
                        (ex.extend(names) if ok else other.append(show(c)))  # type: ignore[arg-type]
                    out.append({"base": t[1], "key": t[2], "value": t[3], "excluded": ex, "other_conditions": other, "node": n})
        for tg in cfg.stores_at(n):
            if isinstance(tg, ast.Subscript) and isinstance(tg.value, ast.Name) and isinstance(n.ast, ast.Assign):
                key, val = r.term(tg.slice, n), r.term(n.ast.value, n)
                if val[0] != "elem":
                    continue
                ex, other = [], []
                hs = cfg.enclosing_loops(n)
                body = cfg.lexical_body(hs[-1]) if hs else set()
                for g, pol, gn in cfg.must_guards(n):
                    if gn in body:
                        names, ok = exclusion(r.term(g, gn), pol, val)
                        (ex.extend(names) if ok else other.append(unparse(g)))  # type: ignore[arg-type]
                out.append({"base": val[1], "key": key, "value": val, "excluded": ex, "other_conditions": other, "node": n})
    return out


# ------------------------------------------------------------------------------------------------ T10
def field_coverage(check: Check) -> None:
    p = check.program
    _, _, var_e = exporter_table(p, "variable")
    _, _, ov_e = exporter_table(p, "output_variable")
    _, _, eng_e = exporter_table(p, "engine")
    _, _, rb_e = exporter_table(p, "rule_block")
    exp = {
        "Engine": {a for e in eng_e for a in e.attrs} | {"input_variables", "output_variables", "rule_blocks"},
        "InputVariable": {a for e in var_e for a in e.attrs} | {"terms"},
        "OutputVariable": {a for e in var_e + ov_e for a in e.attrs} | {"terms"},
        "RuleBlock": {a for e in rb_e for a in e.attrs} | {"rules"},
    }
    imp = {}
    for comp, m in (("Engine", "_process"), ("InputVariable", "input_variable"), ("OutputVariable", "output_variable"), ("RuleBlock", "rule_block")):
        _, ie, _ = importer_table(p, m, comp)
        attrs = {e.attr for e in ie}
        if "range" in attrs:
            attrs |= set(range_setter_order(check))
        imp[comp] = attrs
    # Rule: exported through its text property, imported through parse
    rt = p.func("Rule.text")
    rp = p.func("Rule.parse")
    check.analysed(rt)
    check.analysed(rp)
    exp["Rule"] = {x.attr for x in ast.walk(rt.analysis_node) if isinstance(x, ast.Attribute) and isinstance(x.value, ast.Name) and x.value.id == "self"}
    imp["Rule"] = {x.attr for x in ast.walk(rp.analysis_node) if isinstance(x, ast.Attribute) and isinstance(x.value, ast.Name) and x.value.id == "self"
                   and isinstance(x.ctx, ast.Store)} | {x.value.attr for x in ast.walk(rp.analysis_node) if isinstance(x, ast.Attribute) and isinstance(x.ctx, ast.Store)
                                                        and isinstance(x.value, ast.Attribute) and isinstance(x.value.value, ast.Name) and x.value.value.id == "self"}
    for comp in ("Engine", "InputVariable", "OutputVariable", "RuleBlock", "Rule"):
        for f in ctor_fields(p, p.cls(comp)):
            if (comp, f) in DIRECTIVES:
                check.ok("T10", f"{comp}.{f}", f"exempt: {DIRECTIVES[(comp, f)]}", p.cls(comp).loc())
                continue
            w, r_ = f in exp[comp], f in imp[comp]
            check.require(w and r_, "T10", f"{comp}.{f}",
                          f"{comp}.{f} is written and read back" if w and r_ else
                          f"{comp}.{f} is a persistent constructor field but is " + ("not written by the FLL exporter" if not w else "not read by the FLL importer")
                          + ": it is lost by an export/import cycle", p.cls(comp).loc())
    for (cls, f), why in DIRECTIVES.items():
        if cls in ("Linear", "Function"):
            check.ok("T10", f"{cls}.{f}", f"exempt: {why}", p.cls(cls).loc())


def keywords(check: Check) -> None:
    p = check.program
    rt, rp = p.func("Rule.text"), p.func("Rule.parse")

    def kws(fn):
        return {x.attr for x in ast.walk(fn.analysis_node) if isinstance(x, ast.Attribute) and isinstance(x.value, ast.Name) and x.value.id == "Rule"
                and x.attr.isupper()}

    a, b = kws(rt), kws(rp)
    check.require(a == b == {"IF", "THEN", "WITH"}, "T11", "Rule/keywords", f"Rule.text writes {sorted(a)} and Rule.parse reads {sorted(b)}", loc(rt))


def engine_threading(check: Check) -> None:
    """T14: the engine under construction is handed down to every reader that takes one (terms and rules refer to it)."""
    p = check.program
    imp = p.cls("FllImporter")
    with_engine = {name: [q.name for q in f.params].index("engine") - 1 for name, f in imp.methods.items() if "engine" in [q.name for q in f.params]}
    sites = 0
    for name in ("engine", "_process", "input_variable", "output_variable", "rule_block", "term", "rule"):
        fn = imp.methods.get(name)
        if fn is None:
            raise AnalysisError(f"anchor vanished: FllImporter.{name}")
        check.analysed(fn)
        r = Resolver(p, fn)
        own = ("param", "engine") if "engine" in [q.name for q in fn.params] else None
        for n, c in r.cfg.all_calls():
            t = r.term(c, n)
            if not (t[0] == "call" and t[1][0] == "attr"):
                continue
            callee, recv = t[1][2], t[1][1]
            idx = None
            if recv == ("param", "self") and callee in with_engine:
                idx = with_engine[callee]
            elif callee == "update_reference":
                idx = 0
            elif t[1] == ("attr", ("global", "fuzzylite.rule.Rule"), "create") or (t[1][0] == "global" and t[1][1].endswith("Rule.create")):
                idx = 1
            if t[1] == ("global", "fuzzylite.rule.Rule.create"):
                idx = 1
            if idx is None:
                continue
            sites += 1
            kw = dict(t[3])
            arg = t[2][idx] if len(t[2]) > idx else kw.get("engine")
            good = arg is not None and (arg == own or (arg[0] == "call" and arg[1] == ("global", "fuzzylite.engine.Engine")))
            check.require(good, "T14", f"FllImporter.{name}->{callee}", f"{name} hands the engine on to {callee}" if good else
                          f"{name} calls {callee} without the engine being imported ({show(arg) if arg else 'argument omitted, default None'}): "
                          "terms/rules read there are not linked to the engine (Linear/Function terms cannot be evaluated after import)", loc(fn, n))
    for n, c in Resolver(p, p.func("FllImporter.rule")).cfg.all_calls():
        pass
    if sites < 6:
        raise AnalysisError(f"T14: only {sites} engine hand-over sites found in the importer")


def line_syntax(check: Check) -> None:
    """T13: `key: value` lines - split at the first colon only, both parts stripped, `#` starts a comment; blocks are flushed at the end."""
    p = check.program
    fn = p.func("FllImporter.extract_key_value")
    check.analysed(fn)
    r = Resolver(p, fn)
    parts = None
    for n, c in r.cfg.all_calls():
        t = r.term(c, n)
        if t[0] == "call" and t[1][0] == "attr" and t[1][2] == "split" and t[2] and t[2][0] == ("const", ":"):
            parts = t
    kw = dict(parts[3]) if parts else {}
    first_only = parts is not None and (kw.get("maxsplit") == ("const", 1) or (len(parts[2]) > 1 and parts[2][1] == ("const", 1)))
    check.require(first_only, "T13", "FllImporter.extract_key_value/first-colon", "a line is split at its first colon only, so values (descriptions, rule text) may contain colons"
                  if first_only else "the line is split at every colon: a description or term containing ':' is rejected or truncated on re-import", loc(fn))
    sc = p.func("Operation.strip_comments")
    check.analysed(sc)
    src_ok = any(isinstance(x, ast.Call) and isinstance(x.func, ast.Attribute) and x.func.attr == "find" for x in ast.walk(sc.analysis_node))
    dflt = [q.default for q in sc.params if q.name == "delimiter"]
    ok = src_ok and bool(dflt) and isinstance(dflt[0], ast.Constant) and dflt[0].value == "#"
    check.require(ok, "T13", "Operation.strip_comments/hash", "text after `#` is a comment", loc(sc))


def engine_blocks(check: Check) -> None:
    """T13 flush [E on the model documents]: `FllImporter.engine` is interpreted (sa/absexec.py) on documents made of concrete `key: value` lines -
    an Engine header, input / output variables, zero to three rule blocks, blank lines and comment-only lines, documents that end with a
    variable instead of a rule block, an empty document - with `_process` replaced by a recorder. Specified: `_process` is called once per
    component of the text, in the order of the text, with that component's kind and exactly its own lines (header first); comment-only and
    blank lines are handed to nobody."""
    from ..absexec import AbsExec, Internal, MObj, Opaque, Raised, Unknown, _Return

    p = check.program
    fe = p.func("FllImporter.engine")
    check.analysed(fe)
    node = fe.node
    params = [a.arg for a in node.args.args]
    HEAD = ("Engine", "InputVariable", "OutputVariable", "RuleBlock")
    docs = []
    eng = ["Engine: e", "  description: d"]
    iv = ["InputVariable: a", "  enabled: true", "  range: 0 1"]
    ov = ["OutputVariable: b", "  range: 0 1", "  default: nan"]
    rb = lambda k: [f"RuleBlock: r{k}", "  enabled: true", f"  rule: if a is x then b is y{k}"]  # noqa: E731
    for nrb in range(4):
        docs.append(eng + iv + ov + [ln for k in range(nrb) for ln in rb(k)])
    docs.append(eng + iv + [""] + ov + ["#c"] + rb(0) + ["", "#c"] + rb(1))
    docs.append(eng + rb(0) + iv + ov)  # a rule block that is not last
    docs.append(eng + rb(0) + iv + rb(1) + ov + rb(2))
    docs.append(iv)  # a fragment without an Engine header
    docs.append([])
    bad: list[str] = []
    proc = fe.cls.lookup("_process")
    pnames = [q.name for q in proc.params[1:]] if proc is not None else ["component", "block", "engine"]

    def bound_args(args: list, kw: dict) -> list:
        out = list(args) + [kw[n_] for n_ in pnames[len(args):] if n_ in kw]
        if len(out) < 2:
            raise Unknown("FllImporter.engine: _process called without a component and its block")
        return out

    try:
        for doc in docs:
            log: list[tuple[str, list[str]]] = []
            text = MObj("Text", {"lines": doc, "__bool__": bool(doc)})
            hooks = {
                "method:split": lambda ex_, e, recv, args, kw: list(recv.fields["lines"]) if isinstance(recv, MObj) and recv.cls == "Text" else
                (_ for _ in ()).throw(Unknown("FllImporter.engine: split of something that is not the document")),
                "method:splitlines": lambda ex_, e, recv, args, kw: list(recv.fields["lines"]),
                "method:strip_comments": lambda ex_, e, recv, args, kw: "" if args[0].startswith("#") else args[0],
                "method:strip": lambda ex_, e, recv, args, kw: recv.strip() if isinstance(recv, str) else Opaque("text"),
                "method:extract_key_value": lambda ex_, e, recv, args, kw: tuple(x.strip() for x in (args[0].split(":", 1) + [""])[:2]),
                "method:_process": lambda ex_, e, recv, args, kw: log.append((bound_args(args, kw)[0], list(bound_args(args, kw)[1]))),
                "method:startswith": lambda ex_, e, recv, args, kw: recv.startswith(args[0]) if isinstance(recv, str) else False,
            }
            ex = AbsExec(fe.qualname, hooks, helpers={k: v for k, v in fe.cls.methods.items() if k.startswith("_") and k not in ("_process", "__init__")})
            ex.globals = {"Engine": lambda ex_, e, args, kw: MObj("Engine", {"rule_blocks": [], "input_variables": [], "output_variables": []}), "Op": Opaque("Op")}
            me = MObj("FllImporter", {"separator": "\n"})
            try:
                ex.block(list(node.body), {params[0]: me, params[1]: text})
            except _Return:
                pass
            except (Raised, Internal) as err:
                bad.append(f"document {doc!r:.80}: engine() ends with {err.cls}")
                continue
            want: list[tuple[str, list[str]]] = []
            for ln in doc:
                if not ln or ln.startswith("#"):
                    continue
                key = ln.split(":", 1)[0].strip()
                if key in HEAD:
                    want.append((key, [ln]))
                elif want:
                    want[-1][1].append(ln)
            if log != want:
                got_k, want_k = [f"{k} {b[0].split(':', 1)[1].strip() if b else ''}".strip() for k, b in log], [f"{k} {b[0].split(':', 1)[1].strip()}" for k, b in want]
                if got_k != want_k:
                    bad.append(f"a document with the components {want_k} is processed as {got_k}: components are dropped, repeated or taken out of the order of the text "
                               "(rule blocks run in the order they are stored, so the imported engine computes something else)")
                else:
                    k_ = next(i_ for i_, (a_, b_) in enumerate(zip(log, want)) if a_ != b_)
                    bad.append(f"component {want_k[k_]} is processed with the lines {log[k_][1]}, specified {want[k_][1]}")
    except Unknown as u:
        raise AnalysisError(str(u)) from None
    check.require(not bad, "T13", "FllImporter.engine/flush", f"each component of the text is processed once, in the order of the text, with its own lines ({len(docs)} model documents)"
                  if not bad else bad[0], loc(fe), {"documents": len(docs)}, exhaustive=True, cases=len(docs))


# ------------------------------------------------------------------------------------------------ corpus (thorough)
def corpus(check: Check) -> None:
    p = check.program
    files = sorted(glob.glob(os.path.join(p.root, p.package, "examples", "**", "*.fll"), recursive=True))
    if len(files) < 30:
        raise AnalysisError(f"corpus conformance: only {len(files)} .fll files found")
    keys = {}
    for comp, m in (("Engine", "_process"), ("InputVariable", "input_variable"), ("OutputVariable", "output_variable"), ("RuleBlock", "rule_block")):
        _, ie, tested = importer_table(p, m, comp)
        keys[comp] = tested | {comp}
    terms = {c.name: c for c in p.subclasses("Term", concrete_only=True)}
    req = {n: configured_attrs(p, c)[1] for n, c in terms.items()}
    acts = {c.name for c in p.subclasses("Activation", True)}
    defz = {c.name for c in p.subclasses("Defuzzifier", True)}
    norms = {c.name for c in p.subclasses("Norm", True)}
    bad = []
    lines = 0
    for f in files:
        comp = None
        for ln, raw in enumerate(open(f, encoding="utf-8"), 1):
            line = raw.split("#")[0].strip()
            if not line or ":" not in line:
                continue
            lines += 1
            k, v = [x.strip() for x in line.split(":", 1)]
            if k in ("Engine", "InputVariable", "OutputVariable", "RuleBlock"):
                comp = k
                continue
            if comp is None or k not in keys[comp]:
                bad.append(f"{os.path.relpath(f, p.root)}:{ln}: key `{k}` not accepted for {comp}")
                continue
            if k == "term":
                parts = v.split(maxsplit=2)
                cls = parts[1] if len(parts) > 1 else "?"
                if cls not in terms:
                    bad.append(f"{os.path.relpath(f, p.root)}:{ln}: unknown term class {cls}")
                elif req.get(cls) is not None and cls not in ("Constant",):
                    n = len(parts[2].split()) if len(parts) > 2 else 0
                    if n not in (req[cls], req[cls] + 1):
                        bad.append(f"{os.path.relpath(f, p.root)}:{ln}: {cls} with {n} parameters, reader expects {req[cls]} (+1)")
            elif k == "activation" and v != "none" and v.split()[0] not in acts:
                bad.append(f"{os.path.relpath(f, p.root)}:{ln}: unknown activation {v}")
            elif k == "defuzzifier" and v != "none" and v.split()[0] not in defz:
                bad.append(f"{os.path.relpath(f, p.root)}:{ln}: unknown defuzzifier {v}")
            elif k in ("conjunction", "disjunction", "implication", "aggregation") and v != "none" and v not in norms:
                bad.append(f"{os.path.relpath(f, p.root)}:{ln}: unknown norm {v}")
    check.require(not bad, "T12", "corpus/fll", f"{len(files)} shipped .fll files ({lines} lines) conform to the extracted reader tables"
                  if not bad else f"shipped FLL not accepted by the extracted tables: {bad[:3]}", "fuzzylite/examples", {"files": len(files), "lines": lines},
                  exhaustive=True, cases=lines)


# ------------------------------------------------------------------------------------------------ T17 number formatting
def number_formatting(check: Check) -> None:
    """T17, by interpretation where the interpreter can follow `Op.str` (the shape rule below is the fallback)."""
    if not number_formatting_semantics(check):
        number_formatting_shape(check)


def number_formatting_semantics(check: Check, rule: str = "T17") -> bool:
    """`Op.str(x)` interpreted (sa/objexec.py) for a number, a 0-d, 1-d and 2-d array, a list and a tuple of numbers, an integer and a text,
    under two values of `settings.decimals` set between the calls: every number is printed fixed-point with exactly the decimals in force when it
    is printed, the elements of a sequence separated by the delimiter (rows by newlines), integers and texts as they are."""
    from ..absexec import Internal, Raised, Unknown
    from ..objexec import Arr, Decimals
    from .roundtrip_sem import E0, new_exec

    p = check.program
    fn = p.func("Operation.str")
    check.analysed(fn)
    why = None
    n = 0
    try:
        ex = new_exec(p)
        settings = ex.globals["settings"]
        for d in (3, 5, 0):
            ex.decimals = Decimals(d)
            settings.fields["decimals"] = ex.decimals
            fmt = lambda v, d=d: format(v, f".{d}f")  # noqa: E731
            cases = [(0.5, fmt(0.5)), (-1.25, fmt(-1.25)), (float("inf"), "inf"), (float("nan"), "nan"), (Arr(0.125, 0), fmt(0.125)), (Arr([0.5, 0.25], 1), f"{fmt(0.5)} {fmt(0.25)}"),
                     (Arr([[0.5, 0.25], [1.0, 2.0]], 2), f"{fmt(0.5)} {fmt(0.25)}\n{fmt(1.0)} {fmt(2.0)}"), ([0.5, 0.25], f"{fmt(0.5)} {fmt(0.25)}"), ((0.5,), fmt(0.5)),
                     (7, "7"), ("text", "text"), ([], "")]
            for x, want in cases:
                n += 1
                try:
                    got = ex.invoke(fn, [x], {}, E0)
                except (Raised, Internal) as err:
                    why = why or f"Op.str({x!r}) with decimals={d} ends with {err.cls}"
                    continue
                if got != want:
                    why = why or (f"Op.str({x!r}) with settings.decimals = {d} is {got!r}, specified {want!r}: every number is printed fixed-point with the decimals in force "
                                  "when it is printed (the importer reads it back with the library float)")
            n += 1
            got = ex.invoke(fn, [[0.5, 0.25]], {"delimiter": ", "}, E0)
            if got != f"{fmt(0.5)}, {fmt(0.25)}":
                why = why or f"Op.str([0.5, 0.25], delimiter=', ') with decimals={d} is {got!r}"
    except Unknown as u:
        check.notes.append(f"{rule}: Op.str is outside the interpreter's model ({u}); decided on the shape of the code")
        return False
    check.require(why is None, rule, "Operation.str/fixed-point-decimals", f"every number Op.str formats is fixed-point with the decimals in force at the call ({n} values x settings)"
                  if why is None else why, loc(fn), exhaustive=True, cases=n)
    return True


def number_formatting_shape(check: Check) -> None:
    """T17: every number that `Op.str` formats itself is printed fixed-point with exactly `settings.decimals` decimals, read when the
    number is printed: each formatted value with a format specification inside Op.str has the specification `.{settings.decimals}f`
    (also through a temporary), and the fallback for higher-dimensional arrays passes precision=settings.decimals, floatmode="fixed".
    (Rule weights, term parameters, ranges and defaults all reach the FLL text through this function; the importer reads them back with
    the library float, so a value survives the round trip iff it is representable at that number of decimals.)"""
    p = check.program
    fn = p.func("Operation.str")
    check.analysed(fn)
    r = Resolver(p, fn)
    DEC = ("attr", ("global", "fuzzylite.library.settings"), "decimals")
    n_specs = 0
    bad = []
    for n in r.cfg.stmt_nodes():
        if n.copy:
            continue
        for e in r.cfg.exprs_of(n):
            for x in ast.walk(e):
                if isinstance(x, ast.FormattedValue) and x.format_spec is not None:
                    n_specs += 1
                    parts = x.format_spec.values if isinstance(x.format_spec, ast.JoinedStr) else []
                    consts = "".join(q.value for q in parts if isinstance(q, ast.Constant) and isinstance(q.value, str))
                    vals = [q for q in parts if isinstance(q, ast.FormattedValue)]
                    ok = consts.replace("0", "", 1) == ".f" and len(vals) == 1 and r.term(vals[0].value, n) == DEC and vals[0].format_spec is None
                    if not ok:
                        bad.append((n, unparse(x)))
                elif isinstance(x, ast.Call) and isinstance(x.func, ast.Attribute) and x.func.attr in ("array2string", "format_float_positional"):
                    n_specs += 1
                    kw = {k.arg: r.term(k.value, n) for k in x.keywords if k.arg}
                    if kw.get("precision") != DEC or (x.func.attr == "array2string" and kw.get("floatmode") != ("const", "fixed")):
                        bad.append((n, unparse(x)))
                elif isinstance(x, ast.Call) and isinstance(x.func, ast.Name) and x.func.id in ("format", "round") and len(x.args) >= 1:
                    n_specs += 1
                    bad.append((n, unparse(x)))  # another formatting route: not the fixed-point specification
    check.require(n_specs >= 2 and not bad, "T17", "Operation.str/fixed-point-decimals",
                  f"all {n_specs} formatted numbers in Op.str use `.{{settings.decimals}}f` (read at call time)" if n_specs >= 2 and not bad else
                  (f"`{bad[0][1][:70]}` does not format with exactly settings.decimals fixed-point decimals: numbers printed on this path are written with "
                   "another precision than the one the round trip is stated for" if bad else "Op.str formats no number itself any more"),
                  loc(fn, bad[0][0] if bad else None))
