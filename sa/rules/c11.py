"""C11 - Tsukamoto values invert the monotonic membership functions (structural clauses)."""

from __future__ import annotations

import ast

from ..absint import return_term
from ..pm import AnalysisError
from ..report import Check
from ..sym import walk
from . import c02, c03
from .common import loc

EXPLANATION = (
    "static analysis of the six monotonic terms: is_monotonic() is True iff the class overrides tsukamoto() (all other "
    "terms inherit the refusing default); def-use: every parameter that membership() reads - the height in particular "
    "- is also read by tsukamoto(), and the result depends on the activation degree passed in (the three defects "
    "recorded in HISTORY.md are violations of exactly these conditions); elementwise safety of the inverse kernels"
)
ASSUMPTIONS = ["mu(z(y)) = y, finiteness inside (0,h) and the direction of monotonicity are numeric and not decided"]
FLOORS = {"M1": 26, "D3": 12, "V1": 6}


def run(check: Check) -> None:
    p = check.program
    c03.monotonic_table(check)
    base = p.cls("Term")
    mono = [c for c in p.subclasses("Term") if (c.lookup("tsukamoto") is not None and c.lookup("tsukamoto").cls is not base)]
    if len(mono) < 6:
        raise AnalysisError(f"only {len(mono)} monotonic terms found (Arc, Concave, Ramp, Sigmoid, SShape, ZShape expected)")
    for c in mono:
        ts = c.lookup("tsukamoto")
        ms = c.lookup("membership")
        check.analysed(ts)
        tt = return_term(p, c, "tsukamoto")
        mt = return_term(p, c, "membership")
        r_ts = {s[2] for s in walk(tt) if s[0] == "attr" and s[1] == ("param", "self")}
        r_ms = {s[2] for s in walk(mt) if s[0] == "attr" and s[1] == ("param", "self")}
        missing = sorted(r_ms - r_ts)
        check.require(not missing, "D3", f"{c.name}.tsukamoto/parameters",
                      f"tsukamoto() reads every parameter membership() reads ({sorted(r_ms)})" if not missing else
                      f"tsukamoto() ignores {missing}, which membership() uses: the inverse cannot be exact"
                      + (" for heights other than 1" if "height" in missing else ""), loc(ts))
        y = ts.params[1].name
        dep = any(s == ("param", y) for s in walk(tt))
        check.require(dep, "D3", f"{c.name}.tsukamoto/argument", "the Tsukamoto value depends on the activation degree" if dep else
                      "the Tsukamoto value does not depend on its argument", loc(ts))
        c02.kernel_elementwise(check, ts, "V1", f"{c.name}.tsukamoto")
