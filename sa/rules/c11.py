"""C11 - Tsukamoto values invert the monotonic membership functions (structural clauses)."""

from __future__ import annotations

import ast

from ..absint import return_term
from ..pm import AnalysisError
from ..report import Check
from ..sym import walk
from . import c02, c03
from .common import loc

EXPLANATION = (
    "static analysis of the six monotonic terms. I1: membership(tsukamoto(y)) == y for 0 < y < height, decided piece by piece over "
    "real arithmetic: for every order type of the parameters (both directions, both sides of the origin) and of y against height/2, "
    "the resolved Tsukamoto term is brought to a rational-function normal form (sqrt/log/exp as function symbols with sqrt(A)^2=A, "
    "exp(log A)=A, sqrt of factored perfect squares), substituted for x in the resolved membership kernel - whose conditions are "
    "decided by the sign of factored normal forms (including a*sqrt(A)+b through a^2*A-b^2) - and the result must be the normal form "
    "`y`; where the piece is not decided, at least one piece of the kernel must be inverted by the formula. I2: the value is a real "
    "number (no square root / logarithm outside its domain, no vanishing denominator). M1: is_monotonic() is True iff the class "
    "overrides tsukamoto(); D3: every parameter membership() reads is read by tsukamoto(); elementwise safety of the inverse kernels; operators only after "
    "scalar() coercion (V8)"
    "; the tsukamoto kernels read only the parameters (K1) and return the shape of their argument row by row (V9)"
    "; the order types include a height within the library's comparison tolerance of 1"
)
ASSUMPTIONS = [
    "real arithmetic (rounding not modelled); y strictly between 0 and height; parameters finite, start != end (SShape/ZShape: start < end)",
    "the direction of monotonicity of z(y) is not decided separately (it follows from the identity and the monotonicity of the term)",
]
LEVEL_SCOPE = ("Decides the listed clauses for every order type (piece) over real arithmetic, reporting only definite disagreements; floating-point "
               "rounding and the clauses listed as undecided are not decided.")
FLOORS = {"V9": 100, "K1": 6, "M1": 26, "D3": 12, "V1": 6, "I1": 6, "I2": 6, "V8": 6}


def run(check: Check) -> None:
    p = check.program
    from .c02 import shapes

    shapes(check, only_kernels_of=("Term",))  # V9: membership and tsukamoto return the broadcast shape of their operands, row by row
    c03.monotonic_table(check)
    base = p.cls("Term")
    mono = [c for c in p.subclasses("Term") if (c.lookup("tsukamoto") is not None and c.lookup("tsukamoto").cls is not base)]
    if len(mono) < 6:
        raise AnalysisError(f"only {len(mono)} monotonic terms found (Arc, Concave, Ramp, Sigmoid, SShape, ZShape expected)")
    for c in mono:
        ts = c.lookup("tsukamoto")
        ms = c.lookup("membership")
        check.analysed(ts)
        tt = return_term(p, c, "tsukamoto")
        mt = return_term(p, c, "membership")
        r_ts = {s[2] for s in walk(tt) if s[0] == "attr" and s[1] == ("param", "self")}
        r_ms = {s[2] for s in walk(mt) if s[0] == "attr" and s[1] == ("param", "self")}
        missing = sorted(r_ms - r_ts)
        check.require(not missing, "D3", f"{c.name}.tsukamoto/parameters",
                      f"tsukamoto() reads every parameter membership() reads ({sorted(r_ms)})" if not missing else
                      f"tsukamoto() ignores {missing}, which membership() uses: the inverse cannot be exact"
                      + (" for heights other than 1" if "height" in missing else ""), loc(ts))
        y = ts.params[1].name
        dep = any(s == ("param", y) for s in walk(tt))
        check.require(dep, "D3", f"{c.name}.tsukamoto/argument", "the Tsukamoto value depends on the activation degree" if dep else
                      "the Tsukamoto value does not depend on its argument", loc(ts))
        c02.kernel_elementwise(check, ts, "V1", f"{c.name}.tsukamoto")
        from .common import coerce_first, kernel_purity

        # K1: the inverse is a function of its argument and of the same parameters membership() reads at the time of the call - not of something
        # derived from them at construction time (stale once a parameter is re-assigned)
        kernel_purity(check, ts, "K1", f"{c.name}.tsukamoto/pure", set(c03.shape_params(c)) | {"height", "name"})

        coerce_first(check, ts, "V8", f"{c.name}.tsukamoto/coerce-first")
    inverse_identity(check)


# ------------------------------------------------------------------------------------------------ I1
VALID_PARAMS = {"Arc": "s != e", "Concave": "i != e", "Ramp": "s != e", "Sigmoid": None, "SShape": "s < e", "ZShape": "s < e"}
PARAM_NAMES = {"Arc": {"s": "start", "e": "end"}, "Concave": {"i": "inflection", "e": "end"}, "Ramp": {"s": "start", "e": "end"},
               "Sigmoid": {}, "SShape": {"s": "start", "e": "end"}, "ZShape": {"s": "start", "e": "end"}}


def where_free(t, limit: int = 64):  # type: ignore[no-untyped-def]
    """All terms obtained by replacing every np.where(c, a, b) by one of its branches (the pieces of a piecewise kernel)."""
    def alts(u):  # type: ignore[no-untyped-def]
        if not (isinstance(u, tuple) and u and isinstance(u[0], str)):
            if isinstance(u, tuple):
                out = [()]
                for q in u:
                    out = [o + (a,) for o in out for a in alts(q)][:limit]
                return out
            return [u]
        if u[0] == "call" and u[1] == ("global", "numpy.where") and len(u[2]) == 3:
            return (alts(u[2][1]) + alts(u[2][2]))[:limit]
        out = [()]
        for q in u:
            out = [o + (a,) for o in out for a in alts(q)][:limit]
        return out

    return alts(t)


def inverse_identity(check: Check) -> None:
    """I1: membership(tsukamoto(y)) == y for 0 < y < height, decided piece by piece: for every order type of the parameters and of y
    against height / 2, the Tsukamoto value is brought to a normal form, substituted for x in the (flattened) membership kernel - whose
    conditions are decided by the sign of factored normal forms - and the result must be the normal form `y`. I2: the value is finite."""
    from fractions import Fraction

    from ..absint import FINITE, NAN, Abs, show_abs
    from ..algebra import Algebra
    from ..ordertype import (IsNaN, LinearForms, NotAlgebraic, OrderEval, abs_sign_oracle, make_algebra, comparison_forms, describe, domain, exact_value, flatten, leaf_env,
                             numeric_witness, order_types, spec_term)
    from ..sym import show

    p = check.program
    for name in sorted(VALID_PARAMS):
        c = p.cls(name)
        ts, ms = c.lookup("tsukamoto"), c.lookup("membership")
        Y = ("param", ts.params[1].name)
        X = ("param", ms.params[1].name)
        H = ("attr", ("param", "self"), "height")
        ZERO_ = ("const", 0)
        z_term = flatten(p, return_term(p, c, "tsukamoto"))
        m_term = flatten(p, return_term(p, c, "membership"))

        def subst(u):  # type: ignore[no-untyped-def]
            if isinstance(u, tuple) and u and isinstance(u[0], str):
                return z_term if u == X else tuple(subst(q) for q in u)
            return tuple(subst(q) for q in u) if isinstance(u, tuple) else u

        composed = subst(m_term)
        atoms: dict = {ZERO_: "pinned", Y: "position", H: "position"}
        # heights: one far above every parameter, and one within the library's comparison tolerance of 1 (a tolerance test on the height is not h == 1)
        grids: dict = {ZERO_: [Fraction(0)], H: [Fraction(204), Fraction(4097, 4096)], Y: [Fraction(101), Fraction(102), Fraction(103), Fraction(1, 4), Fraction(1, 2), Fraction(3, 4)]}
        for prm in c03.shape_params(c):
            a = ("attr", ("param", "self"), prm)
            atoms[a] = "nonzero" if prm in c03.NONZERO else "position"
            if atoms[a] == "position":
                grids[a] = [Fraction(-8), Fraction(-4), Fraction(4), Fraction(8)]  # both sides of the origin, below y and height
        names = {k: ("attr", ("param", "self"), v) for k, v in PARAM_NAMES[name].items()}
        valid_t = spec_term(VALID_PARAMS[name], names) if VALID_PARAMS[name] else None
        lf0 = LinearForms({a: 0 for a in atoms}, atoms, {})
        forms = comparison_forms(lf0, [z_term, m_term] + ([valid_t] if valid_t is not None else []))

        def valid(lf, valid_t=valid_t, Y=Y, H=H) -> bool:  # type: ignore[no-untyped-def]
            if not 0 < lf.val[Y] < lf.val[H]:
                return False  # the statement quantifies over degrees strictly between 0 and the height
            return valid_t is None or OrderEval(p, lf, leaf_env(lf)).ev(valid_t) == frozenset({True})

        short = {Y: "y", H: "h", ZERO_: "0", **{a: a[2] for a in atoms if a[0] == "attr"}}
        n = n_id = n_fin = 0
        wrong, nonfinite, undecided = [], [], []
        for lf in order_types(atoms, forms, valid, grids):
            n += 1
            where = describe(lf, short)
            ev = OrderEval(p, lf, leaf_env(lf))
            alg = make_algebra(lf)
            ev.alg = alg  # comparisons of normal forms are decided by factoring
            zc = ev.ev(z_term)
            try:
                zd = domain(exact_value(z_term, ev, alg), lf, alg)
            except IsNaN:
                zd = False
            except NotAlgebraic:
                zd = None
            if zd is False or not (set(zc) & set(FINITE)):
                nonfinite.append((where, show_abs(zc) if zd is not False else "not a real number (a square root / logarithm outside its domain, or 0/0)"))
            elif zd is True or set(zc) <= set(FINITE):
                n_fin += 1
            try:
                got = exact_value(composed, ev, alg)
            except IsNaN:
                wrong.append((where, "nan"))
                continue
            except NotAlgebraic as ex:
                # the piece the value falls into is not decided here: at least one piece of the kernel must be inverted by the formula
                from ..algebra import Rat

                outcomes = []
                for piece in [subst(m_piece) for m_piece in where_free(m_term)]:
                    try:
                        r_ = exact_value(piece, ev, alg)
                    except (IsNaN, NotAlgebraic):
                        continue
                    if r_.equals(Rat.sym(Y)):
                        outcomes = None
                        break
                    w = c03._Witness(numeric_witness(lf))
                    v = alg.evaluate(r_, w)
                    if not (v == v and abs(v - float(lf.val[Y])) > 1e-9 * max(1.0, abs(v))):
                        outcomes = None  # not provably different
                        break
                    outcomes.append(r_.show(alg.name(short))[:80])
                if outcomes:
                    wrong.append((where, f"never y, whichever piece of the membership function applies ({'; '.join(sorted(set(outcomes))[:3])})"))
                else:
                    undecided.append((where, str(ex)[:80]))
                continue
            from ..algebra import Rat

            if got.equals(Rat.sym(Y)):
                n_id += 1
                continue
            w = c03._Witness(numeric_witness(lf))
            v = alg.evaluate(got, w)
            if v == v and abs(v - float(lf.val[Y])) > 1e-9 * max(1.0, abs(v)):
                wrong.append((where, got.show(alg.name(short))[:160]))
            else:
                undecided.append((where, "normal form differs from y without a numeric difference at the witness"))
        if n == 0:
            raise AnalysisError(f"{name}: no order type enumerated for the inverse")
        if n_id == 0 and not wrong:
            raise AnalysisError(f"{name}.tsukamoto: the inverse identity could not be decided at any of the {n} order types ({undecided[0][1] if undecided else 'nothing decided'})")
        check.require(not wrong, "I1", f"{name}.tsukamoto/inverse",
                      f"{name}: membership(tsukamoto(y)) reduces to y at {n_id} of {n} order types (0 < y < height, y against height/2, both directions)"
                      + (f"; undecided at {len(undecided)}" if undecided else "") if not wrong else
                      f"{name}: at `{wrong[0][0]}` membership(tsukamoto(y)) is {wrong[0][1]} instead of y" + (f" (and {len(wrong) - 1} more order types)" if len(wrong) > 1 else ""),
                      loc(ts), {"order_types": n, "identity": n_id, "undecided": undecided[:4], "wrong": wrong[:4]}, exhaustive=True, cases=n)
        check.require(not nonfinite, "I2", f"{name}.tsukamoto/finite",
                      f"{name}: the Tsukamoto value is never definitely NaN or infinite for 0 < y < height (finite at {n_fin} of {n} order types)" if not nonfinite else
                      f"{name}: at `{nonfinite[0][0]}` the Tsukamoto value is {nonfinite[0][1]}", loc(ts), {"order_types": n, "finite": n_fin}, exhaustive=True, cases=n)
