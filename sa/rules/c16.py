"""C16 - Malformed rule and FLL text is rejected cleanly, never accepted or crashed on.

The unbounded input space is collapsed to the three parser automata (extracted by abstract
interpretation and compared with the grammar automata of Appendix A.3 by product exploration),
a finite set of raise sites reachable from the loading entry points, and guards of stack / list
subscripts.
"""

from __future__ import annotations

import ast
from typing import Any, Callable

from ..callgraph import CallGraph
from ..fsm import Extracted, Machine, MState, extract, flag_constants
from ..pm import AnalysisError, unparse
from ..report import Check
from ..sym import Resolver, Term, path_of, show, walk
from . import loaders, pushdown, shunting
from .common import const_value, loc, strip

EXPLANATION = (
    "static analysis of the text loaders: the state machines of Rule.parse, Antecedent.load and Consequent.load are "
    "extracted by abstract interpretation over (state value, proposition set?, operand-stack depth class, token class) "
    "and compared with the grammar automata of the specification by exhaustive product exploration, including the "
    "outcome of the post-loop code for every reachable end state (accept / SyntaxError / internal error); explicit "
    "raise sites reachable from Rule.create and FllImporter.from_string are enumerated through the call graph and "
    "must be SyntaxError / ValueError / LookupError; stack pops, [-1] and constant subscripts of split() lists are "
    "guarded; each load unloads first and commits last; the infix->postfix converter and the postfix->tree parser are "
    "interpreted abstractly (sa/absexec.py) as pushdown machines over token classes and compared with the reference "
    "shunting-yard / tree-building machines on every configuration up to a depth bound: unbalanced input is rejected with "
    "SyntaxError and no configuration leads to an internal error (PD, PD2); every tokeniser separates at any whitespace (X8); "
    "LD - Antecedent.load and Consequent.load themselves are interpreted abstractly on an engine with two variables and their own terms "
    "and compared with the grammar automata (acceptance, SyntaxError, no internal error, propositions / hedges / terms / operators built, "
    "terms taken from the proposition's own variable); Rule.parse stays on the extracted state machine"
    "; the variable and rule-block importers are interpreted on two-line model blocks (every key x six values) with the value parsers, helpers and property setters: imported or rejected with a syntax / value / lookup error (X9)"
    "; X9 malformed-rule - a rule block whose rule the parser rejects is rejected, for the newline and for a custom separator; loading leaves the text of an antecedent / consequent as it was"
)
ASSUMPTIONS = [
    "token classes are disjoint (a token is not at once a keyword, a variable name, a hedge name and a term name)",
    "resource exhaustion (recursion depth of very long antecedents) is not decided",
]
FLOORS = {"C1-load": 1, "X9": 3, "X8": 6, "PD": 4, "PD2": 4, "LD": 8, "F1": 2, "X2": 30, "X4": 6, "O9": 4}

ALLOWED = {"SyntaxError", "ValueError", "KeyError", "LookupError"}


# ----------------------------------------------------------------------------------------- token-condition atoms
def make_atom_classifier(r: Resolver, stack_var: str | None) -> Callable[[ast.AST, Any], str | None]:
    def token_like(t: Term) -> bool:
        """An element of `<text>.split()`."""
        return t[0] == "elem" and any(s[0] == "call" and s[1][0] == "attr" and s[1][2] == "split" for s in walk(t))

    KEYWORDS = {"fuzzylite.rule.Rule.IS": "is", "fuzzylite.rule.Rule.AND": "and", "fuzzylite.rule.Rule.OR": "or",
                "fuzzylite.rule.Rule.IF": "if", "fuzzylite.rule.Rule.THEN": "then", "fuzzylite.rule.Rule.WITH": "with"}

    def lookup_kind(t: Term) -> str | None:
        """`<dict comprehension>.get(token)`: which collection does the dictionary index?"""
        if t[0] == "call" and t[1][0] == "attr" and t[1][2] == "get" and t[2] and token_like(t[2][0]):
            d = t[1][1]
            alts = d[1] if d[0] == "phi" else [d]
            kinds = set()
            for a in alts:
                if a[0] == "mapped_dict" and a[2] == ("attr", ("elem", a[1]), "name") and a[3] == ("elem", a[1]) and not a[4]:
                    # {x.name: x for x in <collection>}: lookup by name in that collection
                    base = a[1]
                    if base[0] == "attr" and base[2].endswith("variables"):
                        kinds.add("var")
                    elif base[0] == "attr" and base[2] == "terms":
                        kinds.add("term")
                elif a[0] == "opaque" and a[1] == "DictComp":
                    node = r.opaque_nodes.get(a[3])
                    it = unparse(node.generators[0].iter) if node is not None else ""
                    if it.endswith("variables"):
                        kinds.add("var")
                    elif it.endswith(".terms"):
                        kinds.add("term")
            if len(kinds) == 1:
                return kinds.pop()
        return None

    def classify(e: ast.AST, node) -> str | None:
        t = r.term(e, node)
        k = lookup_kind(t)
        if k:
            return k
        if t[0] == "cmp" and len(t[1]) == 1:
            op = t[1][0]
            a, b = t[2]
            if op in ("==", "!=") and (token_like(a) or token_like(b)):
                other = b if token_like(a) else a
                if other[0] == "global" and other[1] in KEYWORDS:
                    return ("!" if op == "!=" else "") + KEYWORDS[other[1]]
            if op in ("in", "not in") and token_like(a):
                neg = "!" if op == "not in" else ""
                if b[0] == "set" and {x[1] for x in b[1] if x[0] == "global"} == {"fuzzylite.rule.Rule.AND", "fuzzylite.rule.Rule.OR"}:
                    return neg + "andor"
                if any(s[0] == "attr" and s[2] == "hedge" for s in walk(b)) and any(s == ("global", "fuzzylite.library.settings") for s in walk(b)):
                    return neg + "hedge"
            if False and token_like(a):
                if b[0] == "set" and {x[1] for x in b[1] if x[0] == "global"} == {"fuzzylite.rule.Rule.AND", "fuzzylite.rule.Rule.OR"}:
                    return "andor"
                if any(s[0] == "attr" and s[2] == "hedge" for s in walk(b)) and any(s == ("global", "fuzzylite.library.settings") for s in walk(b)):
                    return "hedge"
            if stack_var:
                # len(<operand stack>) compared with a constant, in either order and possibly through a temporary
                is_len = lambda x: x[0] == "call" and x[1] == ("global", "len") and len(x[2]) == 1 and not token_like(x[2][0])  # noqa: E731
                flip = {"<": ">", ">": "<", "<=": ">=", ">=": "<=", "==": "==", "!=": "!="}
                if is_len(a) and isinstance(const_value(b), int) and op in flip:
                    return f"depth|{op}|{const_value(b)}"
                if is_len(b) and isinstance(const_value(a), int) and op in flip:
                    return f"depth|{flip[op]}|{const_value(a)}"
        if t[0] == "call" and t[1] == ("global", "isinstance") and len(t[2]) == 2 and t[2][1] == ("global", "fuzzylite.hedge.Any"):
            return "any"
        return None

    return classify


def split_call(t: Term) -> Term | None:
    """The `<text>.split(...)` call an iterable is made from, seen through filter(None, .), list(.), iter(.), strip()-chains and
    `[x for x in . if x]`-style filters; None when the iterable is not a tokenised text."""
    while True:
        if t[0] == "call" and t[1][0] == "attr" and t[1][2] == "split":
            return t
        if t[0] == "call" and t[1][0] == "global" and t[1][1] in ("filter",) and len(t[2]) == 2:
            t = t[2][1]
        elif t[0] == "call" and t[1][0] == "global" and t[1][1] in ("list", "tuple", "iter", "reversed", "enumerate") and t[2]:
            t = t[2][0]
        elif t[0] == "filtered":
            t = t[1]
        elif t[0] == "call" and t[1][0] == "global" and t[1][1] in ("re.split",) and len(t[2]) == 2:
            return t
        else:
            return None


def token_loop(r: Resolver):
    cfg = r.cfg
    for h in cfg.loop_heads():
        if h.kind != "for":
            continue
        it = [q for q, _ in h.pred if q.kind == "iter"]
        if it:
            t = r.term(h.ast.iter, it[0])  # type: ignore[union-attr]
            if split_call(t) is not None:
                return h
    raise AnalysisError(f"{r.fn.qualname}: token loop (for token in <text>.split()) not found")


def tokenisers(check: Check, rule: str = "X8", only: tuple[str, ...] | None = None) -> None:
    """X8: every parser of rule text separates tokens at *any* run of whitespace (`str.split()` without a separator, or a `\\s+`
    regular expression): the rule grammar and the readiness check (which looks for ` and ` / ` or ` in the normalised text) are
    stated for whitespace-separated tokens, so a tokeniser that splits on the space character only reads `a\tand\tb` as one token in
    one place and as three in another."""
    p = check.program
    for qual in ("Rule.parse", "Antecedent.load", "Consequent.load", "Function.infix_to_postfix", "Function.parse"):
        if only is not None and qual not in only:
            continue
        fn = p.func(qual)
        check.analysed(fn)
        r = Resolver(p, fn)
        h = None
        try:
            h = token_loop(r)
        except AnalysisError:
            if qual == "Antecedent.load":
                continue  # reads the postfix produced by infix_to_postfix through a helper: covered there
            raise
        it = [q for q, _ in h.pred if q.kind == "iter"][0]
        sc = split_call(r.term(h.ast.iter, it))  # type: ignore[union-attr]
        assert sc is not None
        if sc[1][0] == "attr":
            args = [a for a in sc[2] if a != ("const", None)] + [v for k, v in sc[3] if k == "sep" and v != ("const", None)]
            ok = not args
            why = f"`{show(sc)[:60]}` splits at the separator {show(args[0]) if args else ''} only"
        else:
            pat = sc[2][0]
            ok = pat[0] == "const" and pat[1] in (r"\s+", r"\s")
            why = f"`{show(sc)[:60]}` is not a whitespace pattern"
        check.require(ok, rule, f"{qual}/tokeniser", "tokens are separated at any run of whitespace" if ok else
                      why + ": tabs / newlines between tokens are kept inside tokens here but separate tokens elsewhere "
                      "(readiness looks for ` and ` / ` or ` in the space-normalised antecedent text)", loc(fn, h))
    # the texts handed on are the tokens joined by single spaces
    fn = p.func("Rule.parse")
    r = Resolver(p, fn)
    joins = []
    for n in r.cfg.stmt_nodes():
        for tg in r.cfg.stores_at(n):
            if isinstance(tg, ast.Attribute) and tg.attr == "text" and isinstance(tg.value, ast.Attribute) and tg.value.attr in ("antecedent", "consequent") \
                    and getattr(n.ast, "value", None) is not None:
                joins.append((n, tg.value.attr, r.term(n.ast.value, n)))  # type: ignore[union-attr]
    for n, part, t in joins:
        ok = t[0] == "call" and t[1][0] == "attr" and t[1][2] == "join" and t[1][1] == ("const", " ")
        check.require(ok, rule, f"Rule.parse/{part}-text", f"the {part} text is its tokens joined by single spaces" if ok else
                      f"the {part} text is `{show(t)[:70]}`, not the tokens joined by single spaces", loc(fn, n))
    if len(joins) < 2:
        raise AnalysisError("Rule.parse: assignments of the antecedent / consequent texts not found")


def state_variables(fn, consts: dict[str, int]) -> set[str]:
    """Locals whose every assignment is an expression over the flag constants (and, for updates, over the local itself).
    Side effect: names bound exactly once to an expression over the flag constants (compound states such as `s_hedge | s_term`)
    are added to `consts` with their value."""
    from ..fsm import Unknown, _const_arith

    assigns: dict[str, list[ast.AST]] = {}
    for s in ast.walk(fn.analysis_node):
        if isinstance(s, ast.Assign) and len(s.targets) == 1 and isinstance(s.targets[0], ast.Name):
            assigns.setdefault(s.targets[0].id, []).append(s.value)
        elif isinstance(s, ast.AnnAssign) and isinstance(s.target, ast.Name) and s.value is not None:
            assigns.setdefault(s.target.id, []).append(s.value)
        elif isinstance(s, ast.AugAssign) and isinstance(s.target, ast.Name):
            assigns.setdefault(s.target.id, []).append(ast.BinOp(left=ast.Name(id=s.target.id, ctx=ast.Load()), op=s.op, right=s.value))
        elif isinstance(s, (ast.For, ast.comprehension)) and isinstance(s.target, ast.Name):
            assigns.setdefault(s.target.id, []).append(ast.Constant(value=None))
    changed = True
    while changed:
        changed = False
        for name, vals in assigns.items():
            if name in consts or len(vals) != 1 or not _is_flag_expr(vals[0], consts):
                continue
            try:
                consts[name] = _const_arith(vals[0], consts)
                changed = True
            except Unknown:
                pass
    out = set()
    for name, vals in assigns.items():
        if name in consts:
            continue
        if all(_is_flag_expr(v, consts, itself=name) for v in vals) and any(_is_flag_expr(v, consts) for v in vals):
            out.add(name)
    return out


def _is_flag_expr(e: ast.AST, consts: dict[str, int], itself: str | None = None) -> bool:
    if isinstance(e, ast.Name):
        return e.id in consts or e.id == itself
    if isinstance(e, ast.BinOp) and isinstance(e.op, (ast.BitOr, ast.BitAnd)):
        return _is_flag_expr(e.left, consts, itself) and _is_flag_expr(e.right, consts, itself)
    if isinstance(e, ast.IfExp):
        return _is_flag_expr(e.body, consts, itself) and _is_flag_expr(e.orelse, consts, itself)
    return False


# ----------------------------------------------------------------------------------------- product exploration
def compare(check: Check, rule_prefix: str, qual: str, fn, ex: Extracted, spec_init: Any,
            spec_step: Callable[[Any, int, str, MState], tuple[Any, int] | None],
            spec_accept: Callable[[Any, int, MState], bool], classes: list[str], allowed_reject: set[str]) -> None:
    """Language equivalence of the extracted parser and the grammar automaton by exploring the product."""
    start = (ex.initial, spec_init)
    seen = {start}
    work = [start]
    n_trans = 0
    problems: list[tuple[str, str, Any]] = []
    while work:
        x, s = work.pop(0)
        for c in classes:
            outs = ex.transitions.get((x, c), [])
            for how, nxt, node in outs:
                n_trans += 1
                want = spec_step(s, x.depth, c, x)
                if how == "next":
                    if want is None:
                        problems.append(("F1", f"accepts a `{c}` token in grammar state {s} (depth {x.depth}) where the grammar rejects it", node))
                        continue
                    s2, d2 = want
                    if nxt.depth != d2 and not (x.depth == 3):
                        problems.append(("F1", f"after a `{c}` token in grammar state {s} the operand stack has depth {nxt.depth}, grammar expects {d2}", node))
                        continue
                    pair = (nxt, s2)
                    if pair not in seen:
                        seen.add(pair)
                        work.append(pair)
                elif how.startswith("raise:"):
                    cls = how.split(":", 1)[1]
                    if want is not None:
                        problems.append(("F1", f"rejects a `{c}` token in grammar state {s} (depth {x.depth}) that the grammar accepts", node))
                    elif cls not in allowed_reject:
                        problems.append(("F-err", f"rejects a `{c}` token in grammar state {s} with {cls} instead of a syntax/value error", node))
                else:
                    problems.append(("F-nn" if "Attribute" in how else "F-err",
                                     f"a `{c}` token in grammar state {s} (depth {x.depth}) ends in {how} (internal error)", node))
    # acceptance
    n_final = 0
    for x, s in sorted(seen, key=lambda p: (repr(p[1]), p[0].depth, p[0].ints)):
        if x == ex.initial and s == spec_init:
            continue  # the loaders reject empty text before the loop
        for how, node in ex.finals.get(x, []):
            n_final += 1
            acc = spec_accept(s, x.depth, x)
            if how == "return":
                if not acc:
                    problems.append(("F-end", f"text ending in grammar state {s} (operand depth {x.depth}) is accepted, the grammar rejects it", node))
            elif how.startswith("raise:"):
                cls = how.split(":", 1)[1]
                if acc:
                    problems.append(("F-end", f"text ending in grammar state {s} (operand depth {x.depth}) is rejected, the grammar accepts it", node))
                elif cls not in allowed_reject:
                    problems.append(("F-end", f"text ending in grammar state {s} is rejected with {cls} instead of a syntax error", node))
            else:
                problems.append(("F-end", f"text ending in grammar state {s} (operand depth {x.depth}) fails with an internal error: {how}", node))
    by_rule: dict[str, list] = {}
    for rule, what, node in problems:
        by_rule.setdefault(rule, []).append((what, node))
    facts = {"states": len(ex.states), "product_states": len(seen), "transitions": n_trans, "end_states": n_final,
             "token_classes": classes, "token_conditions": sorted(ex.atoms)}
    for rule in ("F1", "F-end"):
        items = by_rule.get(rule, []) + (by_rule.get("F-err", []) + by_rule.get("F-nn", []) if rule == "F1" else [])
        if items:
            what, node = items[0]
            check.violation(rule, f"{qual}/automaton" if rule == "F1" else f"{qual}/end-states",
                            f"{qual}: {what}" + (f" (+{len(items) - 1} more)" if len(items) > 1 else ""), loc(fn, node),
                            dict(facts, problems=[w for w, _ in items][:8]))
        else:
            check.ok(rule, f"{qual}/automaton" if rule == "F1" else f"{qual}/end-states",
                     f"{qual}: extracted parser automaton equals the grammar automaton ({len(seen)} product states, {n_trans} transitions)"
                     if rule == "F1" else f"{qual}: every reachable end state is accepted or rejected with SyntaxError exactly as the grammar says ({n_final} end states)",
                     loc(fn), facts, exhaustive=True, cases=n_trans if rule == "F1" else n_final)


# ----------------------------------------------------------------------------------------- the three parsers
def antecedent_automaton(check: Check) -> None:
    p = check.program
    fn = p.func("Antecedent.load")
    check.analysed(fn)
    r = Resolver(p, fn)
    consts = flag_constants(fn)
    svars = state_variables(fn, consts)
    head = token_loop(r)
    stack = _stack_var(fn)
    prop = _prop_var(r)
    if not consts or not svars:
        raise AnalysisError("Antecedent.load: state flags not recognised")
    m = Machine(fn, r, consts, svars, prop, stack, make_atom_classifier(r, stack))
    atoms = {"var": False, "is": False, "hedge": False, "any": False, "term": False, "andor": False, "and": False, "or": False}
    classes = {
        "variable": dict(atoms, var=True), "is": dict(atoms, **{"is": True}), "hedge": dict(atoms, hedge=True),
        "any": dict(atoms, hedge=True, any=True), "term": dict(atoms, term=True),
        "and/or": dict(atoms, andor=True, **{"and": True}), "other": dict(atoms),
    }
    init = _initial(r, head, svars, consts)
    ex = extract(m, head, classes, init)

    def step(s, depth, c, x):
        if s in ("V", "VA") and c == "variable":
            return "IS", min(3, depth + 1)
        if s == "IS" and c == "is":
            return "HT", depth
        if s == "HT" and c == "hedge":
            return "HT", depth
        if s == "HT" and c in ("any", "term"):
            return "VA", depth
        if s == "VA" and c == "and/or" and depth >= 2:
            return "VA", depth - 1
        return None

    compare(check, "F", "Antecedent.load", fn, ex, "V", step, lambda s, d, x: s == "VA" and d == 1, list(classes), {"SyntaxError"})


def consequent_automaton(check: Check) -> None:
    p = check.program
    fn = p.func("Consequent.load")
    check.analysed(fn)
    r = Resolver(p, fn)
    consts = flag_constants(fn)
    svars = state_variables(fn, consts)
    head = token_loop(r)
    prop = _prop_var(r)
    if not consts or not svars:
        raise AnalysisError("Consequent.load: state flags not recognised")
    m = Machine(fn, r, consts, svars, prop, None, make_atom_classifier(r, None))
    atoms = {"var": False, "is": False, "hedge": False, "any": False, "term": False, "and": False, "or": False, "with": False, "andor": False}
    classes = {"variable": dict(atoms, var=True), "is": dict(atoms, **{"is": True}), "hedge": dict(atoms, hedge=True),
               "any": dict(atoms, hedge=True, any=True),  # in a consequent `any` is a hedge like every other: a term must follow
               "term": dict(atoms, term=True), "and": dict(atoms, **{"and": True}, andor=True), "other": dict(atoms)}
    ex = extract(m, head, classes, _initial(r, head, svars, consts))

    def step(s, depth, c, x):
        if s == "V" and c == "variable":
            return "IS", depth
        if s == "IS" and c == "is":
            return "HT", depth
        if s == "HT" and c in ("hedge", "any"):
            return "HT", depth
        if s == "HT" and c == "term":
            return "AW", depth
        if s == "AW" and c == "and":
            return "V", depth
        return None

    compare(check, "F", "Consequent.load", fn, ex, "V", step, lambda s, d, x: s == "AW", list(classes), {"SyntaxError"})


def rule_parse_semantics(check: Check, rule: str = "F1") -> bool:
    """F1 for `Rule.parse`, by interpretation (sa/objexec.py): the method is run on *every* sequence of up to 5 (quick) / 6 (thorough) tokens drawn
    from {`if`, `then`, `with`, a number, a word} and compared with the grammar automaton of the statement (Appendix A.3): which texts are accepted,
    with which antecedent, consequent and weight; which are rejected, and that the rejection is a SyntaxError (a ValueError for a weight that is
    not a number) - never an internal error, never an acceptance of a rule with a missing keyword, part or weight, or a trailing token.
    -> False when the interpreter cannot follow the method (the extracted state machine then decides)."""
    import itertools

    from ..absexec import Internal, MObj, Raised, Unknown
    from ..objexec import ObjExec
    from .roundtrip_sem import E0

    p = check.program
    fn = p.func("Rule.parse")
    check.analysed(fn)
    alphabet = ["if", "then", "with", "0.25", "x"]
    depth = 6 if check.tier == "thorough" else 5

    def spec(tokens: tuple) -> Any:
        state, ant, con, weight = "BEGIN", [], [], 1.0
        for t in tokens:
            if state == "BEGIN":
                if t != "if":
                    return "SyntaxError"
                state = "IF"
            elif state == "IF":
                if t == "then":
                    state = "THEN"
                else:
                    ant.append(t)
            elif state == "THEN":
                if t == "with":
                    state = "WITH"
                else:
                    con.append(t)
            elif state == "WITH":
                try:
                    weight = float(t)
                except ValueError:
                    return "ValueError"
                state = "END"
            else:
                return "SyntaxError"
        if state not in ("THEN", "END") or not ant or not con:
            return "SyntaxError"
        return (" ".join(ant), " ".join(con), weight)

    bad: dict[str, str] = {}
    n = 0
    try:
        ex = ObjExec(p, "Rule.parse")
        ex.globals.update({"nan": float("nan"), "inf": float("inf")})
        # every sequence up to the depth, and every continuation by up to two more tokens of complete rules (what follows the weight, the end state)
        complete = [("if", "x", "then", "x", "with", "0.25"), ("if", "x", "x", "then", "x", "x", "with", "0.25"), ("if", "x", "then", "x", "with", "x")]
        longer = [c + extra for c in complete for k in range(0, 3) for extra in itertools.product(alphabet, repeat=k)]
        for k in range(0, depth + 1):
            for tokens in itertools.chain(itertools.product(alphabet, repeat=k), longer if k == depth else ()):
                n += 1
                ex.steps = 0
                me = MObj("Rule", {"antecedent": MObj("<part>", {"text": "<old antecedent>"}), "consequent": MObj("<part>", {"text": "<old consequent>"}), "weight": 0.5,
                                   "enabled": True, "__bases__": ()})
                text = " ".join(tokens)
                try:
                    ex.invoke(fn, [me, text], {}, E0)
                    got: Any = (me.fields["antecedent"].fields["text"], me.fields["consequent"].fields["text"], me.fields["weight"])
                except Raised as r_:
                    got = r_.cls
                except Internal as i_:
                    got = "!" + i_.cls
                want = spec(tokens)
                if got == want:
                    continue
                what = f"`{text}`" if text else "the empty text"
                if isinstance(got, str) and got.startswith("!"):
                    bad.setdefault("no-internal-error", f"parsing {what} ends with an internal {got[1:]}")
                elif isinstance(want, str) and not isinstance(got, str):
                    bad.setdefault("rejects", f"{what} is accepted (antecedent `{got[0]}`, consequent `{got[1]}`, weight {got[2]}); the grammar rejects it with {want}")
                elif isinstance(want, str):
                    bad.setdefault("rejects", f"{what} is rejected with {got}, specified {want}")
                elif isinstance(got, str):
                    bad.setdefault("accepts", f"{what} is rejected with {got}; the grammar accepts it (antecedent `{want[0]}`, consequent `{want[1]}`, weight {want[2]})")
                else:
                    bad.setdefault("accepts", f"{what} is read as antecedent `{got[0]}`, consequent `{got[1]}`, weight {got[2]}; specified `{want[0]}`, `{want[1]}`, {want[2]}")
    except Unknown as u:
        check.notes.append(f"{rule}: Rule.parse is outside the interpreter's model ({u}); decided on the extracted state machine")
        return False
    for aspect, good in (("accepts", "every text of the rule grammar is read with its antecedent, consequent and weight"),
                         ("rejects", "every other text is rejected with SyntaxError (ValueError for a weight that is not a number)"),
                         ("no-internal-error", "no text ends in an internal error")):
        hit = bad.get(aspect)
        check.require(hit is None, rule, f"Rule.parse/{aspect}", f"{good} ({n} token sequences: all of length <= {depth}, and complete rules continued by up to two tokens)" if hit is None else hit, loc(fn), {"sequences": n},
                      exhaustive=True, cases=n)
    return True


def rule_automaton(check: Check) -> None:
    p = check.program
    fn = p.func("Rule.parse")
    check.analysed(fn)
    r = Resolver(p, fn)
    consts = flag_constants(fn)
    svars = state_variables(fn, consts)
    head = token_loop(r)
    if not consts or not svars:
        raise AnalysisError("Rule.parse: states not recognised")
    # the two token lists whose emptiness is tested after the loop
    lists: dict[str, str] = {}
    for s in ast.walk(fn.analysis_node):
        if isinstance(s, ast.Call) and isinstance(s.func, ast.Attribute) and s.func.attr == "append" and isinstance(s.func.value, ast.Name):
            lists.setdefault(s.func.value.id, f"list{len(lists)}")
    m = Machine(fn, r, consts, svars, None, None, make_atom_classifier(r, None), list_flags=lists)
    atoms = {"if": False, "then": False, "with": False, "number": False, "is": False, "and": False, "or": False}
    classes = {"if": dict(atoms, **{"if": True}), "then": dict(atoms, then=True), "with": dict(atoms, **{"with": True}),
               "number": dict(atoms, number=True), "other": dict(atoms)}
    init = _initial(r, head, svars, consts)
    init["flags"] = {v: False for v in lists.values()}
    ex = extract(m, head, classes, init)
    # which list is the antecedent / consequent: by the attribute they are joined into after the loop
    role: dict[str, str] = {}

    def lists_behind(e: ast.AST, node, depth: int = 0) -> set[str]:
        """Token lists an expression is computed from, followed through local temporaries."""
        out: set[str] = set()
        for x in ast.walk(e):
            if isinstance(x, ast.Name):
                if x.id in lists:
                    out.add(lists[x.id])
                elif depth < 3:
                    for d in r.cfg.defs_reaching(x.id, node):
                        if d.kind == "value" and d.value is not None and d.node is not node:
                            out |= lists_behind(d.value, d.node, depth + 1)
        return out

    for n_ in r.cfg.stmt_nodes():
        s = n_.ast
        if isinstance(s, ast.Assign) and isinstance(s.targets[0], ast.Attribute) and isinstance(s.targets[0].value, ast.Attribute):
            owner = s.targets[0].value.attr
            for lf in lists_behind(s.value, n_):
                role[owner] = lf
    if set(role) != {"antecedent", "consequent"}:
        raise AnalysisError("Rule.parse: antecedent/consequent token lists not recognised")

    def step(s, depth, c, x):
        if s == "BEGIN":
            return ("IF", depth) if c == "if" else None
        if s == "IF":
            return ("THEN", depth) if c == "then" else ("IF+", depth)
        if s == "IF+":
            return ("THEN+", depth) if c == "then" else ("IF+", depth)
        if s in ("THEN", "THEN+"):
            plus = s.endswith("+")
            if c == "with":
                return ("WITH+c" if False else ("WITH" + ("+" if plus else "")), depth) if True else None
            return (("THEN+" if plus else "THEN") + "c", depth) if not s.endswith("c") else (s, depth)
        return None

    # a simpler encoding: spec state = (phase, antecedent seen, consequent seen)
    def step2(s, depth, c, x):
        phase, a, k = s
        if phase == "BEGIN":
            return (("IF", a, k), depth) if c == "if" else None
        if phase == "IF":
            return (("THEN", a, k), depth) if c == "then" else (("IF", True, k), depth)
        if phase == "THEN":
            return (("WITH", a, k), depth) if c == "with" else (("THEN", a, True), depth)
        if phase == "WITH":
            return (("END", a, k), depth) if c == "number" else None
        return None

    def accept(s, depth, x):
        phase, a, k = s
        return phase in ("THEN", "END") and a and k

    # consistency of the abstract flags with the spec's booleans is part of the product (checked through acceptance)
    compare(check, "F", "Rule.parse", fn, ex, ("BEGIN", False, False), step2, accept, list(classes), {"SyntaxError", "ValueError"})
    # weight: parsed from the token after `with`, default 1.0
    wdefs = [s for s in ast.walk(fn.analysis_node) if isinstance(s, ast.Assign) and isinstance(s.targets[0], ast.Name) and s.targets[0].id == "weight"]
    init_ok = any(isinstance(s.value, ast.Constant) and s.value.value == 1.0 for s in wdefs)
    parsed = any(isinstance(s.value, ast.Call) and unparse(s.value.func) in ("float", "to_float") for s in wdefs)
    stored = any(isinstance(s, ast.Assign) and isinstance(s.targets[0], ast.Attribute) and s.targets[0].attr == "weight" and
                 isinstance(s.value, ast.Name) and s.value.id == "weight" for s in ast.walk(fn.analysis_node))
    check.require(init_ok and parsed and stored, "F1", "Rule.parse/weight",
                  "the weight defaults to 1.0, is parsed from the token after `with` and stored", loc(fn))


def _stack_var(fn) -> str | None:
    for s in ast.walk(fn.analysis_node):
        if isinstance(s, (ast.Assign, ast.AnnAssign)):
            v = s.value
            t = s.targets[0] if isinstance(s, ast.Assign) else s.target
            if isinstance(v, ast.Call) and unparse(v.func) in ("deque", "list", "collections.deque") and isinstance(t, ast.Name):
                return t.id
    return None


def _prop_var(r: Resolver) -> str | None:
    for n in r.cfg.stmt_nodes():
        if isinstance(n.ast, ast.Assign) and isinstance(n.ast.targets[0], ast.Name):
            t = r.term(n.ast.value, n)
            if t[0] == "call" and t[1] == ("global", "fuzzylite.rule.Proposition"):
                return n.ast.targets[0].id
    return None


def _initial(r: Resolver, head, svars: set[str], consts: dict[str, int]) -> dict[str, Any]:
    """Abstract state on loop entry: evaluate the (single) definitions of the state variables before the loop."""
    cfg = r.cfg
    it = [q for q, _ in head.pred if q.kind == "iter"][0]
    ints = {}
    for v in svars:
        defs = cfg.defs_reaching(v, it)
        if len(defs) != 1:
            raise AnalysisError(f"{r.fn.qualname}: state variable {v} has {len(defs)} initial definitions")
        d = next(iter(defs))
        if d.value is None or not _is_flag_expr(d.value, consts) or isinstance(d.value, ast.IfExp):
            raise AnalysisError(f"{r.fn.qualname}: initial state `{unparse(d.value)}` not recognised")
        from ..fsm import _const_arith

        ints[v] = _const_arith(d.value, consts)
    return {"ints": ints, "prop": False, "depth": 0, "flags": {}}


# ----------------------------------------------------------------------------------------- X2 exception discipline
EXEMPT = {
    ("Function.infix_to_postfix", "RuntimeError"):
        "unreachable: no token of any class, in any configuration the pushdown interpretation (PD) explores, ends in it",
    ("RuleBlock.load_rules", "RuntimeError"):
        "not on the import path: FllImporter.engine constructs Engine() without rule blocks, so the loop has no iterations",
}


def exception_discipline(check: Check) -> None:
    p = check.program
    cg = CallGraph(p)
    roots = ["Rule.create", "FllImporter.from_string"]
    pred = cg.reachable(roots)
    sites = 0
    for q in sorted(pred):
        f = cg._fn.get(q)
        if f is None:
            continue
        for n in ast.walk(f.analysis_node):
            if not isinstance(n, ast.Raise) or n.exc is None:
                continue
            name = unparse(n.exc.func) if isinstance(n.exc, ast.Call) else unparse(n.exc)
            sites += 1
            chain = " <- ".join(reversed(cg.path_to(pred, q)[-4:]))
            where = f"{f.file}:{n.lineno}"
            if name in ALLOWED:
                check.ok("X2", f"{q}/{name}@{_ordinal_raise(f, n)}", f"raises {name} (reached via {chain})", where)
            elif (q, name) in EXEMPT:
                ok = exemption_holds(check, q, name)
                check.require(ok, "X2", f"{q}/{name}@{_ordinal_raise(f, n)}",
                              f"{name} is exempt: {EXEMPT[(q, name)]}" if ok else
                              f"raises {name}, and the structural reason for exempting it no longer holds", where)
            else:
                check.violation("X2", f"{q}/{name}@{_ordinal_raise(f, n)}",
                                f"loading text can fail with {name} (not a syntax, value or lookup error); reached via {chain}", where)
    check.notes.append(f"X2: {len(pred)} functions reachable from {roots}, {sites} explicit raise sites")
    for q in pred:
        f = cg._fn.get(q)
        if f is not None:
            check.analysed(f)


def _ordinal_raise(f, node) -> int:
    rs = [n for n in ast.walk(f.analysis_node) if isinstance(n, ast.Raise)]
    rs.sort(key=lambda n: (n.lineno, n.col_offset))
    return rs.index(node)


def exemption_holds(check: Check, q: str, name: str) -> bool:
    p = check.program
    if q == "Function.infix_to_postfix":
        # unreachable on every input the pushdown interpretation explores: PD steps the token loop on every class of token (operand, function, `,`,
        # operator, `(`, `)`) in every configuration up to its depth and compares each outcome - a RuntimeError would be one - with the reference
        pd = [o for o in check.obligations if o.rule == "PD" and o.construct.startswith("Function.infix_to_postfix/")]
        if not pd:
            from ..report import Check as _Check
            from . import pushdown

            tmp = _Check(check.prop, p, check.tier)
            pushdown.infix_to_postfix(tmp)
            pd = [o for o in tmp.obligations if o.rule == "PD"]
        return bool(pd) and all(o.status == "ok" for o in pd)
    if q == "RuleBlock.load_rules":
        fn = p.func("FllImporter.engine")
        calls = [c for c in ast.walk(fn.analysis_node) if isinstance(c, ast.Call) and unparse(c.func) == "Engine"]
        return bool(calls) and all(not c.args and not c.keywords for c in calls)
    return False


# ----------------------------------------------------------------------------------------- X4 constant subscripts
def constant_subscripts(check: Check) -> None:
    """X4: constant subscripts of `<text>.split()` lists, decided by interpreting each function for every token count 0..4.

    The abstraction of the text is its number of whitespace-separated tokens n: len(list) = n, truthiness of the list and of the
    (stripped) text = n > 0. Every path on which a subscript `list[k]` is evaluated must have k < n (or -k <= n)."""
    from ..guards import UNKNOWN, RoleEval, paths

    p = check.program
    targets = ["FllImporter.term", "FllImporter.activation", "FllImporter.defuzzifier", "FllImporter.range",
               "FllImporter.extract_key_value", "FllImporter.extract_value", "Discrete.configure"]
    n_sites = 0
    for q in targets:
        fn = p.func(q)
        check.analysed(fn)
        r = Resolver(p, fn)
        cfg = r.cfg

        def split_of(t: Term) -> Term | None:
            if t[0] == "call" and t[1][0] == "attr" and t[1][2] == "split":
                return t
            return None

        sites = []
        for n in cfg.stmt_nodes():
            for e in cfg.exprs_of(n):
                for x in ast.walk(e):
                    if isinstance(x, ast.Subscript) and isinstance(x.ctx, ast.Load):
                        k = const_value(r.term(x.slice, n))
                        base = r.term(x.value, n)
                        if isinstance(k, int) and not isinstance(k, bool) and split_of(base) is not None:
                            sites.append((n, e, x, k, base))
        if not sites:
            continue
        lists = {b for _, _, _, _, b in sites}

        def classify(t: Term, e, lists=lists):
            if t in lists:
                return "n"
            if t[0] == "call" and t[1] == ("global", "len") and len(t[2]) == 1 and t[2][0] in lists:
                return "n"
            for L in lists:
                if t == L[1][1]:  # the text that was split: non-empty (and stripped by the caller) iff it has tokens
                    return "n"
            return None

        by_site: dict[int, list] = {}
        for ntok in range(0, 5):
            ev = RoleEval(r, classify)
            env = {"n": ntok}
            for pa in paths(cfg, [s_ for s_, _ in cfg.entry.succ][0], ev, env, set()):
                for n, e, x, k, base in sites:
                    if n not in pa:
                        continue
                    if not _evaluated(e, x, ev, r, n, env):
                        continue
                    ok = (k < ntok) if k >= 0 else (-k <= ntok)
                    by_site.setdefault(id(x), []).append((ntok, ok))
        for n, e, x, k, base in sites:
            n_sites += 1
            res = by_site.get(id(x), [])
            badn = sorted({nt for nt, ok in res if not ok})
            name = x.value.id if isinstance(x.value, ast.Name) else unparse(x.value)[:20]
            check.require(not badn, "X4", f"{q}/{name}[{k}]", f"`{unparse(x)}` is evaluated only when the list is long enough (token counts 0..4 interpreted)" if not badn else
                          f"`{unparse(x)}` is evaluated when the text has {badn} token(s): IndexError instead of a syntax error", loc(fn, n),
                          exhaustive=True, cases=5)
    if n_sites == 0:
        raise AnalysisError("X4: no constant subscripts of split() lists found on the import path")
    # the "non-empty and stripped" fact for FllImporter.activation/defuzzifier: every in-package caller on the import path
    # passes a value produced by extract_key_value
    for q in ("FllImporter.activation", "FllImporter.defuzzifier"):
        name = q.split(".")[1]
        for caller in ("FllImporter.output_variable", "FllImporter.rule_block"):
            fn = p.func(caller)
            r = Resolver(p, fn)
            for n, c in r.cfg.all_calls():
                if isinstance(c.func, ast.Attribute) and c.func.attr == name and r.term(c.func.value, n) == ("param", "self"):
                    t = r.term(c, n)
                    arg = t[2][0] if t[2] else ("const", None)
                    stripped = any(s_[0] == "call" and s_[1] == ("attr", ("param", "self"), "extract_key_value") for s_ in walk(arg))
                    check.require(stripped, "X4", f"{caller}->{name}", "the value passed comes from extract_key_value (stripped, so split() "
                                  "of a non-empty value is non-empty)" if stripped else f"passes {show(arg)}", loc(fn, n))
    fn = p.func("FllImporter.extract_key_value")
    r = Resolver(p, fn)
    rets = [r.term(n.ast.value, n) for n in r.cfg.stmt_nodes() if isinstance(n.ast, ast.Return) and n.ast.value is not None]
    ok = bool(rets) and all(t[0] == "tuple" and all(x[0] == "call" and x[1][0] == "attr" and x[1][2] == "strip" for x in t[1]) for t in rets)
    check.require(ok, "X4", "FllImporter.extract_key_value/stripped", "key and value are returned stripped", loc(fn))


def _evaluated(root: ast.AST, site: ast.AST, ev, r: Resolver, node, env) -> bool:
    """Is `site` evaluated when `root` is evaluated under env? (conditional expressions and short-circuit operators)"""
    from ..guards import UNKNOWN

    def contains(a: ast.AST) -> bool:
        return any(y is site for y in ast.walk(a))

    cur = root
    while cur is not site:
        if isinstance(cur, ast.IfExp):
            if contains(cur.test):
                cur = cur.test
                continue
            v = ev.eval_term(r.term(cur.test, node), env)
            if contains(cur.body):
                if v is False:
                    return False
                cur = cur.body
            else:
                if v is True:
                    return False
                cur = cur.orelse
            continue
        if isinstance(cur, ast.BoolOp):
            idx = next(i for i, v_ in enumerate(cur.values) if contains(v_))
            for u in cur.values[:idx]:
                v = ev.eval_term(r.term(u, node), env)
                if v is UNKNOWN:
                    continue
                truth = bool(v)
                if isinstance(cur.op, ast.And) and not truth:
                    return False
                if isinstance(cur.op, ast.Or) and truth:
                    return False
            cur = cur.values[idx]
            continue
        nxt = [c for c in ast.iter_child_nodes(cur) if contains(c)]
        if not nxt:
            return True
        cur = nxt[0]
    return True


def _length_fact(r: Resolver, cfg, n, sub, name: str, need: int) -> tuple[bool, str]:
    for g, pol, gn in cfg.must_guards(n):
        d = shunting._guard_depth(g, pol, name, r, gn)
        if d >= need:
            return True, f"guard `{unparse(g)}` is {pol}"
        # parity: len(x) % 2 == 0 is False => odd => at least one element
        if need == 1 and not pol and isinstance(g, ast.Compare) and isinstance(g.left, ast.BinOp) and isinstance(g.left.op, ast.Mod) \
                and shunting._len_of(g.left.left, name):
            return True, "odd length implies non-empty"
        # len(values) != 2 raise  => == 2
        if isinstance(g, ast.Compare) and len(g.ops) == 1 and shunting._len_of(g.left, name):
            k = const_value(r.term(g.comparators[0], gn))
            if isinstance(k, int) and ((isinstance(g.ops[0], ast.NotEq) and not pol) or (isinstance(g.ops[0], ast.Eq) and pol)) and k >= need:
                return True, f"len({name}) == {k}"
        # `len(parts) != 2 or ...` false
        if not pol and isinstance(g, ast.BoolOp) and isinstance(g.op, ast.Or):
            for v in g.values:
                if isinstance(v, ast.Compare) and len(v.ops) == 1 and isinstance(v.ops[0], ast.NotEq) and shunting._len_of(v.left, name):
                    k = const_value(r.term(v.comparators[0], gn))
                    if isinstance(k, int) and k >= need:
                        return True, f"len({name}) == {k}"
    # short-circuit in the same expression: `len(parts) != 2 or (... parts[0] ...)`
    for e in cfg.exprs_of(n):
        for x in ast.walk(e):
            if isinstance(x, ast.BoolOp) and isinstance(x.op, ast.Or):
                for i, v in enumerate(x.values):
                    if any(y is sub for y in ast.walk(v)):
                        for u in x.values[:i]:
                            if isinstance(u, ast.Compare) and len(u.ops) == 1 and isinstance(u.ops[0], ast.NotEq) and shunting._len_of(u.left, name):
                                k = const_value(r.term(u.comparators[0], n))
                                if isinstance(k, int) and k >= need:
                                    return True, f"short-circuit after `{unparse(u)}`"
            if isinstance(x, ast.BoolOp) and isinstance(x.op, ast.And):
                for i, v in enumerate(x.values):
                    if any(y is sub for y in ast.walk(v)):
                        for u in x.values[:i]:
                            if shunting._guard_depth(u, True, name, r, n) >= need:
                                return True, f"short-circuit after `{unparse(u)}`"
    # conditional expression in the same statement: `values[1] if len(values) > 1 else None`
    for e in cfg.exprs_of(n):
        for x in ast.walk(e):
            if isinstance(x, ast.IfExp) and any(y is sub for y in ast.walk(x.body)):
                if shunting._guard_depth(x.test, True, name, r, n) >= need:
                    return True, f"conditional expression on `{unparse(x.test)}`"
    # a split() of a value known non-empty and stripped (early return on `not fll`)
    if need == 1:
        base = r.term(ast.Name(id=name, ctx=ast.Load()), n)
        for c in walk(base):
            if c[0] == "call" and c[1][0] == "attr" and c[1][2] == "split" and c[1][1][0] == "param":
                prm = c[1][1][1]
                for g, pol, gn in cfg.must_guards(n):
                    t = r.term(g, gn)
                    if not pol and t[0] == "bool" and t[1] == "or" and ("unop", "not", ("param", prm)) in t[2]:
                        return True, f"`{prm}` is non-empty here (and stripped by the caller, see {r.fn.qualname.split('.')[0]}->callers)"
                    if not pol and t == ("unop", "not", ("param", prm)):
                        return True, f"`{prm}` is non-empty here (and stripped by the caller)"
    return False, ""


_CG_CACHE: dict = {}


def _callgraph(p) -> CallGraph:
    cg = p.__dict__.get("_cg")
    if cg is None:
        cg = CallGraph(p)
        p.__dict__["_cg"] = cg
        p.__dict__["_may_raise"] = {}
    return cg


def _may_raise(cg: CallGraph, q: str, depth: int = 0, seen: set | None = None) -> bool:
    memo = cg.p.__dict__["_may_raise"]
    if q in memo:
        return memo[q]
    seen = seen or set()
    if q in seen or depth > 6:
        return False
    seen.add(q)
    f = cg._fn.get(q)
    if f is None:
        return False
    res = any(isinstance(x, ast.Raise) for x in ast.walk(f.analysis_node))
    if not res:
        res = any(_may_raise(cg, c, depth + 1, seen) for c in cg.callees(f))
    memo[q] = res
    return res


# ----------------------------------------------------------------------------------------- O9 load atomicity
def load_atomicity(check: Check, only: str | None = None) -> None:
    p = check.program
    for qual, attr in (("Antecedent.load", "expression"), ("Consequent.load", "conclusions")):
        if only is not None and qual != only:
            continue
        fn = p.func(qual)
        r = Resolver(p, fn)
        cfg = r.cfg
        first = [s for s, _ in cfg.entry.succ][0]
        unloads = [n for n, c in cfg.find_calls(".unload") if r.term(c.func.value, n) == ("param", "self")]  # type: ignore[union-attr]
        stores = [n for n in cfg.stmt_nodes() for t in cfg.stores_at(n) if isinstance(t, ast.Attribute) and t.attr == attr and
                  r.term(t.value, n) == ("param", "self")]
        mutations = [n for n, c in cfg.all_calls() if isinstance(c.func, ast.Attribute) and c.func.attr in ("append", "extend", "insert")
                     and path_of(r.term(c.func.value, n)) == f"self.{attr}"]
        raises = [n for n in cfg.stmt_nodes() if isinstance(n.ast, ast.Raise)]
        # unload precedes everything that can raise: explicit raises, and calls into functions that (transitively) raise
        cg = _callgraph(p)
        risky = []
        for n in cfg.stmt_nodes():
            if n in unloads:
                continue
            for c in cfg.calls_in(n):
                targets = cg._call_targets(r, c, n)
                if any(_may_raise(cg, q) for q in targets):
                    risky.append(n)
        late = [x for x in raises + stores + risky if not cfg.must_precede(unloads, x)]
        unload_first = bool(unloads) and not late
        check.require(unload_first, "O9", f"{qual}/unload-first", "the previous parse is discarded before anything can fail" if unload_first else
                      f"`{unparse(late[0].ast)[:70]}` (line {late[0].lineno}) can fail before the previous parse is discarded: after a failed load "
                      "the rule still reports loaded and is evaluated with its old antecedent/consequent", loc(fn, late[0] if late else fn.node))
        # the commit is last: no raise (explicit) and no call reachable after it
        # (a guard clause duplicates the commit: every store site is judged on what can follow it)
        real = [n for n in stores if not n.copy] or stores
        commit_last = bool(stores) and not mutations
        for st_ in (real if commit_last else []):
            after = cfg.reach([s for s, _ in st_.succ])
            if any(isinstance(x.ast, ast.Raise) or cfg.calls_in(x) or x in real for x in after if x.kind in ("stmt", "test", "iter", "with") and x is not st_):
                commit_last = False
        check.require(commit_last, "O9", f"{qual}/commit-last",
                      f"self.{attr} is written once, after the last statement that can fail" if commit_last else
                      f"self.{attr} becomes non-empty before the last statement that can fail: a failed load can leave the rule reporting loaded",
                      loc(fn, stores[0] if stores else fn.node))
    if only is not None:
        return
    # is_loaded definitions
    for qual, attr in (("Antecedent.is_loaded", "expression"), ("Consequent.is_loaded", "conclusions")):
        fn = p.func(qual)
        r = Resolver(p, fn)
        rets = [r.term(n.ast.value, n) for n in r.cfg.stmt_nodes() if isinstance(n.ast, ast.Return) and n.ast.value is not None]
        ok = bool(rets) and all(any(path_of(s) == f"self.{attr}" for s in walk(t)) for t in rets)
        check.require(ok, "O9", f"{qual}/definition", f"is_loaded reflects self.{attr}", loc(fn))
    fn = p.func("Rule.load")
    r = Resolver(p, fn)
    cfg = r.cfg
    calls = [(n, path_of(r.term(c.func.value, n))) for n, c in cfg.find_calls(".load")]  # type: ignore[union-attr]
    both = {pth for _, pth in calls} >= {"self.antecedent", "self.consequent"}
    fnl = p.func("Rule.is_loaded")
    rl = Resolver(p, fnl)
    rets = [rl.term(n.ast.value, n) for n in rl.cfg.stmt_nodes() if isinstance(n.ast, ast.Return) and n.ast.value is not None]
    conj = bool(rets) and all(t[0] == "bool" and t[1] == "and" and len(t[2]) == 2 for t in rets)
    check.require(both and conj, "O9", "Rule.load/both-parts", "a rule is loaded only if both its antecedent and its consequent loaded", loc(fn))


def run(check: Check) -> None:
    if not rule_parse_semantics(check):
        rule_automaton(check)  # fallback: the extracted state machine, when the interpreter cannot follow Rule.parse
    loaders.loader(check, "Antecedent.load")
    loaders.loader(check, "Consequent.load")
    exception_discipline(check)
    tokenisers(check)
    importer_blocks(check)
    pushdown.infix_to_postfix(check)
    pushdown.parse_postfix(check)
    constant_subscripts(check)
    load_atomicity(check)
    from .c19 import load_then_evaluate

    load_then_evaluate(check)  # "either succeeds - and then ... the rule evaluated": what Antecedent.load accepts, activation_degree evaluates
    check.exhaustive_parts += ["parser automata: product with the grammar automaton over all token classes and end states"]


# ------------------------------------------------------------------------------------------------ X9 importer blocks by interpretation
CLEAN_ERRORS = {"SyntaxError", "ValueError", "KeyError", "LookupError"}
INTERNAL_ERRORS = {"TypeError", "AttributeError", "IndexError", "RecursionError", "UnboundLocalError", "NameError", "ZeroDivisionError", "AssertionError"}


def importer_blocks(check: Check, rule: str = "X9") -> None:
    """X9 [E on the model blocks]: `FllImporter.input_variable`, `output_variable` and `rule_block` are interpreted (sa/absexec.py) on blocks of two
    concrete lines - the header and one `key: value` line - for every key the method distinguishes (the string constants it compares the key
    with, plus an unknown key) and the values "", "x", "1", "1 2", "1 2 3", "true": the parsers of the values (`boolean`, `range`, ...), the
    module-level helpers and the property setters the value is handed to are interpreted with it. Every such block must either be imported
    or be rejected with a syntax, value or lookup error; a TypeError, AttributeError or IndexError on some block is an internal error.
    What the model does not reach (the term, norm, activation and defuzzifier factories: rule X4 and the factories' own rules) is skipped;
    a (key, value) the interpreter cannot follow is counted as undecided, never as an alarm."""
    from ..absexec import AbsExec, Internal, MObj, Opaque, Raised, Unknown, _Return
    from .common import static_resolver

    p = check.program
    imp = p.cls("FllImporter")
    resolver = static_resolver(p)
    values = ["", "x", "1", "1 2", "1 2 3", "true"]
    decided = undecided = 0
    bad: dict[str, str] = {}
    skip = {"term", "activation", "defuzzifier", "tnorm", "snorm", "component", "rule"}

    def make(cls: str):  # type: ignore[no-untyped-def]
        def construct(ex_, e, args, kw):
            ci = p.cls(cls)
            o = MObj(cls, {"name": "", "description": "", "enabled": True, "minimum": float("-inf"), "maximum": float("inf"), "lock_range": False, "terms": [],
                           "rules": [], "conjunction": None, "disjunction": None, "implication": None, "activation": None, "default_value": float("nan"),
                           "lock_previous": False, "defuzzifier": None, "fuzzy": MObj("Aggregated", {"terms": [], "aggregation": None, "minimum": 0.0, "maximum": 0.0}),
                           "__class__": MObj("class", {"__name__": cls}), "__bases__": tuple(c.name for c in ci.mro[1:])})
            return o
        return construct

    for mname, header in (("input_variable", "InputVariable"), ("output_variable", "OutputVariable"), ("rule_block", "RuleBlock")):
        fn = imp.methods.get(mname)
        if fn is None:
            raise AnalysisError(f"anchor vanished: FllImporter.{mname}")
        check.analysed(fn)
        node = fn.node
        params = [a.arg for a in node.args.args]
        keys = sorted({c.value for x in ast.walk(node) if isinstance(x, ast.Compare) for c in [x.left] + list(x.comparators)
                       if isinstance(c, ast.Constant) and isinstance(c.value, str) and c.value and c.value != header and " " not in c.value}) + ["no-such-key"]
        for key in keys:
            for val in values:
                lines = [f"{header}: v", f"  {key}: {val}"]
                hooks = {"method:strip_comments": lambda ex_, e, recv, args, kw: args[0],
                         "method:as_identifier": lambda ex_, e, recv, args, kw: args[0]}
                for nm in skip:
                    hooks[f"method:{nm}"] = lambda ex_, e, recv, args, kw: Opaque("component")
                ex = AbsExec(fn.qualname, hooks, helpers={k: v for k, v in imp.methods.items() if k not in skip and k != mname})
                ex.concrete_strings = True
                ex.static_resolver = resolver
                ex.function_resolver = lambda nm_: p.functions.get(nm_) if nm_ in p.functions and "." not in nm_ else None
                ex.globals = {"InputVariable": make("InputVariable"), "OutputVariable": make("OutputVariable"), "RuleBlock": make("RuleBlock"), "Op": Opaque("Op"),
                              "nan": float("nan"), "inf": float("inf")}
                for cname in ("InputVariable", "OutputVariable", "RuleBlock"):
                    ci = p.cls(cname)
                    for c in ci.mro:
                        for g, getter in c.getters.items():
                            ex.properties.setdefault((cname, g), (getter, c.setters.get(g)))
                me = MObj("FllImporter", {"separator": "\n"})
                text = "\n".join(lines)
                try:
                    ex.block(list(node.body), {params[0]: me, params[1]: text, **({params[2]: None} if len(params) > 2 else {})})
                    outcome = None
                except _Return:
                    outcome = None
                except Raised as r_:
                    outcome = r_.cls
                except Internal as i_:
                    outcome = "!" + i_.cls
                except (Unknown, AnalysisError):
                    undecided += 1
                    continue
                decided += 1
                cls_ = (outcome or "").lstrip("!")
                if outcome is not None and (outcome.startswith("!") or cls_ in INTERNAL_ERRORS or cls_ not in CLEAN_ERRORS):
                    bad.setdefault(f"FllImporter.{mname}/{key}", f"the block {lines!r} is neither imported nor rejected cleanly: it fails with {cls_} "
                                   "(an internal error; specified: SyntaxError, ValueError or a lookup error)")
        construct = f"FllImporter.{mname}"
        hits = [v for k, v in bad.items() if k.startswith(construct + "/")]
        check.require(not hits, rule, construct + "/blocks", f"every model block is imported or rejected with a syntax / value / lookup error ({len(keys)} keys x {len(values)} values)"
                      if not hits else hits[0], loc(fn), {"keys": keys}, exhaustive=True, cases=len(keys) * len(values))
    # a rule block whose `rule:` line the rule parser rejects is rejected as a whole - for the default separator and for a custom one
    fn = imp.methods.get("rule_block")
    node = fn.node
    params = [a.arg for a in node.args.args]
    why = None
    n_sep = 0
    for sep in ("\n", ";"):
        n_sep += 1
        seen_rules: list[Any] = []

        def rule_hook(ex_, e, recv, args, kw, seen_rules=seen_rules):
            seen_rules.append(args[0] if args else None)
            raise Raised("SyntaxError", e)  # the model rule text is malformed: Rule.create rejects it

        hooks = {"method:strip_comments": lambda ex_, e, recv, args, kw: args[0], "method:as_identifier": lambda ex_, e, recv, args, kw: args[0], "method:rule": rule_hook}
        for nm in skip - {"rule"}:
            hooks[f"method:{nm}"] = lambda ex_, e, recv, args, kw: Opaque("component")
        ex = AbsExec(fn.qualname, hooks, helpers={k: v for k, v in imp.methods.items() if k not in skip and k != "rule_block"})
        ex.concrete_strings = True
        ex.static_resolver = resolver
        ex.function_resolver = lambda nm_: p.functions.get(nm_) if nm_ in p.functions and "." not in nm_ else None
        ex.globals = {"RuleBlock": make("RuleBlock"), "Op": Opaque("Op"), "nan": float("nan"), "inf": float("inf")}
        me = MObj("FllImporter", {"separator": sep})
        text = sep.join(["RuleBlock: v", "  enabled: true", "  rule: if x"])
        try:
            ex.block(list(node.body), {params[0]: me, params[1]: text, **({params[2]: None} if len(params) > 2 else {})})
            outcome = "accepted"
        except _Return:
            outcome = "accepted"
        except Raised as r_:
            outcome = r_.cls
        except Internal as i_:
            outcome = "!" + i_.cls
        except (Unknown, AnalysisError) as u_:
            check.notes.append(f"{rule}: rule block with separator {sep!r} outside the model: {u_}")
            continue
        if outcome != "SyntaxError":
            why = why or (f"a rule block whose rule the parser rejects (lines separated by {sep!r}) is {'accepted' if outcome == 'accepted' else 'answered with ' + outcome.lstrip('!')}"
                          + ("" if seen_rules else ": its `rule:` line never reaches the rule parser"))
    check.require(why is None, rule, "FllImporter.rule_block/malformed-rule", f"a rule block with a malformed rule is rejected with the parser's SyntaxError ({n_sep} separators)"
                  if why is None else why, loc(fn), exhaustive=True, cases=n_sep)
    check.notes.append(f"{rule}: {decided} (key, value) blocks decided, {undecided} outside the interpreter's model")
    if decided < 60:
        raise AnalysisError(f"{rule}: only {decided} model blocks could be interpreted (the importer is no longer within the interpreter's model)")
