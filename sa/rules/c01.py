"""C01 - Engine output equals the documented inference pipeline (wiring of the stages)."""

from __future__ import annotations

from ..report import Check
from . import c08, wiring

EXPLANATION = (
    "static analysis of the inference pipeline wiring: Engine.process (clear all -> activate enabled blocks in order "
    "-> defuzzify all), General.activate (abstract interpretation of one iteration; operator origins), "
    "Rule.activate_with (weight x antecedent), Rule.trigger (enabled guard), Consequent.modify (one Activated per "
    "enabled conclusion, own variable/term/implication), Activated.membership, Aggregated.membership (fold seeded with "
    "0), OutputVariable.defuzzify arguments, Antecedent.activation_degree (path-sensitive abstract interpretation of "
    "the 7 dispatch cases), Aggregated.activation_degree lookup; the three operators of the block reach activate_with / trigger under "
    "every activation method (P2 x 7); who-may-call: only Rule.trigger (or a caller guarded by the rule's enabled flag) modifies a consequent"
    "; P11 - General, First, Threshold (forwards) and Last (backwards) fire a selected rule before they compute the degree of the next rule: an output variable read by a later antecedent sees the contributions accumulated so far"
)
ASSUMPTIONS = ["decides how the stages are connected on every path; the numeric values of the stages are not decided"]
FLOORS = {"P1": 3, "P2": 21, "A-sem": 2, "O-dea": 1, "P3": 3, "P4": 3, "P5": 3, "P6": 2, "P7": 3, "P8": 3, "P9": 7, "P10": 2}


def run(check: Check) -> None:
    wiring.p4_who_modifies(check)
    wiring.p1_process_phases(check)
    from .activation_sem import activation_semantics

    # General: every loaded rule is deactivated, its degree computed and the rule triggered, with the block's operators (interpreted on model blocks)
    activation_semantics(check, "General", ("deactivate-first", "degrees", "conjunction", "disjunction", "implication", "selection", "accumulated"))
    for cls in c08.ACTIVATIONS[1:]:  # the selective methods hand the same three operators of the block to the rules they fire
        activation_semantics(check, cls, ("conjunction", "disjunction", "implication") + (("accumulated",) if cls in ("First", "Last", "Threshold") else ()))
    wiring.p3_weight(check)
    wiring.engine_configure_semantics(check)  # the block's operators / the variable's aggregation and defuzzifier are the ones Engine.configure was given
    wiring.p4_trigger(check)
    from .consequent_sem import consequent_semantics

    consequent_semantics(check, rule="P5", aspects=("terms", "implication", "no-internal-error"))
    wiring.p6_activated_membership(check)
    wiring.p7_aggregated_membership(check)
    wiring.p8_defuzzify_args(check)
    from .antecedent_sem import antecedent_semantics

    antecedent_semantics(check, rule="P9")  # Antecedent.activation_degree interpreted on model expression trees with symbolic leaves
    wiring.p10_activation_degree_lookup(check)
    from .common import memoisation_rule

    memoisation_rule(check)
    check.exhaustive_parts.append("General.activate iteration; Antecedent.activation_degree dispatch cases; enabled guards")
