"""C06 - Rule antecedents mean what the rule grammar says."""

from __future__ import annotations

import ast

from typing import Any

from ..pm import AnalysisError, unparse
from ..report import Check
from ..sym import Resolver, Term, path_of, show, walk
from ..tables import function_factory
from . import c08, c16, loaders, pushdown, shunting, wiring
from .activation_sem import activation_semantics
from .common import const_value, iter_base, iter_precedes, loc, loops_over, strip

EXPLANATION = (
    "static analysis of the antecedent pipeline: `and` binds tighter than `or` and both are left-associative binary "
    "operators in the extracted operator table (compared as an order); the shunting-yard pop rule is decided "
    "exhaustively; operands keep their reading order in the postfix queue; Antecedent.load's automaton equals the "
    "grammar automaton (product exploration) and attaches the first popped operand as right, the second as left; "
    "hedges are stored in reading order and applied reversed; Antecedent.activation_degree's dispatch cases "
    "(disabled->0, input->membership of the value, output->aggregated activation, any, and->conjunction, "
    "or->disjunction) by path-sensitive abstract interpretation; the weight factor; format_infix's spacing alphabet; "
    "the infix->postfix converter interpreted as a pushdown transducer over token classes and compared with the shunting-yard "
    "transducer on every operator-stack configuration up to a depth bound (PD: parentheses override, pop rule, output order); "
    "conjunction/disjunction wiring of all seven activation methods; Antecedent.load interpreted abstractly against the antecedent grammar (LD); "
    "Aggregated.activation_degree is the grouped lookup with the default sum (P10); format_infix's alphabet evaluated on the extracted registry (X1)"
    "; RL-sem - Rule.load / unload interpreted on the four loaded states (both parts are loaded with the engine handed in, whatever was loaded before); loading leaves the text as it was; X1-sem - format_infix interpreted on a corpus of operand spellings x operator symbols"
)
ASSUMPTIONS = ["decides structure and wiring of antecedent evaluation; the numeric value of a particular antecedent is not decided"]
FLOORS = {"T2-own": 1, "P11": 4, "PD": 4, "T1": 2, "W1": 1, "P9": 7, "P10": 2, "P3": 3, "P2": 14, "LD": 4, "X1": 2}


def run(check: Check) -> None:
    p = check.program
    table = {e.name: e for e in function_factory(p)}
    fac = p.cls("FunctionFactory")
    for f in ("_create_operators", "_precedence"):
        if fac.methods.get(f):
            check.analysed(fac.methods[f])
    a, o = table.get("and"), table.get("or")
    if a is None or o is None:
        check.violation("T1", "FunctionFactory/and-or", "`and` / `or` are not registered as operators", fac.file)
    else:
        check.require(a.precedence > o.precedence, "T1", "FunctionFactory/and>or",
                      f"`and` binds tighter than `or` (precedence {a.precedence} vs {o.precedence})", f"{fac.file}:{a.lineno}")
        ok = a.associativity < 0 and o.associativity < 0 and a.arity == 2 and o.arity == 2 and a.kind == o.kind == "Operator"
        check.require(ok, "T1", "FunctionFactory/and-or-left-binary", "`and` and `or` are left-associative binary operators"
                      if ok else f"and: assoc {a.associativity} arity {a.arity}; or: assoc {o.associativity} arity {o.arity}", f"{fac.file}:{o.lineno}")
    pushdown.infix_to_postfix(check)
    w1_operand_order(check)
    loaders.loader(check, "Antecedent.load")
    wiring.rule_load_semantics(check)  # "a loaded rule": Rule.load replaces what was loaded before by the reading of the current text
    # (H1 hedge storage - hedges appended in reading order - is an effect LD decides by interpretation; the shape rule was removed)
    from .antecedent_sem import antecedent_semantics

    antecedent_semantics(check, rule="P9")  # Antecedent.activation_degree interpreted on model expression trees with symbolic leaves
    wiring.p3_weight(check)
    wiring.p10_activation_degree_lookup(check)  # "for an output variable, the aggregated activation of that term"
    for cls in c08.ACTIVATIONS:  # "the connectives are computed with the rule block's conjunction and disjunction operators"
        # ... and "for an output variable, the aggregated activation of that term": the activations accumulated so far, for the methods that fire as they go
        activation_semantics(check, cls, ("conjunction", "disjunction") + (("accumulated",) if cls in ("General", "First", "Last", "Threshold") else ()))
    from .c13 import no_inplace_on_handed_values

    # "the activation degree of a loaded rule equals weight x antecedent value" - and stays so: nothing the degree is handed to (the trigger path) rewrites it
    no_inplace_on_handed_values(check, ["Rule.trigger"], rule="T2-own")
    # X1-sem decides the spacing by interpretation; X1 (the alternation handed to re.sub, read as a regular expression) adds the exact alphabet where
    # the pattern is built in a way it can read, and is the fallback where X1-sem is undecided
    decided = x1_format_infix_semantics(check)
    try:
        x1_format_infix(check)
    except AnalysisError as err:
        if not decided:
            raise
        check.notes.append(f"X1: the pattern is built in a way the alphabet rule cannot read ({err}); the spacing is decided by X1-sem")
    check.exhaustive_parts += ["pop rule over all orderings", "antecedent automaton x grammar automaton", "dispatch cases of activation_degree"]


def x7_operand_queue(check: Check) -> None:
    p = check.program
    fn = p.func("Function.infix_to_postfix")
    check.analysed(fn)
    r = Resolver(p, fn)
    cfg = r.cfg
    loops = [h for h in cfg.loop_heads() if h.kind == "for"]
    if not loops:
        raise AnalysisError("Function.infix_to_postfix: token loop not found")
    h = loops[0]
    it = [q for q, _ in h.pred if q.kind == "iter"][0]
    base, direction = iter_base(r.term(h.ast.iter, it))  # type: ignore[union-attr]
    token = ("elem", r.term(h.ast.iter, it))  # type: ignore[union-attr]
    # operand branch: queue.append(token)
    sites = [(n, c) for n, c in cfg.find_calls(".append") if c.args and r.term(c.args[0], n) == token and n in cfg.loop_body(h)]
    qnames = {c.func.value.id for n, c in sites if isinstance(c.func.value, ast.Name)}  # type: ignore[union-attr]
    rets = [n for n in cfg.stmt_nodes() if isinstance(n.ast, ast.Return) and n.ast.value is not None]
    joined = False
    for n in rets:
        t = r.term(n.ast.value, n)  # type: ignore[union-attr]
        for s in walk(t):
            if s[0] == "call" and s[1][0] == "attr" and s[1][2] == "join" and s[2]:
                arg = s[2][0]
                joined = arg[0] == "call" and arg[1][0] == "global" and arg[1][1].endswith("deque") or arg[0] in ("list", "call")
                if any(x[0] == "call" and x[1] == ("global", "reversed") for x in walk(arg)):
                    joined = False
    ok = direction == "forward" and len(qnames) >= 1
    check.require(ok, "X7", "Function.infix_to_postfix/operands-in-order",
                  "tokens are read left to right and operands are appended to the output queue as they are read", loc(fn, h))
    check.require(joined, "X7", "Function.infix_to_postfix/queue-order", "the postfix string is the queue in order", loc(fn, rets[0] if rets else h))


def w1_operand_order(check: Check) -> None:
    p = check.program
    fn = p.func("Antecedent.load")
    r = Resolver(p, fn)
    cfg = r.cfg
    stores = [(n, t.attr) for n in cfg.stmt_nodes() for t in cfg.stores_at(n) if isinstance(t, ast.Attribute) and t.attr in ("left", "right")
              and any(isinstance(c.func, ast.Attribute) and c.func.attr == "pop" for c in cfg.calls_in(n))]
    ctor = [(n, c) for n, c in cfg.all_calls() if r.term(c.func, n) == ("global", "fuzzylite.rule.Operator")]
    rights = [n for n, a in stores if a == "right"]
    lefts = [n for n, a in stores if a == "left"]
    ok = False
    why = "operand attachment not recognised"
    if rights and lefts:
        loops = [h for h in cfg.loop_heads() if lefts[0] in cfg.loop_body(h)]
        ok = bool(loops) and all(iter_precedes(cfg, loops[-1], rights, l) for l in lefts) and all(not iter_precedes(cfg, loops[-1], lefts, x) for x in rights)
        why = "the first operand popped is attached as `left`: `a and b` would be stored (and printed) as `b and a`"
    elif ctor:
        # Operator(token, right=stack.pop(), left=stack.pop()) style: evaluation order of the arguments
        for n, c in ctor:
            kw = {k.arg: k.value for k in c.keywords}
            args = list(c.args)
            order = [("right" if i == 1 else "left" if i == 2 else None, a) for i, a in enumerate(args)] + [(k, v) for k, v in kw.items()]
            pops = [(nm, v) for nm, v in order if any(isinstance(x, ast.Call) and isinstance(x.func, ast.Attribute) and x.func.attr == "pop" for x in ast.walk(v))]
            if [nm for nm, _ in pops] == ["right", "left"]:
                ok = True
    check.require(ok, "W1", "Antecedent.load/operand-order",
                  "the first operand popped becomes the right child, the second the left child" if ok else why,
                  loc(fn, (rights or lefts or [cfg.entry])[0]))


def h1_hedge_storage(check: Check) -> None:
    p = check.program
    for qual in ("Antecedent.load", "Consequent.load"):
        fn = p.func(qual)
        check.analysed(fn)
        r = Resolver(p, fn)
        cfg = r.cfg
        head = c16.token_loop(r)
        it = [q for q, _ in head.pred if q.kind == "iter"][0]
        _, direction = iter_base(r.term(head.ast.iter, it))  # type: ignore[union-attr]
        adds = [(n, c) for n, c in cfg.all_calls() if isinstance(c.func, ast.Attribute) and isinstance(c.func.value, ast.Attribute)
                and c.func.value.attr == "hedges"]
        ok = bool(adds) and all(c.func.attr == "append" for _, c in adds) and direction == "forward"
        check.require(ok, "H1", f"{qual}/hedge-storage", "hedges are stored in reading order" if ok else
                      f"hedges are stored with {[c.func.attr for _, c in adds]} while reading {direction}", loc(fn, adds[0][0] if adds else head))


def x1_format_infix(check: Check) -> None:
    """X1 [E]: `Function.format_infix` is interpreted abstractly (sa/absexec.py) with the operator names of the *extracted* registry as
    the registered operators: the alphabet around which spaces are inserted must be those names minus the words `and`/`or` plus
    `(`, `)`, `,`, and in the alternation a symbol must precede every proper prefix of itself (`**` before `*`)."""
    from ..absexec import AbsExec, FString, Internal, MObj, Opaque, Raised, Unknown, _Return

    p = check.program
    fn = p.func("Function.format_infix")
    check.analysed(fn)
    node = fn.analysis_node
    ops = sorted(e.name for e in function_factory(p) if e.kind == "Operator")
    seen: dict[str, Any] = {}

    import re as _re

    def sub(ex_, e, recv, args, kw):
        order = ["pattern", "repl", "string", "count", "flags"]
        a = dict(zip(order, args))
        a.update(kw)
        seen.setdefault("patterns", []).append(a.get("pattern"))
        return Opaque("text")

    def operators(ex_, e, recv, args, kw):
        return {name: Opaque("element") for name in ops}

    def escape(ex_, e, recv, args, kw):
        if not isinstance(args[0], str):
            raise Unknown("Function.format_infix: re.escape of something that is not a symbol")
        return _re.escape(args[0])

    hooks = {"method:sub": sub, "method:operators": operators, "method:escape": escape, "method:compile": lambda ex_, e, recv, args, kw: args[0]}
    ex = AbsExec(fn.qualname, hooks)
    ex.concrete_strings = True  # the pattern is built as the string it is
    params = [a.arg for a in node.args.args]
    rule_ns = MObj("class", {"AND": "and", "OR": "or", "IS": "is", "IF": "if", "THEN": "then", "WITH": "with"})
    ex.globals = {"re": Opaque("re"), "Rule": rule_ns}
    env: dict[str, Any] = {params[0]: Opaque("cls")}
    for nm in params[1:]:
        env[nm] = Opaque("formula")
    try:
        ex.block(list(node.body), env)
    except _Return:
        pass
    except (Raised, Internal) as err:
        raise AnalysisError(f"Function.format_infix: abstract interpretation ends in {err.cls}") from None
    except Unknown as u:
        raise AnalysisError(str(u)) from None

    def alternation(pat: Any) -> list[str] | None:
        """The symbols of a pattern `(a|b|c)` (or `a|b|c`), read from the parsed regular expression: every branch must be a literal."""
        if not isinstance(pat, str):
            return None
        try:
            import re._parser as _sre  # type: ignore[import-not-found]

            tree = _sre.parse(pat)
        except Exception:  # noqa: BLE001
            return None
        items = list(tree)
        if len(items) == 1 and str(items[0][0]) == "SUBPATTERN":
            items = list(items[0][1][3])
        if len(items) == 1 and str(items[0][0]) == "BRANCH":
            branches = [list(b) for b in items[0][1][1]]
        elif len(items) == 1 and str(items[0][0]) == "IN":
            branches = [[x] for x in items[0][1]]  # single characters folded into a class by the parser
        else:
            branches = [items]
        out: list[str] = []
        for b in branches:
            txt = ""
            for op_, arg_ in b:
                if str(op_) == "LITERAL":
                    txt += chr(arg_)
                elif str(op_) == "IN" and len(branches) > 1 and all(str(o2) == "LITERAL" for o2, _ in arg_):
                    return None
                else:
                    return None
            out.append(txt)
        return out

    alts = [a for a in (alternation(pt) for pt in seen.get("patterns", [])) if a is not None]
    if not alts:
        raise AnalysisError("Function.format_infix: the alternation of symbols handed to re.sub was not recognised")
    got = alts[0]
    want = (set(ops) - {"and", "or"}) | {"(", ")", ","}
    ok = set(got) == want and len(got) == len(set(got))
    check.require(ok, "X1", "Function.format_infix/alphabet",
                  "spaces are inserted around every registered operator except the words `and`/`or`, and around ( ) ," if ok else
                  f"spacing alphabet differs from the registered operators minus and/or plus ( ) ,: extra {sorted(set(got) - want)}, missing {sorted(want - set(got))}", loc(fn))
    shadowed = [(a, b) for i, a in enumerate(got) for b in got[i + 1:] if b != a and b.startswith(a)]
    check.require(not shadowed, "X1", "Function.format_infix/longest-first",
                  "multi-character operators are tried before their prefixes (`**` before `*`)" if not shadowed else
                  f"`{shadowed[0][0]}` is tried before `{shadowed[0][1]}`, of which it is a prefix: `{shadowed[0][1]}` is split into two tokens", loc(fn))


def x1_format_infix_semantics(check: Check, rule: str = "X1-sem") -> bool:
    """X1-sem [E on the corpus]: `Function.format_infix` interpreted (sa/objexec.py; regular expressions on concrete strings have their Python meaning)
    on every formula `a<op>b` for a registered operator symbol (or `(`, `)`, `,`) between two operands drawn from names and numbers of different
    spellings - among them names ending in `e` / `E` and numbers, which a tokeniser that knows about exponents may confuse: the result must be the
    three tokens `a`, `<op>`, `b` separated by single spaces; the words `and` / `or` stay what they are."""
    from ..absexec import Internal, MObj, Opaque, Raised, Unknown
    from ..objexec import ObjExec
    from .roundtrip_sem import E0

    p = check.program
    fn = p.func("Function.format_infix")
    check.analysed(fn)
    ops = sorted({e.name for e in function_factory(p) if e.kind == "Operator"})
    symbols = [o for o in ops if o not in ("and", "or")] + ["(", ")", ","]
    operands = ["x", "rate", "scaleE", "e", "v_1", "2", "10", "7e", "E1"]
    ex = ObjExec(p, "format_infix")
    registry = MObj("<function factory>", {})
    ex.hooks["method:operators"] = lambda ex_, e, recv, args, kw: {name: Opaque("element") for name in ops}
    ex.globals.update({"settings": MObj("<settings>", {"factory_manager": MObj("<manager>", {"function": registry})}), "re": Opaque("re")})
    bad = None
    n = 0
    try:
        for op in symbols:
            longer = [o for o in symbols if o != op and op in o]
            for a in operands:
                for b in operands:
                    text = f"{a}{op}{b}"
                    if any(o in text for o in longer):
                        continue  # the text spells a longer symbol (`*` next to `*`)
                    if op[0] == "." and a[-1].isdigit() or op[-1] == "." and b[0].isdigit():
                        continue  # `2.-3`: the dot may belong to the number
                    n += 1
                    try:
                        got = ex.invoke(fn, [ex_cls(p), text], {}, E0)
                    except (Raised, Internal) as err:
                        bad = bad or f"format_infix({text!r}) ends with {err.cls}"
                        continue
                    want = f"{a} {op} {b}"
                    if got != want:
                        bad = bad or (f"format_infix({text!r}) is {got!r}, specified {want!r}: the operator `{op}` between the operands `{a}` and `{b}` is not "
                                      "separated into a token of its own")
        for text in ("a and b", "a or b and c", "x   +  1"):
            n += 1
            got = ex.invoke(fn, [ex_cls(p), text], {}, E0)
            want = " ".join(text.replace("+", " + ").split())
            if got != want:
                bad = bad or f"format_infix({text!r}) is {got!r}, specified {want!r}"
    except Unknown as u:
        check.notes.append(f"{rule}: undecided (outside the interpreter's model): {u}")
        check.ok(rule, "Function.format_infix/undecided", f"the spacing of operators is outside the interpreter's model ({u}); decided by X1 only", loc(fn))
        return False
    check.require(bad is None, rule, "Function.format_infix/tokens", f"every operator symbol between two operands becomes a token of its own ({n} formulas)" if bad is None else bad,
                  loc(fn), {"formulas": n}, exhaustive=True, cases=n)
    return True


def ex_cls(p):  # type: ignore[no-untyped-def]
    from ..objexec import ClassV

    return ClassV(p.cls("Function").qualname)
