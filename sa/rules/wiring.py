"""Pipeline wiring rules shared by C01, C06, C07, C13 (rule ids P1..P10, L1, T2, H1)."""

from __future__ import annotations

import ast
import itertools

from ..guards import RoleEval, paths, simulate
from ..pm import AnalysisError, unparse
from ..report import Check
from ..sym import PathResolver, Resolver, Term, mentions, path_of, show, walk
from .common import body_entry, const_value, early_exits, is_path, iter_base, iter_precedes, loc, loops_over, method_calls_on, strip

SELF = ("param", "self")


def first_node(cfg):
    return [s for s, _ in cfg.entry.succ][0]


# --------------------------------------------------------------------------------------------- P1 / H1
def p1_process_phases(check: Check, rule: str = "P1") -> None:
    p = check.program
    fn = p.func("Engine.process")
    check.analysed(fn)
    r = Resolver(p, fn)
    cfg = r.cfg
    ov_loops = loops_over(r, lambda b: is_path(b, "self.output_variables"))
    rb_loops = loops_over(r, lambda b: is_path(b, "self.rule_blocks"))

    def elem_of(path):
        return lambda t: t[0] == "elem" and is_path(iter_base(t[1])[0], path)

    def loops_with(loops, pred_on_body):
        return [(h, d) for h, _, d in loops if pred_on_body(h)]

    def clears(h):
        body = cfg.loop_body(h)
        out = []
        for n, c in cfg.find_calls(".clear"):
            if n in body:
                recv = r.term(c.func.value, n)  # type: ignore[union-attr]
                if recv[0] == "attr" and recv[2] in ("fuzzy", "terms") and any(elem_of("self.output_variables")(s) for s in walk(recv)):
                    out.append(n)
        return out

    def calls(h, path, method):
        body = cfg.loop_body(h)
        return [n for n, c, t in method_calls_on(r, elem_of(path), method, body)]

    clear_loops = [(h, d, clears(h)) for h, _, d in ov_loops if clears(h)]
    act_loops = [(h, d, calls(h, "self.rule_blocks", "activate")) for h, _, d in rb_loops if calls(h, "self.rule_blocks", "activate")]
    defz_loops = [(h, d, calls(h, "self.output_variables", "defuzzify")) for h, _, d in ov_loops if calls(h, "self.output_variables", "defuzzify")]

    # clear phase
    ok = False
    if clear_loops:
        h, d, sites = clear_loops[0]
        unguarded = all(not [g for g in cfg.must_guards(n) if g[2] in cfg.loop_body(h)] for n in sites)
        top = not cfg.must_guards(h) and not cfg.enclosing_loops(h)
        ok = unguarded and top and not early_exits(cfg, h)
    check.require(ok, rule, "Engine.process/clear-all",
                  "the fuzzy output of every output variable is cleared unconditionally"
                  if ok else "no unconditional loop clears the fuzzy output of every output variable", loc(fn, clear_loops[0][0] if clear_loops else fn.node))
    # activation phase
    ok = False
    why = "no loop activates the rule blocks"
    if act_loops:
        h, d, sites = act_loops[0]

        def classify(t: Term, e):
            if t[0] == "attr" and t[2] == "enabled" and elem_of("self.rule_blocks")(t[1]):
                return "enabled"
            return None

        ev = RoleEval(r, classify)
        body = cfg.loop_body(h)
        outside = {n for n in cfg.nodes if n not in body}
        res = {}
        for en in (True, False):
            may, must = simulate(cfg, body_entry(h), ev, {"enabled": en}, set(sites), outside)
            res[en] = (bool(may), bool(must))
        exact = res[True] == (True, True) and res[False] == (False, False)
        forward = d == "forward"
        top = not cfg.must_guards(h) and not cfg.enclosing_loops(h)
        after_clear = bool(clear_loops) and cfg.dominates(clear_loops[0][0], h) and h not in cfg.loop_body(clear_loops[0][0])
        ok = exact and forward and top and after_clear and not early_exits(cfg, h)
        why = (f"activation loop: block activated iff enabled={exact} (enabled->{res[True]}, disabled->{res[False]}), "
               f"in list order={forward}, unconditional loop={top}, after the clearing loop={after_clear}")
    check.require(ok, rule, "Engine.process/activate-enabled-blocks",
                  "after all fuzzy outputs are cleared, every rule block is activated in order iff it is enabled" if ok else why,
                  loc(fn, act_loops[0][0] if act_loops else fn.node), exhaustive=True, cases=2)
    # defuzzification phase
    ok = False
    if defz_loops and act_loops:
        h, d, sites = defz_loops[0]
        unguarded = all(not [g for g in cfg.must_guards(n) if g[2] in cfg.loop_body(h)] for n in sites)
        top = not cfg.must_guards(h) and not cfg.enclosing_loops(h)
        after = cfg.dominates(act_loops[0][0], h) and h not in cfg.loop_body(act_loops[0][0])
        ok = unguarded and top and after and not early_exits(cfg, h)
    check.require(ok, rule, "Engine.process/defuzzify-all",
                  "after the activation loop, every output variable is defuzzified" if ok else
                  "defuzzification of all output variables does not follow the activation loop", loc(fn, defz_loops[0][0] if defz_loops else fn.node))


# --------------------------------------------------------------------------------------------- P3
def _is_weight_product(t: Term, ant_call: Term):
    """True / False when the normal form of t is / is not weight x antecedent (per branch, under the branch's assumption on the weight);
    None when t is outside the polynomial model."""
    from fractions import Fraction

    from ..algebra import Rat

    W, A = Rat.sym("w"), Rat.sym("a")

    def nf(x: Term, wv: Rat):
        x = strip(x)
        if x == ant_call:
            return A
        if path_of(x) == "self.weight":
            return wv
        if x[0] == "const" and isinstance(x[1], (int, float)) and not isinstance(x[1], bool):
            return Rat.const(Fraction(x[1]))
        if x[0] == "binop" and x[1] in ("+", "-", "*", "/"):
            a, b = nf(x[2], wv), nf(x[3], wv)
            if a is None or b is None:
                return None
            return a + b if x[1] == "+" else (a - b if x[1] == "-" else (a * b if x[1] == "*" else a / b))
        if x[0] == "call" and x[1][0] == "global" and x[1][1] in ("numpy.multiply", "numpy.prod") and len(x[2]) == 2:
            a, b = nf(x[2][0], wv), nf(x[2][1], wv)
            return None if a is None or b is None else a * b
        return None

    def judge(x: Term, wv: Rat):
        x = strip(x)
        if x[0] == "ifexp":
            c = x[1]
            wc = None
            if c[0] == "cmp" and c[1] in (("==",), ("!=",)) and any(path_of(strip(q)) == "self.weight" for q in c[2]):
                k = [const_value(q) for q in c[2] if path_of(strip(q)) != "self.weight"]
                if k and isinstance(k[0], (int, float)):
                    wc = Rat.const(Fraction(k[0]))
            eq_branch, ne_branch = (x[2], x[3]) if c[0] == "cmp" and c[1] == ("==",) else (x[3], x[2])
            if wc is not None:
                r1, r2 = judge(eq_branch, wc), judge(ne_branch, wv)
            else:
                r1, r2 = judge(x[2], wv), judge(x[3], wv)
            if r1 is False or r2 is False:
                return False
            return None if r1 is None or r2 is None else True
        got = nf(x, wv)
        if got is None:
            return None
        return got.equals(wv * A)

    return judge(t, W)


def p3_weight(check: Check, rule: str = "P3") -> None:
    p = check.program
    fn = p.func("Rule.activate_with")
    check.analysed(fn)
    r = Resolver(p, fn)
    cfg = r.cfg
    params = [x.name for x in fn.params]
    stores = [(n, t) for n in cfg.stmt_nodes() for t in cfg.stores_at(n) if isinstance(t, ast.Attribute) and
              t.attr == "activation_degree" and r.term(t.value, n) == SELF]
    if not stores:
        check.violation(rule, "Rule.activate_with/store", "activation_degree is never stored", loc(fn))
        return
    n, _ = stores[-1]
    t = r.term(n.ast.value, n)  # type: ignore[union-attr]
    ant_calls = [c for c in walk(t) if c[0] == "call" and c[1] == ("attr", ("attr", SELF, "antecedent"), "activation_degree")]
    uses_weight = any(path_of(s) == "self.weight" for s in walk(t))
    product = t[0] == "binop" and t[1] == "*" and {path_of(strip(t[2])) == "self.weight", path_of(strip(t[3])) == "self.weight"} == {True, False}
    is_prod = bool(ant_calls) and _is_weight_product(t, ant_calls[0])
    check.require(uses_weight and bool(ant_calls) and is_prod is not False, rule, "Rule.activate_with/weight",
                  "activation_degree = weight x antecedent activation" + ("" if is_prod else " (dependence only: the expression is outside the normal-form model)")
                  if uses_weight and ant_calls and is_prod is not False else
                  f"stored degree is {show(t)}: " + ("the rule weight is not a factor" if not uses_weight else
                                                     "the antecedent is not evaluated" if not ant_calls else "this is not the product weight x antecedent"),
                  loc(fn, n), {"expr": show(t), "is_product": is_prod})
    if ant_calls:
        args = ant_calls[0][2]
        ok = len(args) >= 2 and args[0] == ("param", params[1]) and args[1] == ("param", params[2])
        check.require(ok, rule, "Rule.activate_with/operators",
                      "conjunction and disjunction are passed to the antecedent in this order" if ok else
                      f"antecedent receives {[show(a) for a in args]}", loc(fn, n))
    rets = [(m, r.term(m.ast.value, m)) for m in cfg.stmt_nodes() if isinstance(m.ast, ast.Return) and m.ast.value is not None]
    ok = bool(rets) and all(rt == ("attr", SELF, "activation_degree") or rt == t for _, rt in rets) and all(cfg.must_precede([n], m) for m, _ in rets)
    check.require(ok, rule, "Rule.activate_with/return", "the stored degree is what is returned", loc(fn, rets[0][0] if rets else n))


# --------------------------------------------------------------------------------------------- P4
def p4_trigger(check: Check, rule: str = "P4") -> None:
    p = check.program
    fn = p.func("Rule.trigger")
    check.analysed(fn)
    r = Resolver(p, fn)
    cfg = r.cfg
    mods = [(n, c, r.term(c, n)) for n, c in cfg.find_calls(".modify") if path_of(r.term(c.func.value, n)) == "self.consequent"]  # type: ignore[union-attr]
    if not mods:
        check.violation(rule, "Rule.trigger/modify", "trigger never modifies the consequent", loc(fn))
        return

    def classify(t: Term, e):
        if path_of(t) == "self.enabled":
            return "enabled"
        if t[0] == "call" and t[1] == ("attr", SELF, "is_loaded"):
            return "loaded"
        return None

    ev = RoleEval(r, classify)
    res = {}
    for en in (True, False):
        may, must = simulate(cfg, first_node(cfg), ev, {"enabled": en, "loaded": True}, {m[0] for m in mods}, set())
        res[en] = (bool(may), bool(must))
    ok = res[True] == (True, True) and res[False] == (False, False)
    check.require(ok, rule, "Rule.trigger/enabled", "a loaded rule modifies its consequent iff it is enabled" if ok else
                  f"consequent modified: enabled->{res[True]}, disabled->{res[False]}", loc(fn, mods[0][0]), exhaustive=True, cases=2)
    n, c, t = mods[0]
    args = t[2]
    impl = fn.params[1].name
    ok = len(args) == 2 and path_of(args[0]) == "self.activation_degree" and args[1] == ("param", impl)
    check.require(ok, rule, "Rule.trigger/arguments", "modify receives (self.activation_degree, implication)" if ok else
                  f"modify receives {[show(a) for a in args]}", loc(fn, n))
    once = len(mods) == 1 and not cfg.enclosing_loops(n)
    check.require(once, rule, "Rule.trigger/once", "the consequent is modified once per trigger", loc(fn, n))


def p4_who_modifies(check: Check, rule: str = "P4") -> None:
    """Who-may-call: a consequent is modified only by Rule.trigger, where the rule's `enabled` flag is honoured; any other caller
    of `<rule>.consequent.modify(...)` must itself be guarded by that rule's `enabled`."""
    from .common import holds_at

    p = check.program
    sites = 0
    for f in p.functions.values():
        if "/examples/" in f.file or not any(isinstance(x, ast.Attribute) and x.attr == "modify" for x in ast.walk(f.analysis_node)):
            continue
        r = Resolver(p, f)
        for n, c in r.cfg.find_calls(".modify"):
            recv = r.term(c.func.value, n)  # type: ignore[union-attr]
            if not (recv[0] == "attr" and recv[2] == "consequent"):
                continue
            sites += 1
            if f.qualname == "Rule.trigger":
                continue
            check.analysed(f)
            guarded = holds_at(r, n, ("attr", recv[1], "enabled"))
            check.require(guarded, rule, f"{f.qualname}/modifies-consequent",
                          "the consequent is modified under the rule's own `enabled` flag" if guarded else
                          f"`{unparse(c)[:60]}` modifies a rule's consequent without going through Rule.trigger and without testing the rule's "
                          "`enabled` flag: a disabled rule contributes to the fuzzy outputs", loc(f, n))
    check.ok(rule, "package/who-modifies-consequents", f"{sites} call site(s) of <rule>.consequent.modify in the package; only Rule.trigger (or a caller "
             "guarded by the rule's enabled flag) may modify a consequent")


# --------------------------------------------------------------------------------------------- P5 / L1 / H1(modify)


def _atoms(t: Term) -> list[Term]:
    """The atomic conditions of a guard (through not / and / or)."""
    if t[0] == "unop" and t[1] == "not":
        return _atoms(t[2])
    if t[0] == "bool":
        return [a for x in t[2] for a in _atoms(x)]
    return [t]






# --------------------------------------------------------------------------------------------- T2
def t2_nonfinite(check: Check, rule: str = "T2") -> None:
    p = check.program
    act = p.cls("Activated")
    setter = act.lookup_setter("degree")
    if setter is None:
        raise AnalysisError("anchor vanished: Activated.degree setter")
    check.analysed(setter)
    r = Resolver(p, setter)
    cfg = r.cfg
    param = setter.params[1].name
    stores = [(n, r.term(n.ast.value, n)) for n in cfg.stmt_nodes() for t in cfg.stores_at(n)  # type: ignore[union-attr]
              if isinstance(t, ast.Attribute) and t.attr == "_degree"]
    if len(stores) != 1:
        raise AnalysisError("Activated.degree setter: expected one store to _degree")
    n, t = stores[0]
    is_n2n = t[0] == "call" and t[1] == ("global", "numpy.nan_to_num") and t[2] and strip(t[2][0]) == ("param", param)
    kw = dict(t[3]) if is_n2n else {}
    got = {k: const_value(kw[k]) if k in kw else None for k in ("nan", "neginf", "posinf")}
    if is_n2n and "nan" not in kw:
        got["nan"] = 0.0  # numpy default
    want = {"nan": 0.0, "neginf": 0.0, "posinf": 1.0}
    for k in ("nan", "neginf", "posinf"):
        check.require(is_n2n and got[k] == want[k], rule, f"Activated.degree/{k}",
                      f"{k} is stored as {want[k]}" if is_n2n and got[k] == want[k] else
                      f"{k} is stored as {got[k]} (numpy default when None), expected {want[k]}: {show(t)}", loc(setter, n))
    init = p.func("Activated.__init__")
    check.analysed(init)
    attrs = [t.attr for m in cfg_nodes(init) for t in m[1]]
    via_prop = "degree" in attrs and "_degree" not in attrs
    check.require(via_prop, rule, "Activated.__init__/through-setter",
                  "the constructor assigns the degree through the sanitising property" if via_prop else
                  "the constructor stores _degree directly, bypassing the non-finite replacement", loc(init))


def cfg_nodes(fn):
    from ..cfg import cfg_of

    cfg = cfg_of(fn)
    return [(n, [t for t in cfg.stores_at(n) if isinstance(t, ast.Attribute)]) for n in cfg.stmt_nodes()]


# --------------------------------------------------------------------------------------------- P6 / P7 / P8 / P10
def p6_activated_membership(check: Check, rule: str = "P6") -> None:
    p = check.program
    fn = p.func("Activated.membership")
    check.analysed(fn)
    r = Resolver(p, fn)
    x = fn.params[1].name
    rets = [(n, r.term(n.ast.value, n)) for n in r.cfg.stmt_nodes() if isinstance(n.ast, ast.Return) and n.ast.value is not None]
    if not rets:
        raise AnalysisError("Activated.membership has no return value")
    n, t = rets[-1]
    comp = [c for c in walk(t) if c[0] == "call" and c[1] == ("attr", ("attr", SELF, "implication"), "compute")]
    ok_call = len(comp) == 1 and len(comp[0][2]) == 2
    check.require(ok_call, rule, "Activated.membership/implication",
                  "the result is self.implication.compute(...)" if ok_call else f"result is {show(t)}", loc(fn, n))
    if ok_call:
        a, b = comp[0][2]
        deg = [z for z in (a, b) if any(path_of(s) in ("self.degree", "self._degree") for s in walk(z))]
        mem = [z for z in (a, b) if strip(z) == ("call", ("attr", ("attr", SELF, "term"), "membership"), (("param", x),), ())]
        ok = len(deg) == 1 and len(mem) == 1 and deg[0] is not mem[0]
        check.require(ok, rule, "Activated.membership/operands",
                      "implication is applied to (degree, term.membership(x))" if ok else
                      f"implication is applied to ({show(a)}, {show(b)})", loc(fn, n))


def p7_aggregated_membership(check: Check, rule: str = "P7") -> None:
    """By interpretation (AG-sem, sa/rules/aggregated_sem.py); the shape rule below is the fallback."""
    from .aggregated_sem import aggregated_semantics

    if rule == "P7" and "P7" in aggregated_semantics(check, ("P7",)):
        return
    p = check.program
    fn = p.func("Aggregated.membership")
    check.analysed(fn)
    r = Resolver(p, fn)
    cfg = r.cfg
    x = fn.params[1].name
    rets = [(n, r.term(n.ast.value, n)) for n in cfg.stmt_nodes() if isinstance(n.ast, ast.Return) and n.ast.value is not None]
    if not rets:
        raise AnalysisError("Aggregated.membership has no return value")
    n, t = rets[-1]
    alts = list(t[1]) if t[0] == "phi" else [t]
    seeds = [a for a in alts if const_value(a) is not None]
    folds = [a for a in alts if a[0] == "call" and a[1] == ("attr", ("attr", SELF, "aggregation"), "compute")]
    seed_ok = len(seeds) == 1 and const_value(seeds[0]) == 0
    check.require(seed_ok, rule, "Aggregated.membership/seed",
                  "the fold over activated terms starts at 0 (the S-norm identity)" if seed_ok else
                  f"fold seed is {[show(s) for s in seeds]}", loc(fn, n))
    fold_ok = False
    why = f"result is {show(t)}"
    if len(folds) == 1 and len(alts) == 2 and len(folds[0][2]) == 2:
        a, b = folds[0][2]
        elem_mem = lambda z: z[0] == "call" and z[1][0] == "attr" and z[1][2] == "membership" and z[1][1][0] == "elem" and \
            is_path(iter_base(z[1][1][1])[0], "self.terms") and z[2] == (("param", x),)  # noqa: E731
        acc = lambda z: z[0] == "phi" and any(q[0] == "carried" for q in z[1]) and any(const_value(q) == 0 for q in z[1])  # noqa: E731
        fold_ok = (acc(a) and elem_mem(b)) or (acc(b) and elem_mem(a))
    check.require(fold_ok, rule, "Aggregated.membership/fold",
                  "every activated term's membership is folded into the accumulator with self.aggregation.compute"
                  if fold_ok else why, loc(fn, n))
    loops = loops_over(r, lambda b: is_path(b, "self.terms"))
    ok = bool(loops) and loops[0][2] == "forward" and not early_exits(cfg, loops[0][0])
    check.require(ok, rule, "Aggregated.membership/all-terms", "the fold ranges over all of self.terms", loc(fn, loops[0][0] if loops else n))


def p8_defuzzify_args(check: Check, rule: str = "P8") -> None:
    p = check.program
    fn = p.func("OutputVariable.defuzzify")
    check.analysed(fn)
    r = Resolver(p, fn)
    calls = [(n, r.term(c, n)) for n, c in r.cfg.find_calls(".defuzzify") if path_of(r.term(c.func.value, n)) == "self.defuzzifier"]  # type: ignore[union-attr]
    if not calls:
        check.violation(rule, "OutputVariable.defuzzify/call", "the defuzzifier is never called", loc(fn))
        return
    n, t = calls[0]
    args = [path_of(a) for a in t[2]]
    want = ["self.fuzzy", "self.minimum", "self.maximum"]
    for i, w in enumerate(want):
        ok = len(args) > i and args[i] == w
        check.require(ok, rule, f"OutputVariable.defuzzify/arg{i}", f"argument {i} of the defuzzifier is {w}"
                      + ("" if ok else f" (found {args[i] if len(args) > i else None})"), loc(fn, n))


def p10_activation_degree_lookup(check: Check, rule: str = "P10") -> None:
    """By interpretation (AG-sem, sa/rules/aggregated_sem.py); the shape rule below is the fallback."""
    from .aggregated_sem import aggregated_semantics

    if rule == "P10" and "P10" in aggregated_semantics(check, ("P10",)):
        return
    p = check.program
    fn = p.func("Aggregated.activation_degree")
    check.analysed(fn)
    r = Resolver(p, fn)
    tparam = fn.params[1].name
    rets = [(n, r.term(n.ast.value, n)) for n in r.cfg.stmt_nodes() if isinstance(n.ast, ast.Return) and n.ast.value is not None]
    if not rets:
        raise AnalysisError("Aggregated.activation_degree has no return")
    ok = False
    for n, t in rets:
        for s in walk(t):
            if s[0] == "call" and s[1][0] == "attr" and s[1][2] in ("get", "__getitem__") and \
                    s[1][1] == ("call", ("attr", SELF, "grouped_terms"), (), ()) and s[2] and s[2][0] == ("attr", ("param", tparam), "name"):
                ok = True
            if s[0] == "sub" and s[1] == ("call", ("attr", SELF, "grouped_terms"), (), ()) and s[2] == ("attr", ("param", tparam), "name"):
                ok = True
    check.require(ok, rule, "Aggregated.activation_degree/lookup",
                  "an output variable in an antecedent reads the grouped activation of the term of that name" if ok else
                  f"lookup is {[show(t) for _, t in rets]}", loc(fn))
    # absent term -> 0
    zero = any(any(const_value(a) == 0 for a in walk(t) if a[0] in ("const", "call")) for _, t in rets)
    check.require(zero, rule, "Aggregated.activation_degree/absent", "a term without activations yields 0", loc(fn))


# --------------------------------------------------------------------------------------------- P9 antecedent dispatch
def p9_antecedent(check: Check, rule: str = "P9") -> None:
    p = check.program
    fn = p.func("Antecedent.activation_degree")
    check.analysed(fn)
    r = Resolver(p, fn)
    cfg = r.cfg
    params = [x.name for x in fn.params]
    conj, disj, node = params[1], params[2], params[3]
    NODE = ("param", node)

    def classify(t: Term, e):
        if t == NODE:
            return "node"
        if t[0] == "call" and t[1] == ("global", "isinstance") and len(t[2]) == 2:
            a, c = t[2]
            cname = c[1].split(".")[-1] if c[0] == "global" else None
            if a == NODE and cname in ("Proposition", "Operator"):
                return f"is_{cname}"
            if a == ("attr", NODE, "variable") and cname in ("InputVariable", "OutputVariable"):
                return f"var_{cname}"
            if cname == "Any" and a[0] == "sub" and a[1] == ("attr", NODE, "hedges"):
                return "last_is_any"
        pth = path_of(t)
        m = {f"{node}.variable.enabled": "enabled", f"{node}.variable": "has_variable", f"{node}.hedges": "has_hedges",
             f"{node}.term": "has_term", f"{node}.left": "has_left", f"{node}.right": "has_right", conj: "has_conj", disj: "has_disj"}
        if pth in m:
            return m[pth]
        if t[0] == "cmp" and len(t[1]) == 1 and t[1][0] == "==":
            ops = set(t[2])
            if ("attr", NODE, "name") in ops:
                other = (ops - {("attr", NODE, "name")})
                if other == {("global", "fuzzylite.rule.Rule.AND")}:
                    return "is_and"
                if other == {("global", "fuzzylite.rule.Rule.OR")}:
                    return "is_or"
        return None

    base = {"node": True, "is_Proposition": False, "is_Operator": False, "var_InputVariable": False, "var_OutputVariable": False,
            "last_is_any": False, "enabled": True, "has_variable": True, "has_hedges": False, "has_term": True,
            "has_left": True, "has_right": True, "has_conj": True, "has_disj": True, "is_and": False, "is_or": False}

    pnames = params[1:]

    def norm(t):
        """Bind the arguments of recursive self.activation_degree(...) calls to positions (keywords -> positional)."""
        if isinstance(t, tuple) and t and isinstance(t[0], str):
            t = tuple(norm(x) for x in t)
            if t[0] == "call" and t[1] == ("attr", SELF, "activation_degree") and t[3]:
                bound = dict(zip(pnames, t[2]))
                for k, v in t[3]:
                    bound[k] = v
                if all(n_ in bound for n_ in pnames[:len(bound)]):
                    return ("call", t[1], tuple(bound[n_] for n_ in pnames if n_ in bound), ())
            return t
        if isinstance(t, tuple):
            return tuple(norm(x) for x in t)
        if isinstance(t, frozenset):
            return frozenset(norm(x) for x in t)
        return t

    def run_case(name: str, over: dict, expect) -> None:
        ev = RoleEval(r, classify)
        env = dict(base)
        env.update(over)
        results = []
        for pa in paths(cfg, first_node(cfg), ev, env, set()):
            end = pa[-2] if len(pa) >= 2 else pa[-1]
            pr = PathResolver(p, fn, pa)
            if pa[-1].kind == "raise_exit":
                results.append(("raise", None, end))
            elif isinstance(end.ast, ast.Return) and end.ast.value is not None:
                results.append(("return", norm(pr.at(end.ast.value, len(pa) - 2)), end))
            else:
                results.append(("other", None, end))
        ok, why = expect(results)
        unknown = sorted(set(ev.unknown_atoms))
        check.require(ok, rule, f"Antecedent.activation_degree/{name}", why + (f" [unclassified conditions: {unknown[:3]}]" if unknown and not ok else ""),
                      loc(fn, results[0][2] if results else fn.node),
                      {"results": [(k, show(t) if t else None) for k, t, _ in results]}, exhaustive=True, cases=len(results))

    def rec(child: str) -> Term:
        return ("call", ("attr", SELF, "activation_degree"), (("param", conj), ("param", disj), ("attr", NODE, child)), ())

    def hedged(inner_ok):
        """result is h(...h(inner)) with hedges iterated reversed; returns checker over list of results."""
        def chk(results):
            rets = [t for k, t, _ in results if k == "return"]
            if len(rets) != len(results) or not rets:
                return False, f"not every path returns: {[(k, show(t) if t else None) for k, t, _ in results]}"
            for t in rets:
                cur = t
                depth = 0
                while cur[0] == "call" and cur[1][0] == "attr" and cur[1][2] == "hedge" and cur[1][1][0] == "elem":
                    base_, direction = iter_base(cur[1][1][1])
                    if base_ != ("attr", NODE, "hedges") or direction != "reverse":
                        return False, f"hedges are applied over {show(cur[1][1][1])} (expected reversed(node.hedges))"
                    cur = cur[2][0]
                    depth += 1
                if not inner_ok(cur):
                    return False, f"innermost value is {show(cur)}"
            if not any(t[0] == "call" and t[1][0] == "attr" and t[1][2] == "hedge" for t in rets):
                return False, "hedges are never applied"
            return True, "ok"
        return chk

    run_case("disabled-variable", {"is_Proposition": True, "enabled": False, "has_hedges": True, "last_is_any": True, "var_InputVariable": True},
             lambda res: (all(k == "return" and const_value(t) == 0 for k, t, _ in res) and bool(res),
                          "a proposition on a disabled variable yields 0 before anything else" if all(k == "return" and const_value(t) == 0 for k, t, _ in res)
                          else f"disabled variable yields {[(k, show(t) if t else None) for k, t, _ in res]}"))
    run_case("input-variable", {"is_Proposition": True, "var_InputVariable": True, "has_hedges": True},
             lambda res: (lambda ok_why: (ok_why[0], "input proposition = hedges(term.membership(variable.value)), nearest hedge first" if ok_why[0] else ok_why[1]))(
                 hedged(lambda c: c == ("call", ("attr", ("attr", NODE, "term"), "membership"), (("attr", ("attr", NODE, "variable"), "value"),), ()))(res)))
    run_case("output-variable", {"is_Proposition": True, "var_OutputVariable": True, "has_hedges": True},
             lambda res: (lambda ok_why: (ok_why[0], "output proposition = hedges(variable.fuzzy.activation_degree(term))" if ok_why[0] else ok_why[1]))(
                 hedged(lambda c: c == ("call", ("attr", ("attr", ("attr", NODE, "variable"), "fuzzy"), "activation_degree"), (("attr", NODE, "term"),), ()))(res)))
    run_case("any", {"is_Proposition": True, "var_InputVariable": True, "has_hedges": True, "last_is_any": True, "has_term": False},
             lambda res: (lambda ok_why: (ok_why[0], "`any` skips the term: hedges are applied (reversed) to a placeholder and Any.hedge yields 1" if ok_why[0] else ok_why[1]))(
                 hedged(lambda c: not any(s == ("attr", NODE, "term") for s in walk(c)))(res)))
    for kw, role, operator in (("and", "is_and", conj), ("or", "is_or", disj)):
        want = ("call", ("attr", ("param", operator), "compute"), (rec("left"), rec("right")), ())
        run_case(f"operator-{kw}", {"is_Operator": True, role: True},
                 lambda res, want=want, kw=kw, operator=operator: (
                     bool(res) and all(k == "return" and t == want for k, t, _ in res),
                     f"`{kw}` = {operator}.compute(left, right) evaluated recursively" if bool(res) and all(k == "return" and t == want for k, t, _ in res)
                     else f"`{kw}` evaluates to {[(k, show(t) if t else None) for k, t, _ in res]}, expected {show(want)}"))
    # entry: no node -> recurse on self.expression with the same operators
    want0 = ("call", ("attr", SELF, "activation_degree"), (("param", conj), ("param", disj), ("attr", SELF, "expression")), ())
    run_case("root", {"node": False},
             lambda res: (any(k == "return" and t == want0 for k, t, _ in res) and all(k in ("return", "raise") for k, _, _ in res),
                          "without a node the whole expression is evaluated with the same operators"
                          if any(k == "return" and t == want0 for k, t, _ in res) else f"root call is {[(k, show(t) if t else None) for k, t, _ in res]}"))


# --------------------------------------------------------------------------------------------------------------- RL-sem
def rule_load_semantics(check: Check, rule: str = "RL-sem") -> None:
    """RL-sem [E]: `Rule.load(engine)` interpreted (sa/absexec.py) on model rules whose antecedent and consequent are each loaded or not (and
    whose text may have been changed since): it deactivates the rule and loads *both* parts with the engine handed in, whatever was loaded
    before - a part that is "already loaded" holds the tree of an earlier text. `Rule.unload()` deactivates and unloads both parts."""
    from ..absexec import AbsExec, Internal, MObj, Raised, Unknown, _Return

    p = check.program
    for meth in ("load", "unload"):
        fn = p.func(f"Rule.{meth}")
        check.analysed(fn)
        node = fn.node
        params = [a.arg for a in node.args.args]
        bad = None
        cases = 0
        try:
            for a_loaded in (False, True):
                for c_loaded in (False, True):
                    cases += 1
                    log: list[tuple] = []
                    engine = MObj("Engine", {"__bool__": True})

                    def part(name: str, loaded: bool) -> MObj:
                        return MObj(name, {"loaded": loaded, "__bool__": True, "text": "text"})

                    ant, con = part("Antecedent", a_loaded), part("Consequent", c_loaded)

                    def load(ex_, e, recv, args, kw):
                        log.append(("load", recv.cls, (args[0] if args else kw.get("engine")) is engine))
                        recv.fields["loaded"] = True

                    def unload(ex_, e, recv, args, kw):
                        log.append(("unload", recv.cls))
                        recv.fields["loaded"] = False

                    hooks = {"method:load": load, "method:unload": unload, "method:is_loaded": lambda ex_, e, recv, args, kw: recv.fields["loaded"],
                             "method:deactivate": lambda ex_, e, recv, args, kw: log.append(("deactivate",))}
                    me = MObj("Rule", {"antecedent": ant, "consequent": con, "enabled": True, "weight": 1.0, "activation_degree": 0.5, "triggered": True})
                    ex = AbsExec(fn.qualname, hooks, helpers={k: v for k, v in fn.cls.methods.items() if k not in ("load", "unload", "deactivate", "is_loaded")})
                    env = {params[0]: me}
                    if meth == "load":
                        env[params[1]] = engine
                    try:
                        ex.block(list(node.body), env)
                    except _Return:
                        pass
                    except (Raised, Internal) as err:
                        bad = bad or f"antecedent {'loaded' if a_loaded else 'not loaded'}, consequent {'loaded' if c_loaded else 'not loaded'}: Rule.{meth} ends with {err.cls}"
                        continue
                    what = f"antecedent {'already loaded' if a_loaded else 'not loaded'}, consequent {'already loaded' if c_loaded else 'not loaded'}"
                    if meth == "load":
                        want = [("load", "Antecedent", True), ("load", "Consequent", True)]
                        got = [ev for ev in log if ev[0] == "load"]
                        if sorted(got) != sorted(want):
                            bad = bad or (f"{what}: Rule.load loads {[g[1] for g in got] or 'nothing'}" + ("" if all(g[2] for g in got) else " (not with the engine handed in)")
                                          + ", specified: the antecedent and the consequent, from their current texts, with the engine handed in - a part left as it was "
                                          "keeps the tree of an earlier text")
                    else:
                        if not (ant.fields["loaded"] is False and con.fields["loaded"] is False):
                            bad = bad or f"{what}: after Rule.unload a part of the rule is still loaded"
                    if log[:1] != [("deactivate",)]:
                        bad = bad or (f"{what}: Rule.{meth} does not start by deactivating the rule (its degree and triggered flag belong to the tree that is replaced)"
                                      if ("deactivate",) in log else f"{what}: Rule.{meth} does not deactivate the rule (its degree and triggered flag belong to the tree that is replaced)")
        except Unknown as u:
            raise AnalysisError(str(u)) from None
        check.require(bad is None, rule, f"Rule.{meth}/both-parts", (f"Rule.{meth} deactivates the rule and {'loads' if meth == 'load' else 'unloads'} antecedent and consequent "
                                                                     f"whatever was loaded before ({cases} states)") if bad is None else bad, loc(fn), {"cases": cases},
                      exhaustive=True, cases=cases)


# --------------------------------------------------------------------------------------------------------------- CF-sem
def engine_configure_semantics(check: Check, rule: str = "CF-sem", kinds: tuple[str, ...] = ("conjunction", "disjunction", "implication", "activation", "aggregation", "defuzzifier")) -> None:
    """CF-sem [E on the model engines]: `Engine.configure(...)` interpreted (sa/objexec.py) on an engine with two rule blocks and two output variables,
    with components given as objects that carry parameters (a weighted defuzzifier of a fixed kind, an integral one with a resolution, an activation
    method with a count and a threshold) and as class names: afterwards every rule block / output variable holds a component of the class given
    *with the parameters given* (the same object or an equal one), and `None` where none was given."""
    from ..absexec import Internal, MObj, Raised, Unknown
    from .roundtrip_sem import E0, Counter, differences, new_exec

    p = check.program
    fn = p.func("Engine.configure")
    check.analysed(fn)
    bad: dict[str, str] = {}
    cases = 0
    try:
        for variant in range(3):
            cases += 1
            ex = new_exec(p)
            cnt = Counter()

            def C(cname, *a, **k):
                return ex.instantiate(p.cls(cname), list(a), k, E0)

            wtype = ex.members(p.cls("WeightedDefuzzifier.Type"))[1 + variant % 2]
            given = {
                "conjunction": [C("AlgebraicProduct"), "Minimum", None][variant],
                "disjunction": [C("AlgebraicSum"), "Maximum", None][variant],
                "implication": [C("Minimum"), "AlgebraicProduct", None][variant],
                "activation": [C("First", rules=2, threshold=cnt.sym("t")), "General", C("Highest", rules=3)][variant],
                "aggregation": [C("Maximum"), "UnboundedSum", None][variant],
                "defuzzifier": [C("WeightedAverage", type=wtype), "Centroid", C("Centroid", resolution=7)][variant],
            }
            blocks = [C("RuleBlock", name="b0"), C("RuleBlock", name="b1")]
            outs = [C("OutputVariable", name="o0"), C("OutputVariable", name="o1")]
            eng = C("Engine", name="model", output_variables=outs, rule_blocks=blocks, load=False)
            try:
                ex.invoke(fn, [eng], dict(given), E0)
            except (Raised, Internal) as err:
                bad.setdefault("no-internal-error", f"Engine.configure ends with {err.cls}")
                continue
            for kind in kinds:
                want = given[kind]
                holders = blocks if kind in ("conjunction", "disjunction", "implication", "activation") else outs
                for h in holders:
                    got = ex.attr(h, kind, E0)
                    where = f"the {h.cls} `{h.fields.get('name')}`"
                    if want is None:
                        if got is not None:
                            bad.setdefault(kind, f"Engine.configure without a {kind}: {where} holds a {getattr(got, 'cls', got)} afterwards, specified none")
                    elif isinstance(want, str):
                        if not (isinstance(got, MObj) and got.cls == want):
                            bad.setdefault(kind, f"Engine.configure({kind}='{want}'): {where} holds {getattr(got, 'cls', got)!r} afterwards")
                    else:
                        diffs: list[str] = []
                        if not isinstance(got, MObj):
                            diffs = [f"{where} holds {got!r}"]
                        else:
                            differences(want, got, "", diffs, set(), limit=3)
                        if diffs:
                            import re
                            bad.setdefault(kind, f"Engine.configure({kind}=<a {want.cls} with parameters>): {where} does not hold that component afterwards - "
                                                 f"{re.sub(r'^<[^>]+> ', '', diffs[0])} (a component rebuilt from its class name alone loses what it was configured with)")
    except Unknown as u:
        raise AnalysisError(str(u)) from None
    for kind in kinds:
        hit = bad.get(kind) or bad.get("no-internal-error")
        check.require(hit is None, rule, f"Engine.configure/{kind}", f"every holder gets the {kind} that was given, with its parameters ({cases} model engines)" if hit is None else hit,
                      loc(fn), exhaustive=True, cases=cases)
