"""C08 - Activation methods trigger exactly the rules their definition selects.

Every `activate` touches the activation degree only through comparisons, so one loop iteration is
interpreted abstractly under every weak order of the specification's quantities and the set of
statements executed (activate_with, trigger, counter increment, heap push, ...) is compared with
the predicate of DESIGN.md Appendix A.2. Order rules are path rules on the CFG.
"""

from __future__ import annotations

import ast
import re
from typing import Any

from ..cfg import Node
from ..guards import RoleEval, simulate, weak_orders
from ..pm import AnalysisError, unparse
from ..report import Check
from ..sym import Resolver, Term, path_of, show, walk
from .common import (body_entry, cmp_normal, const_value, early_exits, is_path, iter_base, iter_precedes, loc, loops_over,
                     method_calls_on, strip)

EXPLANATION = (
    "static analysis of the 7 Activation.activate methods, Activation.assert_is_not_vector, "
    "Threshold.Comparator and Rule.trigger: one loop iteration is interpreted abstractly under every weak order "
    "of (count, n, degree, 0, threshold) x loaded/unloaded and the executed statements are compared with the "
    "trigger predicate of the specification (exhaustive over orderings); CFG must-precede rules for "
    "deactivate/activate_with/assert/trigger order; origin rules for operator arguments, iteration direction, "
    "heap key, divisor; comparator table; who-may-call: a consequent is modified only through Rule.trigger (or under the rule's enabled flag)"
)
ASSUMPTIONS = [
    "scalar activation degrees (batches are rejected by the O-vec rule for every method but General)",
    "heapq is a min-heap over tuples compared lexicographically; operator.lt/le/eq/ne/ge/gt have their Python meaning",
]
FLOORS = {"O-all": 7, "O-dea": 7, "O-seq": 7, "P2": 14, "O-vec": 6, "G": 9, "K1": 2, "T3": 6, "U1": 2, "DIR": 7}

VECTOR_INCAPABLE = ["First", "Last", "Highest", "Lowest", "Proportional", "Threshold"]


def is_counter(t: Term) -> bool:
    """phi{0, <carried> + 1}: a variable initialised to zero and incremented by one around a loop."""
    if t[0] != "phi":
        return False
    has_zero = has_inc = False
    for a in t[1]:
        if a[0] == "const" and a[1] == 0:
            has_zero = True
        elif a[0] == "binop" and a[1] == "+" and a[3] == ("const", 1):
            has_inc = True
        else:
            return False
    return has_zero and has_inc


class Activate:
    """Facts about one `activate(self, rule_block)` implementation."""

    def __init__(self, check: Check, cls: str):
        p = check.program
        self.check = check
        self.cls = cls
        self.fn = p.cls(cls).methods.get("activate")
        if self.fn is None:
            raise AnalysisError(f"anchor vanished: {cls}.activate")
        check.analysed(self.fn)
        self.r = Resolver(p, self.fn)
        self.cfg = self.r.cfg
        params = [x.name for x in self.fn.params]
        if len(params) < 2:
            raise AnalysisError(f"{cls}.activate has no rule block parameter")
        self.rb = params[1]
        self.rules_path = f"{self.rb}.rules"
        self.loops = loops_over(self.r, lambda b: is_path(self.unfiltered(b), self.rules_path))
        if not self.loops:
            raise AnalysisError(f"{cls}.activate: no loop over {self.rules_path} recognised")
        # the main loop is the one that computes the activation degrees (a preceding loop may only deactivate)
        main = [lp for lp in self.loops if method_calls_on(self.r, self.is_rule, "activate_with", self.cfg.loop_body(lp[0]))]
        self.main_head, base, self.direction = (main or self.loops)[0]
        self.body = self.cfg.loop_body(self.main_head)
        self.filter = base[2] if base[0] == "filtered" else None  # text of the selection the main loop ranges over
        self.filtered_loaded = bool(self.filter) and re.fullmatch(r"\w+\.is_loaded\(\)", self.filter) is not None

    @staticmethod
    def unfiltered(b: Term) -> Term:
        while b[0] == "filtered":
            b = iter_base(b[1])[0]
        return b

    def first_effect(self, head: Node) -> Node:
        """The first statement of an iteration that does something other than binding a local name to a call-free expression."""
        n = body_entry(head)
        for _ in range(8):
            a = n.ast
            if n.kind == "stmt" and isinstance(a, (ast.Assign, ast.AnnAssign)) and not self.cfg.calls_in(n) and len(n.succ) == 1 and \
                    all(isinstance(t, ast.Name) for t in (a.targets if isinstance(a, ast.Assign) else [a.target])):
                n = n.succ[0][0]
                continue
            break
        return n

    def deactivation(self) -> tuple[bool, Any]:
        """Every rule's activation state is reset before any degree is computed: either deactivate() opens every iteration of
        the main loop, or an earlier loop over *all* rules of the block deactivates each of them unconditionally."""
        cfg, r = self.cfg, self.r
        head, body = self.main_head, self.body
        deact = method_calls_on(r, self.is_rule, "deactivate", body)
        others = [n for n, _, _ in method_calls_on(r, self.is_rule, "activate_with", body) + method_calls_on(r, self.is_rule, "is_loaded", body)
                  + method_calls_on(r, self.is_rule, "trigger", body)]
        if deact and not self.filter:
            ok = all(iter_precedes(cfg, head, [n for n, _, _ in deact], t) for t in others) and \
                (deact[0][0] is self.first_effect(head) or iter_precedes(cfg, head, [n for n, _, _ in deact], self.first_effect(head)))
            return ok, deact[0][0]
        for h, base, _ in self.loops:
            if h is head or base[0] == "filtered" or not cfg.dominates(h, head) or head in cfg.loop_body(h):
                continue
            b = cfg.loop_body(h)
            d = method_calls_on(r, self.is_rule, "deactivate", b)
            if d and not early_exits(cfg, h) and (d[0][0] is self.first_effect(h) or iter_precedes(cfg, h, [n for n, _, _ in d], self.first_effect(h))):
                return True, d[0][0]
        return False, (deact[0][0] if deact else head)

    def construct(self, role: str) -> str:
        return f"{self.cls}.activate/{role}"

    # -- term classification -------------------------------------------------------------
    def is_rule(self, t: Term) -> bool:
        """An element of rule_block.rules (loop element or subscript)."""
        if t[0] == "elem":
            return is_path(self.unfiltered(iter_base(t[1])[0]), self.rules_path)
        if t[0] == "sub":
            return is_path(t[1], self.rules_path)
        if t[0] == "phi":
            return all(self.is_rule(a) for a in t[1])
        return False

    def is_degree(self, t: Term) -> bool:
        t = strip(t)
        if t[0] == "call" and t[1][0] == "attr" and t[1][2] == "activate_with" and self.is_rule(t[1][1]):
            return True
        if t[0] == "attr" and t[2] == "activation_degree" and self.is_rule(t[1]):
            return True
        return False

    def classify(self, t: Term, e: ast.AST) -> str | None:
        if self.is_degree(t):
            return "d"
        if t[0] == "call" and t[1][0] == "attr" and t[1][2] == "is_loaded" and self.is_rule(t[1][1]):
            return "loaded"
        p = path_of(t)
        if p == "self.rules":
            return "n"
        if p == "self.threshold":
            return "t"
        if is_counter(t):
            return "count"
        c = const_value(t)
        if isinstance(c, (int, float)) and not isinstance(c, bool) and t[0] in ("const", "call"):
            return f"const:{float(c)}"
        if t[0] == "call" and t[1][0] == "attr" and t[1][2] == "operator" and path_of(t[1][1]) == "self.comparator":
            if len(t[2]) == 2 and self.is_degree(t[2][0]) and path_of(strip(t[2][1])) == "self.threshold":
                return "op(d,t)"
            return None
        if self.heap_names and (t == ("list", ()) or t == ("call", ("global", "list"), (), ())):
            return "heap"
        return None

    heap_names: set[str] = set()

    # -- generic iteration interpretation ------------------------------------------------
    def run_iteration(self, head: Node, targets: dict[str, list[Node]], roles: list[str], bools: list[str],
                      spec: dict[str, Any], rule_id: str, what: str) -> None:
        """Interpret one iteration of `head` under all orderings; compare visited targets with spec[name](env)."""
        ev = RoleEval(self.r, self.classify)
        body = self.cfg.loop_body(head)
        outside = {n for n in self.cfg.nodes if n not in body}
        start = body_entry(head)
        roles = list(roles)
        for n in body:
            if n.kind == "test":
                for rl in sorted(ev.roles_in(n.ast, n)):  # type: ignore[arg-type]
                    if rl.startswith("const:") and rl not in roles:
                        roles.append(rl)
        fixed = {r: float(r.split(":")[1]) for r in roles if r.startswith("const:")}
        rows = 0
        bad: list[dict] = []
        nondet: set[str] = set()
        all_targets = {n for ns in targets.values() for n in ns}
        import itertools

        for bvals in itertools.product([True, False], repeat=len(bools)):
            if self.filtered_loaded and "loaded" in bools and not bvals[bools.index("loaded")]:
                continue  # the loop ranges over the loaded rules only
            for order in weak_orders(roles, fixed) if roles else [{}]:
                env: dict[str, Any] = dict(order)
                env.update(dict(zip(bools, bvals)))
                may, must = simulate(self.cfg, start, ev, env, all_targets, outside)
                rows += 1
                for name, nodes in targets.items():
                    got = any(n in must for n in nodes)
                    if got != any(n in may for n in nodes):
                        nondet.add(name)
                        continue
                    want = bool(spec[name](env))
                    if got != want and len(bad) < 5:
                        bad.append({"target": name, "executed": got, "specified": want,
                                    "ordering": describe_order(env, roles, bools)})
        construct = self.construct(rule_id)
        if nondet:
            atoms = sorted(set(ev.unknown_atoms))[:5]
            self.check.violation("G", construct, f"{what}: whether {sorted(nondet)} executes depends on something other "
                                 f"than the specification's quantities: {atoms}", loc(self.fn, head),
                                 {"unknown_atoms": atoms})
            return
        self.check.require(not bad, "G", construct,
                           f"{what}: executed statements agree with the specified predicate on all {rows} orderings"
                           if not bad else f"{what}: disagrees with the specification, e.g. {bad[0]}",
                           loc(self.fn, head), {"rows": rows, "roles": roles + bools, "disagreements": bad},
                           exhaustive=True, cases=rows)


def describe_order(env: dict[str, Any], roles: list[str], bools: list[str]) -> str:
    groups: dict[int, list[str]] = {}
    for r in roles:
        groups.setdefault(env[r], []).append(r.replace("const:", ""))
    s = " < ".join("=".join(groups[k]) for k in sorted(groups))
    b = ", ".join(f"{x}={env[x]}" for x in bools)
    return f"{s}; {b}" if b else s


def run(check: Check) -> None:
    p = check.program
    from . import wiring

    wiring.p4_who_modifies(check, rule="U1")
    for cls in ACTIVATIONS:
        a = Activate(check, cls)
        common_rules(a)
        if cls == "General":
            general(a)
        elif cls in ("First", "Last"):
            first_last(a)
        elif cls in ("Highest", "Lowest"):
            highest_lowest(a)
        elif cls == "Proportional":
            proportional(a)
        else:
            threshold(a)
    assert_is_not_vector(check)
    comparator_table(check)
    rule_trigger(check)
    check.exhaustive_parts.append("trigger predicates: all weak orders of the compared quantities")


# ------------------------------------------------------------------------------------- shared order rules
def operator_wiring(a: Activate, roles: tuple[str, ...] = ("conjunction", "disjunction", "implication")) -> None:
    """P2: the operators handed to activate_with / trigger originate from the block's own conjunction / disjunction /
    implication, in that position (shared with C01 and C06: the connectives are computed with the block's operators
    under every activation method, not only General)."""
    check, r, fn = a.check, a.r, a.fn
    awith = method_calls_on(r, a.is_rule, "activate_with", a.body)
    if not awith:
        raise AnalysisError(f"{a.cls}.activate: no activate_with call on a rule of the block")
    for n, c, t in awith:
        args = t[2]
        if "conjunction" in roles:
            check.require(len(args) == 2 and is_path(args[0], f"{a.rb}.conjunction"), "P2", a.construct("conjunction"),
                          f"first operator passed to activate_with originates from {a.rb}.conjunction"
                          f" (found {show(args[0]) if args else '<none>'})", loc(fn, n))
        if "disjunction" in roles:
            check.require(len(args) == 2 and is_path(args[1], f"{a.rb}.disjunction"), "P2", a.construct("disjunction"),
                          f"second operator passed to activate_with originates from {a.rb}.disjunction"
                          f" (found {show(args[1]) if len(args) > 1 else '<none>'})", loc(fn, n))
    if "implication" not in roles:
        return
    # every trigger anywhere in the method gets the block's implication
    trig = method_calls_on(r, lambda t: True, "trigger")
    if not trig:
        raise AnalysisError(f"{a.cls}.activate: no trigger call")
    for n, c, t in trig:
        args = t[2]
        check.require(len(args) == 1 and is_path(args[0], f"{a.rb}.implication"), "P2", a.construct("implication"),
                      f"operator passed to trigger originates from {a.rb}.implication"
                      f" (found {show(args[0]) if args else '<none>'})", loc(fn, n))


ACTIVATIONS = ["General", "First", "Last", "Highest", "Lowest", "Proportional", "Threshold"]


def common_rules(a: Activate) -> None:
    check, r, cfg, fn = a.check, a.r, a.cfg, a.fn
    head, body = a.main_head, a.body
    want_dir = "reverse" if a.cls == "Last" else "forward"
    check.require(a.direction == want_dir, "DIR", a.construct("iteration"),
                  f"rules are visited in {a.direction} insertion order (specified: {want_dir})", loc(fn, head))
    # every rule of the block is visited: the loop ranges over the whole list (iter_base saw no slicing) and is never left early
    ee = early_exits(cfg, head)
    check.require(not ee, "O-all", a.construct("all-rules"),
                  "the activation degree of every rule of the block is computed (the loop over the rules is never left early)" if not ee else
                  f"the loop over the rules is left early at line {ee[0].lineno}: later rules keep stale activation degrees / are never considered", loc(fn, ee[0] if ee else head))
    deact = method_calls_on(r, a.is_rule, "deactivate", body)
    awith = method_calls_on(r, a.is_rule, "activate_with", body)
    loaded = method_calls_on(r, a.is_rule, "is_loaded", body)
    if not awith:
        raise AnalysisError(f"{a.cls}.activate: no activate_with call on a rule of the block")
    # O-dea: every rule is deactivated before any degree is computed
    ok, where = a.deactivation()
    check.require(ok, "O-dea", a.construct("deactivate"),
                  "rule.deactivate() is the first effect on every rule (before is_loaded/activate_with/trigger)" if ok else
                  "some rule of the block can reach is_loaded/activate_with/trigger (or be skipped) without having been deactivated first",
                  loc(fn, where))
    if a.filter is not None:
        check.require(a.filtered_loaded, "O-all", a.construct("selection"),
                      "the main loop ranges over the loaded rules of the block" if a.filtered_loaded else
                      f"the main loop ranges only over the rules selected by `{a.filter}`", loc(fn, head))
    operator_wiring(a)
    # O-vec
    if a.cls in VECTOR_INCAPABLE:
        asserts = [(n, c, t) for n, c, t in method_calls_on(r, lambda t: t == ("param", "self"), "assert_is_not_vector", body)
                   if len(t[2]) == 1 and a.is_degree(t[2][0])]
        ev = RoleEval(r, a.classify)
        sinks = [n for n in body if n.kind == "test" and "d" in ev.roles_in(n.ast, n)]  # type: ignore[arg-type]
        sinks += [n for n, c in cfg.find_calls("heappush") if n in body]
        sinks += [n for n in body if n.kind == "stmt" and isinstance(n.ast, ast.AugAssign) and
                  any(a.is_degree(r.term(n.ast.value, n)) for _ in [0])]
        ok = bool(asserts) and all(iter_precedes(cfg, head, [n for n, _, _ in asserts], s) for s in sinks)
        check.require(ok, "O-vec", a.construct("assert_is_not_vector"),
                      f"assert_is_not_vector(degree) precedes all {len(sinks)} scalar-only uses of the degree "
                      "(comparisons, heap keys, accumulation)", loc(fn, asserts[0][0] if asserts else head),
                      {"sinks": [s.lineno for s in sinks]})


# ------------------------------------------------------------------------------------- General
def general(a: Activate) -> None:
    r = a.r
    trig = [n for n, _, _ in method_calls_on(r, a.is_rule, "trigger", a.body)]
    aw = [n for n, _, _ in method_calls_on(r, a.is_rule, "activate_with", a.body)]
    a.run_iteration(a.main_head, {"activate_with": aw, "trigger": trig}, [], ["loaded"],
                    {"activate_with": lambda e: e["loaded"], "trigger": lambda e: e["loaded"]},
                    "trigger", "General triggers every loaded rule")
    for t in trig:
        a.check.require(all(iter_precedes(a.cfg, a.main_head, aw, t) for _ in [0]), "O-seq", a.construct("trigger"),
                        "activate_with precedes trigger in the iteration", loc(a.fn, t))


# ------------------------------------------------------------------------------------- First / Last
def first_last(a: Activate) -> None:
    r, cfg = a.r, a.cfg
    trig = [n for n, _, _ in method_calls_on(r, a.is_rule, "trigger", a.body)]
    aw = [n for n, _, _ in method_calls_on(r, a.is_rule, "activate_with", a.body)]
    incs = [n for n in a.body if n.kind == "stmt" and isinstance(n.ast, (ast.AugAssign, ast.Assign)) and
            any(is_counter(r.name_term(d.name, body_entry(a.main_head))) for d in cfg.defs_at(n))]
    roles = ["count", "n", "d", "const:0.0", "t"]
    pred = lambda e: e["loaded"] and e["count"] < e["n"] and e["d"] > e["const:0.0"] and e["d"] >= e["t"]  # noqa: E731
    targets = {"activate_with": aw, "trigger": trig}
    if incs:  # without a counter the truth table below disagrees on the `count` rows
        targets["count+=1"] = incs
    a.run_iteration(a.main_head, targets, roles, ["loaded"],
                    {"activate_with": lambda e: e["loaded"], "trigger": pred, "count+=1": pred},
                    "trigger", f"{a.cls}(n, t) triggers iff loaded and count < n and d > 0 and d >= t, counting each trigger")
    for t in trig:
        a.check.require(iter_precedes(cfg, a.main_head, aw, t), "O-seq", a.construct("trigger"),
                        "activate_with precedes trigger in the iteration", loc(a.fn, t))


# ------------------------------------------------------------------------------------- Highest / Lowest
def _key_shape(a: "Activate", key: Term) -> tuple[str, str] | None:
    """('+d'|'-d', '+i'|'-i') for a 2-tuple key over (degree, insertion index); None if it is something else."""
    if key[0] != "tuple" or len(key[1]) != 2:
        return None
    k0, k1 = key[1]
    if a.is_degree(k0):
        d = "+d"
    elif k0[0] == "unop" and k0[1] == "-" and a.is_degree(k0[2]):
        d = "-d"
    else:
        return None

    def is_index(t: Term) -> bool:
        return t[0] == "index" and is_path(iter_base(t[1])[0], a.rules_path)

    if is_index(k1):
        i = "+i"
    elif k1[0] == "unop" and k1[1] == "-" and is_index(k1[2]):
        i = "-i"
    else:
        return None
    return d, i


def bounded_heap(a: "Activate") -> bool:
    """Selection kept in a heap of at most n entries (push while not full, otherwise replace the worst retained entry).

    In such an eviction heap the top must be the *worst* retained candidate, i.e. the minimum of the key. "Better" for
    Highest means larger degree, then smaller index; so the key must be (degree, -index) [Highest] / (-degree, -index) [Lowest].
    Returns True when the idiom was recognised (and judged)."""
    r, cfg, check, fn = a.r, a.cfg, a.check, a.fn
    repl = [(n, c) for n, c in cfg.find_calls("heapreplace") + cfg.find_calls("heappushpop") if n in a.body]
    pushes = [(n, c) for n, c in cfg.find_calls("heappush") if n in a.body]
    if not repl:
        return False
    want = ("+d", "-i") if a.cls == "Highest" else ("-d", "-i")
    keys = [(n, r.term(c.args[1], n)) for n, c in pushes + repl if len(c.args) == 2]
    shapes = [(n, _key_shape(a, k), k) for n, k in keys]
    bad = [(n, sh, k) for n, sh, k in shapes if sh != want]
    what = {"Highest": "(degree, -index)", "Lowest": "(-degree, -index)"}[a.cls]
    check.require(not bad and bool(shapes), "K1", a.construct("heap-key"),
                  f"bounded heap keeps the best n: its key is {what}, so the entry evicted first is the worst one (smallest degree, latest on ties)"
                  if not bad else f"bounded heap with key {show(bad[0][2])}: the entry at the top (evicted first) must be the worst retained one, which needs the key "
                  f"{what}; with this key ties are evicted in the wrong order (the earliest of equal degrees is dropped)",
                  loc(fn, (bad or shapes)[0][0]))
    # push iff the heap is not full; replace only when the candidate is strictly better than the top
    if isinstance(pushes[0][1].args[0], ast.Name) if pushes else False:
        a.heap_names = {pushes[0][1].args[0].id}
    for n, c in repl:
        gs = [(r.term(g, gn), pol) for g, pol, gn in cfg.must_guards(n) if gn in a.body]
        strict = False
        for gt, pol in gs:
            for s_ in walk(gt):
                if s_[0] == "cmp" and len(s_[1]) == 1 and pol:
                    l, op, rr = s_[2][0], s_[1][0], s_[2][1]
                    top = lambda z: z[0] == "sub" and const_value(z[2]) == 0 and z[1][0] == "sub" and const_value(z[1][2]) == 0  # noqa: E731
                    cand = a.is_degree(l) or (l[0] == "unop" and a.is_degree(l[2]))
                    if cand and top(rr) and op == ">":
                        strict = True
                    if cand and top(rr) and op == ">=":
                        strict = False
        check.require(strict, "G", a.construct("evict"), "a candidate replaces the worst retained entry only when it is strictly better (equal degrees keep the earlier rule)"
                      if strict else "the eviction test is not a strict comparison of the candidate with the heap top", loc(fn, n))
    check.notes.append(f"{a.cls}.activate uses a bounded eviction heap; selection size and trigger loop are not modelled beyond the key and eviction rules")
    return True


def highest_lowest(a: Activate) -> None:
    r, cfg, check, fn = a.r, a.cfg, a.check, a.fn
    if bounded_heap(a):
        return
    pushes = [(n, c) for n, c in cfg.find_calls("heappush") if n in a.body]
    pops = cfg.find_calls("heappop")
    if len(pushes) != 1 or len(pops) != 1:
        raise AnalysisError(f"{a.cls}.activate: expected one heappush in the rule loop and one heappop "
                            f"(found {len(pushes)}, {len(pops)})")
    pn, pc = pushes[0]
    if not (isinstance(pc.args[0], ast.Name)):
        raise AnalysisError(f"{a.cls}.activate: heap is not a local variable")
    heap = pc.args[0].id
    a.heap_names = {heap}
    aw = [n for n, _, _ in method_calls_on(r, a.is_rule, "activate_with", a.body)]
    a.run_iteration(a.main_head, {"activate_with": aw, "push": [pn]}, ["d", "const:0.0"], ["loaded"],
                    {"activate_with": lambda e: e["loaded"], "push": lambda e: e["loaded"] and e["d"] > e["const:0.0"]},
                    "push", f"{a.cls} collects a rule iff loaded and d > 0")
    # K1 heap key
    key = r.term(pc.args[1], pn)
    want_neg = a.cls == "Highest"
    ok = key[0] == "tuple" and len(key[1]) == 2
    first_ok = second_ok = False
    if ok:
        k0, k1 = key[1]
        if want_neg:
            first_ok = k0[0] == "unop" and k0[1] == "-" and a.is_degree(k0[2])
        else:
            first_ok = a.is_degree(k0)
        second_ok = k1[0] == "index" and is_path(iter_base(k1[1])[0], a.rules_path)
    check.require(ok and first_ok and second_ok, "K1", a.construct("heap-key"),
                  f"heap key is ({'-' if want_neg else ''}degree, insertion index) (found {show(key)})", loc(fn, pn))
    # pop loop
    popn, popc = pops[0]
    heads = [h for h in cfg.loop_heads() if popn in cfg.loop_body(h) and h.kind == "test"]
    if not heads or not (isinstance(popc.args[0], ast.Name) and popc.args[0].id == heap):
        raise AnalysisError(f"{a.cls}.activate: heappop is not inside a while loop over the same heap")
    wh = heads[-1]
    wbody = cfg.loop_body(wh)
    trig = method_calls_on(r, a.is_rule, "trigger", wbody)
    incs = [n for n in wbody if n.kind == "stmt" and any(is_counter(r.name_term(d.name, wh)) for d in cfg.defs_at(n))]
    if not trig or not incs:
        raise AnalysisError(f"{a.cls}.activate: pop loop without trigger or counter")
    # while-test truth table: body executes iff heap non-empty and count < n
    ev = RoleEval(r, a.classify)
    rows = 0
    bad = []
    for hv in (True, False):
        for order in weak_orders(["count", "n"]):
            env = dict(order)
            env["heap"] = hv
            v = ev.value(wh.ast, wh, env)  # type: ignore[arg-type]
            rows += 1
            want = hv and env["count"] < env["n"]
            if v is not want:
                bad.append(describe_order(env, ["count", "n"], ["heap"]))
    check.require(not bad and not ev.unknown_atoms, "G", a.construct("pop-loop"),
                  "pop loop continues iff the heap is non-empty and count < n" if not bad and not ev.unknown_atoms
                  else f"pop loop guard disagrees with the specification at {bad[:3]} {ev.unknown_atoms[:3]}",
                  loc(fn, wh), {"rows": rows, "test": unparse(wh.ast)}, exhaustive=True, cases=rows)
    # inside the pop loop: unconditional trigger of rules[popped index] and count += 1
    for n, c, t in trig:
        recv = t[1][1]
        idx = recv[2] if recv[0] == "sub" else ("const", None)
        idx_ok = (idx[0] == "sub" and idx[2] == ("const", 1) and idx[1][0] == "call" and idx[1][1] == ("global", "heapq.heappop")) or \
            (idx[0] == "unpack" and idx[2] == (1,) and idx[1][0] == "call" and idx[1][1] == ("global", "heapq.heappop"))
        check.require(idx_ok, "K1", a.construct("popped-index"),
                      f"the triggered rule is rules[index] with index the second component of the popped key "
                      f"(found {show(recv)})", loc(fn, n))
        uncond = not [g for g in cfg.must_guards(n) if g[2] in wbody]
        inc_uncond = all(not [g for g in cfg.must_guards(i) if g[2] in wbody] for i in incs)
        check.require(uncond and inc_uncond, "O-seq", a.construct("trigger"),
                      "every popped rule is triggered and counted unconditionally", loc(fn, n))


# ------------------------------------------------------------------------------------- Proportional
def proportional(a: Activate) -> None:
    r, cfg, check, fn = a.r, a.cfg, a.check, a.fn
    aw = [n for n, _, _ in method_calls_on(r, a.is_rule, "activate_with", a.body)]
    appends = [(n, c) for n, c in cfg.find_calls(".append") if n in a.body and isinstance(c.func, ast.Attribute)
               and isinstance(c.func.value, ast.Name) and len(c.args) == 1 and a.is_rule(r.term(c.args[0], n))]
    if len(appends) != 1:
        raise AnalysisError("Proportional.activate: expected one collection site `list.append(rule)` in the rule loop")
    an, ac = appends[0]
    collected = ac.func.value.id  # type: ignore[union-attr]
    sums = [n for n in a.body if n.kind == "stmt" and isinstance(n.ast, ast.AugAssign) and isinstance(n.ast.op, ast.Add)
            and isinstance(n.ast.target, ast.Name) and a.is_degree(r.term(n.ast.value, n))]
    sums += [n for n in a.body if n.kind == "stmt" and isinstance(n.ast, ast.Assign) and len(n.ast.targets) == 1 and
             isinstance(n.ast.targets[0], ast.Name) and (lambda t: t[0] == "binop" and t[1] == "+" and
             (a.is_degree(t[2]) or a.is_degree(t[3])))(r.term(n.ast.value, n))]
    if len(sums) != 1:
        raise AnalysisError("Proportional.activate: expected one accumulation of the degree in the rule loop")
    sn = sums[0]
    sum_name = sn.ast.target.id if isinstance(sn.ast, ast.AugAssign) else sn.ast.targets[0].id  # type: ignore[union-attr]
    pos = lambda e: e["loaded"] and e["d"] > e["const:0.0"]  # noqa: E731
    a.run_iteration(a.main_head, {"activate_with": aw, "collect": [an], "sum+=d": [sn]}, ["d", "const:0.0"], ["loaded"],
                    {"activate_with": lambda e: e["loaded"], "collect": pos, "sum+=d": pos},
                    "collect", "Proportional collects and sums a rule iff loaded and d > 0")
    # initial value of the sum is zero
    init = [d for d in cfg.defs_reaching(sum_name, [p for p, _ in a.main_head.pred if p.kind == "iter"][0])]
    init_ok = len(init) == 1 and init[0].value is not None and const_value(r.term(init[0].value, init[0].node)) == 0
    check.require(init_ok, "G", a.construct("sum-seed"), "the sum of degrees starts at 0", loc(fn, init[0].node if init else sn))
    # second loop over the collected rules (for-each or index loop)
    second = []
    for h_ in cfg.loop_heads():
        if h_.kind != "for" or h_ is a.main_head:
            continue
        itn = [q for q, _ in h_.pred if q.kind == "iter"]
        if not itn:
            continue
        names = {x.id for x in ast.walk(h_.ast.iter) if isinstance(x, ast.Name)}  # type: ignore[union-attr]
        base_, dir_ = iter_base(r.term(h_.ast.iter, itn[0]))  # type: ignore[union-attr]
        if collected in names and base_ == r.name_term(collected, itn[0]):
            second.append(h_)
    if len(second) != 1:
        raise AnalysisError("Proportional.activate: no loop over the collected rules")
    h2 = second[0]
    if not cfg.dominates(a.main_head, h2) or h2 in a.body:
        raise AnalysisError("Proportional.activate: normalisation loop is not after the collection loop")
    b2 = cfg.loop_body(h2)
    elem2 = ("elem", iter_base(r.term(h2.ast.iter, [p for p, _ in h2.pred if p.kind == "iter"][0]))[0])  # type: ignore[union-attr]
    divs = []
    for n in b2:
        if n.kind != "stmt":
            continue
        s = n.ast
        if isinstance(s, ast.AugAssign) and isinstance(s.op, ast.Div) and isinstance(s.target, ast.Attribute) \
                and s.target.attr == "activation_degree" and r.term(s.target.value, n) == elem2:
            divs.append((n, r.term(s.value, n)))
        elif isinstance(s, ast.Assign) and len(s.targets) == 1 and isinstance(s.targets[0], ast.Attribute) and \
                s.targets[0].attr == "activation_degree" and r.term(s.targets[0].value, n) == elem2:
            t = r.term(s.value, n)
            if t[0] == "binop" and t[1] == "/" and t[2] == ("attr", elem2, "activation_degree"):
                divs.append((n, t[3]))
            else:
                divs.append((n, ("const", "<not a division of the rule's own degree>")))
    trig2 = [(n, c, t) for n, c, t in method_calls_on(r, lambda t: t == elem2, "trigger", b2)]
    if not trig2:
        raise AnalysisError("Proportional.activate: collected rules are never triggered")
    sum_term = r.name_term(sum_name, h2)
    div_ok = len(divs) == 1 and divs[0][1] == sum_term
    check.require(div_ok, "G", a.construct("normalise"),
                  "each collected rule's degree is divided once by the sum of exactly the collected degrees"
                  if div_ok else f"divisor is {show(divs[0][1]) if divs else '<missing>'}, expected the sum {show(sum_term)}",
                  loc(fn, divs[0][0] if divs else h2))
    for n, c, t in trig2:
        uncond = not [g for g in cfg.must_guards(n) if g[2] in b2]
        ordered = bool(divs) and iter_precedes(cfg, h2, [d[0] for d in divs], n)
        check.require(uncond and ordered, "O-seq", a.construct("trigger"),
                      "every collected rule is triggered, after its degree has been normalised", loc(fn, n))


# ------------------------------------------------------------------------------------- Threshold
def threshold(a: Activate) -> None:
    r = a.r
    trig = [n for n, _, _ in method_calls_on(r, a.is_rule, "trigger", a.body)]
    aw = [n for n, _, _ in method_calls_on(r, a.is_rule, "activate_with", a.body)]
    a.run_iteration(a.main_head, {"activate_with": aw, "trigger": trig}, [], ["loaded", "op(d,t)"],
                    {"activate_with": lambda e: e["loaded"], "trigger": lambda e: e["loaded"] and e["op(d,t)"]},
                    "trigger", "Threshold triggers iff loaded and comparator.operator(degree, threshold)")
    for t in trig:
        a.check.require(iter_precedes(a.cfg, a.main_head, aw, t), "O-seq", a.construct("trigger"),
                        "activate_with precedes trigger in the iteration", loc(a.fn, t))


# ------------------------------------------------------------------------------------- helpers outside activate
def assert_is_not_vector(check: Check) -> None:
    p = check.program
    fn = p.func("Activation.assert_is_not_vector")
    check.analysed(fn)
    r = Resolver(p, fn)
    cfg = r.cfg
    raises = [n for n in cfg.stmt_nodes() if isinstance(n.ast, ast.Raise)]
    param = fn.params[1].name if len(fn.params) > 1 else None

    def classify(t: Term, e: ast.AST) -> str | None:
        t2 = t
        if t2[0] == "call" and t2[1] == ("global", "numpy.size") and t2[2] and t2[2][0] == ("param", param):
            return "size"
        if t2[0] == "attr" and t2[2] == "size" and t2[1] == ("param", param):
            return "size"
        c = const_value(t)
        if isinstance(c, (int, float)) and not isinstance(c, bool):
            return f"const:{float(c)}"
        return None

    ev = RoleEval(r, classify)
    bad = []
    rows = 0
    nondet = False
    first = [s for s, _ in cfg.entry.succ][0]
    roles = ["size", "const:1.0"]
    for n in cfg.stmt_nodes():
        if n.kind == "test":
            roles += [rl for rl in sorted(ev.roles_in(n.ast, n)) if rl.startswith("const:") and rl not in roles]  # type: ignore[arg-type]
    for order in weak_orders(roles, {rl: float(rl.split(":")[1]) for rl in roles if rl.startswith("const:")}):
        may, must = simulate(cfg, first, ev, dict(order), set(raises), set())
        nondet |= may != must
        rows += 1
        if bool(must) != (order["size"] > order["const:1.0"]):
            bad.append(describe_order(order, roles, []))
    check.require(bool(raises) and not bad and not nondet, "O-vec", "Activation.assert_is_not_vector/guard",
                  "raises iff the size of the degree exceeds 1" if not bad and not nondet else
                  f"size guard disagrees at {bad} {ev.unknown_atoms[:3]}", loc(fn), {"rows": rows},
                  exhaustive=True, cases=rows)


def comparator_table(check: Check) -> None:
    p = check.program
    c = p.cls("Threshold.Comparator")
    table = c.class_attrs.get("__operator__")
    if not isinstance(table, ast.Dict):
        raise AnalysisError("anchor vanished: Threshold.Comparator.__operator__ is not a dict literal")
    want = {"<": "lt", "<=": "le", "==": "eq", "!=": "ne", ">=": "ge", ">": "gt"}
    seen = {}
    for k, v in zip(table.keys, table.values):
        sym = None
        if isinstance(k, ast.Name) and isinstance(c.class_attrs.get(k.id), ast.Constant):
            sym = c.class_attrs[k.id].value  # type: ignore[union-attr]
        elif isinstance(k, ast.Constant):
            sym = k.value
        fname = p.resolve_global(unparse(v), c.module)
        seen[sym] = fname
    for sym, op in want.items():
        check.require(seen.get(sym) == f"operator.{op}", "T3", f"Threshold.Comparator/{sym}",
                      f"comparator '{sym}' maps to operator.{op} (found {seen.get(sym)})",
                      f"{c.file}:{table.lineno}")
    getter = c.getters.get("operator")
    if getter is None:
        raise AnalysisError("anchor vanished: Threshold.Comparator.operator")
    check.analysed(getter)
    r = Resolver(p, getter)
    rets = [r.term(n.ast.value, n) for n in r.cfg.stmt_nodes() if isinstance(n.ast, ast.Return)]
    ok = len(rets) == 1 and rets[0][0] == "sub" and rets[0][2] == ("attr", ("param", "self"), "value") and \
        rets[0][1][0] == "global" and rets[0][1][1].endswith("Comparator.__operator__")
    check.require(ok, "T3", "Threshold.Comparator/operator", "operator looks the member's own symbol up in the table"
                  f" (found {show(rets[0]) if rets else '<none>'})", loc(getter))


def rule_trigger(check: Check) -> None:
    p = check.program
    fn = p.func("Rule.trigger")
    check.analysed(fn)
    r = Resolver(p, fn)
    cfg = r.cfg
    mods = [n for n, c in cfg.find_calls(".modify")]
    if not mods:
        raise AnalysisError("Rule.trigger: no consequent.modify call")
    stores = [n for n in cfg.stmt_nodes() if any(isinstance(t, ast.Attribute) and t.attr == "triggered" for t in cfg.stores_at(n))]
    good = []
    for n in stores:
        if not any(cfg.must_precede([m], n) for m in mods):
            continue
        cn = cmp_normal(r.term(n.ast.value, n))  # type: ignore[union-attr]
        if cn is None:
            continue
        l, op, rr = cn
        if (path_of(l) == "self.activation_degree" and op == ">" and const_value(rr) == 0) or \
                (path_of(rr) == "self.activation_degree" and op == "<" and const_value(l) == 0):
            good.append(n)
    after = [n for n in stores if any(cfg.must_precede([m], n) for m in mods)]
    check.require(len(good) == len(after) == 1 or (bool(good) and len(good) == len(after)), "U1", "Rule.trigger/triggered",
                  "after modifying the consequent, `triggered` is set from activation_degree > 0"
                  if good else "`triggered` is not derived from activation_degree > 0", loc(fn, (after or mods)[0]))
