"""C08 - Activation methods trigger exactly the rules their definition selects.

Every `activate` consults the activation degrees only through comparisons (and, for Proportional, their sum), so each method is
interpreted (sa/absexec.py, sa/rules/activation_sem.py) on model rule blocks of 2-4 rules under every weak order of the degrees, zero
and the threshold, with loaded / unloaded / disabled rules, and the log of what was done to the rules is compared with the definition.
The comparator table, the size guard of assert_is_not_vector and Rule.trigger are decided on their own code.
"""

from __future__ import annotations

import ast
from typing import Any

from ..guards import RoleEval, simulate, weak_orders
from ..pm import AnalysisError, unparse
from ..report import Check
from ..sym import Resolver, Term, path_of, show
from .common import cmp_normal, const_value, loc

EXPLANATION = (
    "static analysis of the 7 Activation.activate methods, Activation.assert_is_not_vector, Threshold.Comparator and Rule.trigger: each activate "
    "method is interpreted abstractly on model rule blocks (3 rules, 2 for Threshold; 4 / 3 in the thorough tier) for every weak order of (degrees, 0, "
    "threshold) realised by two embeddings into dyadic numbers x {loaded+enabled, unloaded, disabled} per rule x the rules parameter x the six "
    "comparators; the log of deactivate / is_loaded / activate_with / assert_is_not_vector / trigger calls and of every consultation of a degree is "
    "compared with the definition: deactivation first (O-dea), each loaded rule's degree computed once (A-sem degrees) with the block's operators (P2), "
    "exactly the selected rules triggered once with the degree the definition gives them (A-sem selection), the degree seen by assert_is_not_vector "
    "before anything treats it as a single number (O-vec); comparator table; size guard; who-may-call: a consequent is modified only through "
    "Rule.trigger (or under the rule's enabled flag)"
    "; the quick tier includes the degenerate counts 0 and N + 1 and degrees within the comparison tolerance of zero"
)
ASSUMPTIONS = [
    "scalar activation degrees (batches are rejected by the O-vec rule for every method but General)",
    "heapq is a min-heap over tuples compared lexicographically; operator.lt/le/eq/ne/ge/gt have their Python meaning",
]
FLOORS = {"A-sem": 28, "O-dea": 7, "P2": 21, "O-vec": 7, "T3": 6, "U1": 2}



def describe_order(env: dict[str, Any], roles: list[str], bools: list[str]) -> str:
    groups: dict[int, list[str]] = {}
    for r in roles:
        groups.setdefault(env[r], []).append(r.replace("const:", ""))
    s = " < ".join("=".join(groups[k]) for k in sorted(groups))
    b = ", ".join(f"{x}={env[x]}" for x in bools)
    return f"{s}; {b}" if b else s


def run(check: Check) -> None:
    from . import wiring
    from .activation_sem import activation_semantics

    wiring.p4_who_modifies(check, rule="U1")
    # the seven activate methods are decided by interpretation on model rule blocks (sa/rules/activation_sem.py): the rules of earlier rounds that
    # recognised the loop, the counter, the heap and its key, the pop loop, the collection list and the divisor (G, DIR, K1, O-all, O-seq and the
    # structural forms of O-dea, O-vec and P2) are subsumed by it and were removed
    for cls in ACTIVATIONS:
        activation_semantics(check, cls)
    assert_is_not_vector(check)
    comparator_table(check)
    rule_trigger(check)
    check.exhaustive_parts.append("trigger sets: all weak orders of the degrees, zero and the threshold x loaded flags x rules parameter x comparators, on blocks of 2-4 rules")


ACTIVATIONS = ["General", "First", "Last", "Highest", "Lowest", "Proportional", "Threshold"]


# ------------------------------------------------------------------------------------- supporting functions
def assert_is_not_vector(check: Check) -> None:
    p = check.program
    fn = p.func("Activation.assert_is_not_vector")
    check.analysed(fn)
    r = Resolver(p, fn)
    cfg = r.cfg
    raises = [n for n in cfg.stmt_nodes() if isinstance(n.ast, ast.Raise)]
    param = fn.params[1].name if len(fn.params) > 1 else None

    def classify(t: Term, e: ast.AST) -> str | None:
        t2 = t
        if t2[0] == "call" and t2[1] == ("global", "numpy.size") and t2[2] and t2[2][0] == ("param", param):
            return "size"
        if t2[0] == "attr" and t2[2] == "size" and t2[1] == ("param", param):
            return "size"
        c = const_value(t)
        if isinstance(c, (int, float)) and not isinstance(c, bool):
            return f"const:{float(c)}"
        return None

    ev = RoleEval(r, classify)
    bad = []
    rows = 0
    nondet = False
    first = [s for s, _ in cfg.entry.succ][0]
    roles = ["size", "const:1.0"]
    for n in cfg.stmt_nodes():
        if n.kind == "test":
            roles += [rl for rl in sorted(ev.roles_in(n.ast, n)) if rl.startswith("const:") and rl not in roles]  # type: ignore[arg-type]
    for order in weak_orders(roles, {rl: float(rl.split(":")[1]) for rl in roles if rl.startswith("const:")}):
        may, must = simulate(cfg, first, ev, dict(order), set(raises), set())
        nondet |= may != must
        rows += 1
        if bool(must) != (order["size"] > order["const:1.0"]):
            bad.append(describe_order(order, roles, []))
    check.require(bool(raises) and not bad and not nondet, "O-vec", "Activation.assert_is_not_vector/guard",
                  "raises iff the size of the degree exceeds 1" if not bad and not nondet else
                  f"size guard disagrees at {bad} {ev.unknown_atoms[:3]}", loc(fn), {"rows": rows},
                  exhaustive=True, cases=rows)


def comparator_table(check: Check) -> None:
    p = check.program
    c = p.cls("Threshold.Comparator")
    table = c.class_attrs.get("__operator__")
    if not isinstance(table, ast.Dict):
        raise AnalysisError("anchor vanished: Threshold.Comparator.__operator__ is not a dict literal")
    want = {"<": "lt", "<=": "le", "==": "eq", "!=": "ne", ">=": "ge", ">": "gt"}
    seen = {}
    for k, v in zip(table.keys, table.values):
        sym = None
        if isinstance(k, ast.Name) and isinstance(c.class_attrs.get(k.id), ast.Constant):
            sym = c.class_attrs[k.id].value  # type: ignore[union-attr]
        elif isinstance(k, ast.Constant):
            sym = k.value
        fname = p.resolve_global(unparse(v), c.module)
        seen[sym] = fname
    for sym, op in want.items():
        check.require(seen.get(sym) == f"operator.{op}", "T3", f"Threshold.Comparator/{sym}",
                      f"comparator '{sym}' maps to operator.{op} (found {seen.get(sym)})",
                      f"{c.file}:{table.lineno}")
    getter = c.getters.get("operator")
    if getter is None:
        raise AnalysisError("anchor vanished: Threshold.Comparator.operator")
    check.analysed(getter)
    r = Resolver(p, getter)
    rets = [r.term(n.ast.value, n) for n in r.cfg.stmt_nodes() if isinstance(n.ast, ast.Return)]
    ok = len(rets) == 1 and rets[0][0] == "sub" and rets[0][2] == ("attr", ("param", "self"), "value") and \
        rets[0][1][0] == "global" and rets[0][1][1].endswith("Comparator.__operator__")
    check.require(ok, "T3", "Threshold.Comparator/operator", "operator looks the member's own symbol up in the table"
                  f" (found {show(rets[0]) if rets else '<none>'})", loc(getter))


def rule_trigger(check: Check) -> None:
    p = check.program
    fn = p.func("Rule.trigger")
    check.analysed(fn)
    r = Resolver(p, fn)
    cfg = r.cfg
    mods = [n for n, c in cfg.find_calls(".modify")]
    if not mods:
        raise AnalysisError("Rule.trigger: no consequent.modify call")
    stores = [n for n in cfg.stmt_nodes() if any(isinstance(t, ast.Attribute) and t.attr == "triggered" for t in cfg.stores_at(n))]
    good = []
    for n in stores:
        if not any(cfg.must_precede([m], n) for m in mods):
            continue
        cn = cmp_normal(r.term(n.ast.value, n))  # type: ignore[union-attr]
        if cn is None:
            continue
        l, op, rr = cn
        if (path_of(l) == "self.activation_degree" and op == ">" and const_value(rr) == 0) or \
                (path_of(rr) == "self.activation_degree" and op == "<" and const_value(l) == 0):
            good.append(n)
    after = [n for n in stores if any(cfg.must_precede([m], n) for m in mods)]
    check.require(len(good) == len(after) == 1 or (bool(good) and len(good) == len(after)), "U1", "Rule.trigger/triggered",
                  "after modifying the consequent, `triggered` is set from activation_degree > 0"
                  if good else "`triggered` is not derived from activation_degree > 0", loc(fn, (after or mods)[0]))
