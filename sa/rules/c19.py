"""C19 - An engine reported ready can be processed.

`Engine.is_ready` is interpreted abstractly for one rule block / one output variable under every
assignment of {operator present, operator needed}: for each of the five operator kinds there must be
an `errors.append` site that executes exactly when that operator is needed and missing (Appendix A.6).
Need counters are bound to kinds by the keyword / defuzzifier class their increments consult.
"""

from __future__ import annotations

import ast
import itertools

from ..guards import RoleEval, simulate
from ..pm import AnalysisError, unparse
from ..report import Check
from ..sym import Resolver, Term, path_of, show, walk
from .common import body_entry, is_path, iter_base, loc, loops_over, non_accumulating_liveouts

EXPLANATION = (
    "static analysis of Engine.is_ready and of the runtime sites that raise on a missing operator: one iteration "
    "of the rule-block loop and of the output-variable loop is interpreted abstractly under all 2^6 / 2^3 "
    "assignments of (operator needed, operator present); for each of conjunction, disjunction, implication, "
    "aggregation, defuzzifier some report site must execute exactly when that operator is needed and missing; "
    "need counters are bound by the keyword (Rule.AND / Rule.OR) or defuzzifier class their increments consult; the operators that reach "
    "the runtime tests are the block's own through the whole recursion over the antecedent (P9); every parser of rule text separates tokens "
    "at any whitespace, as the ` and ` / ` or ` search of readiness in the space-normalised text presupposes (C1-tok); what decides the need is a "
    "property of the rule / conclusion at hand - the conclusion's own variable's defuzzifier, the rule's own antecedent text (C1-subj)"
)
ASSUMPTIONS = [
    "rules written with whitespace-separated tokens (property precondition); rule blocks have an activation method",
    "readiness concerns the five operator kinds of the property; other causes of exceptions are outside its quantifier",
]
FLOORS = {"C1": 5, "C1-raise": 5, "C1-acc": 1, "C1-deref": 6, "P9": 7, "C1-tok": 6, "C1-subj": 3}

MARKERS = {
    "fuzzylite.rule.Rule.AND": "AND",
    "fuzzylite.rule.Rule.OR": "OR",
    "fuzzylite.defuzzifier.IntegralDefuzzifier": "Integral",
    "fuzzylite.defuzzifier.WeightedDefuzzifier": "Weighted",
}
NEED_BY_MARKER = {frozenset({"AND"}): "need_conjunction", frozenset({"OR"}): "need_disjunction",
                  frozenset({"Integral"}): "need_implication"}


def markers_in(t: Term) -> frozenset[str]:
    return frozenset(MARKERS[s[1]] for s in walk(t) if s[0] == "global" and s[1] in MARKERS)


def is_accumulator(t: Term) -> bool:
    """phi{0, carried + x}: a counter/accumulator seeded with zero."""
    if t[0] != "phi":
        return False
    zero = inc = False
    for a in t[1]:
        if a[0] == "const" and a[1] == 0:
            zero = True
        elif a[0] == "binop" and a[1] == "+":
            inc = True
        else:
            return False
    return zero and inc


def run(check: Check) -> None:
    p = check.program
    fn = p.func("Engine.is_ready")
    check.analysed(fn)
    r = Resolver(p, fn)
    cfg = r.cfg

    appends = []
    for n, c in cfg.find_calls(".append"):
        recv = r.term(c.func.value, n)  # type: ignore[union-attr]
        if any(s_ == ("param", "errors") for s_ in walk(recv)):
            appends.append(n)
    if not appends:
        raise AnalysisError("Engine.is_ready: no error report sites (errors.append) found")

    def block(loop_path: str, kinds: dict[str, object], bools: list[str], infeasible=lambda e: False) -> None:
        loops = loops_over(r, lambda b: is_path(b, loop_path))
        if not loops:
            raise AnalysisError(f"Engine.is_ready: no loop over {loop_path}")
        head = loops[0][0]
        body = cfg.loop_body(head)
        sites = [n for n in appends if n in body and not [h for h in cfg.enclosing_loops(n) if h is not head]]

        def is_elem(t: Term) -> bool:
            return t[0] == "elem" and is_path(iter_base(t[1])[0], loop_path)

        # need quantities: local accumulators whose increments (or the guards of their increments) consult a marker
        def markers_of_var(name: str, depth: int = 0, seen: frozenset = frozenset()) -> frozenset[str]:
            if name in seen or depth > 4:
                return frozenset()
            out: set[str] = set()
            for n in body:
                for d in cfg.defs_at(n):
                    if d.name != name or d.value is None:
                        continue
                    out |= markers_in(r.term(d.value, n))
                    for g, pol, gn in cfg.must_guards(n):
                        if gn not in body:
                            continue
                        out |= markers_in(r.term(g, gn))
                        for x in ast.walk(g):
                            if isinstance(x, ast.Name):
                                out |= markers_of_var(x.id, depth + 1, seen | {name})
                    for x in ast.walk(d.value):
                        if isinstance(x, ast.Name) and x.id != name:
                            out |= markers_of_var(x.id, depth + 1, seen | {name})
            return frozenset(out)

        need_by_term: dict[Term, str] = {}
        for n in body:
            if n.kind != "test":
                continue
            for x in ast.walk(n.ast):  # type: ignore[arg-type]
                if isinstance(x, ast.Name) and cfg.defs_reaching(x.id, n):
                    t_ = r.name_term(x.id, n)
                    if is_accumulator(t_):
                        role = NEED_BY_MARKER.get(markers_of_var(x.id))
                        if role:
                            need_by_term[t_] = role

        def classify(t: Term, e: ast.AST) -> str | None:
            if t in need_by_term:
                return need_by_term[t]
            if t[0] == "attr" and is_elem(t[1]) and f"has_{t[2]}" in bools:
                return f"has_{t[2]}"
            if t[0] == "call" and t[1] == ("global", "isinstance") and len(t[2]) == 2 and t[2][0][0] == "attr" and \
                    is_elem(t[2][0][1]) and t[2][0][2] == "defuzzifier" and \
                    t[2][1] == ("global", "fuzzylite.defuzzifier.IntegralDefuzzifier"):
                return "integral"
            if is_accumulator(t):
                return NEED_BY_MARKER.get(markers_in(t))
            return None

        ev = RoleEval(r, classify)
        start = body_entry(head)
        outside = {n for n in cfg.nodes if n not in body}
        table: dict[int, list[object]] = {n.id: [] for n in sites}
        envs = []
        for vals in itertools.product([False, True], repeat=len(bools)):
            env = dict(zip(bools, vals))
            if infeasible(env):
                continue
            envs.append(env)
            may, must = simulate(cfg, start, ev, env, set(sites), outside, skip_loops=True)
            for n in sites:
                table[n.id].append(True if n in must else (False if n not in may else "depends on an unclassified condition"))
        unknown = sorted(set(ev.unknown_atoms))
        for kind, pred in kinds.items():
            want = [bool(pred(e)) for e in envs]  # type: ignore[operator]
            exact = [n for n in sites if table[n.id] == want]
            construct = f"Engine.is_ready/{kind}"
            if exact:
                check.ok("C1", construct, f"a report site executes exactly when the {kind} operator is needed and missing "
                         f"({len(envs)} assignments)", loc(fn, exact[0]), {"rows": len(envs), "roles": bools},
                         exhaustive=True, cases=len(envs))
                continue
            # diagnose with the closest site: one that is executed only if the operator is missing
            near = [n for n in sites if any(f"has_{kind}" in ev.roles_in(g, gn) for g, _, gn in cfg.must_guards(n))]
            detail = "no report site"
            where = head
            facts: dict = {"roles": bools, "unclassified_atoms": unknown}
            if near:
                n = near[0]
                where = n
                diff = [e for v, w, e in zip(table[n.id], want, envs) if v != w][:3]
                guards = [(unparse(g), pol) for g, pol, gn in cfg.must_guards(n) if gn in body]
                detail = f"the site at line {n.lineno} is guarded by {guards}; it disagrees with the specification e.g. at {diff}"
                facts.update({"guards": guards, "disagreements": diff})
            elif unknown:
                detail = f"no report site matches; unclassified conditions: {unknown[:4]}"
            check.violation("C1", construct, f"missing {kind} is not reported exactly when it is needed: {detail}",
                            loc(fn, where), facts)

    block("self.rule_blocks",
          {"conjunction": lambda e: e["need_conjunction"] and not e["has_conjunction"],
           "disjunction": lambda e: e["need_disjunction"] and not e["has_disjunction"],
           "implication": lambda e: e["need_implication"] and not e["has_implication"]},
          ["need_conjunction", "has_conjunction", "need_disjunction", "has_disjunction", "need_implication", "has_implication"])
    block("self.output_variables",
          {"defuzzifier": lambda e: not e["has_defuzzifier"],
           "aggregation": lambda e: not e["has_aggregation"] and e["integral"]},
          ["has_defuzzifier", "has_aggregation", "integral"],
          infeasible=lambda e: e["integral"] and not e["has_defuzzifier"])
    # C1-subj: what decides the need of an operator is a property of the rule / conclusion at hand, not of something left over from
    # another loop: the defuzzifier examined for the implication is the one of the conclusion's own variable, the text searched for
    # `and` / `or` is the rule's own antecedent
    rb_loops = loops_over(r, lambda b: is_path(b, "self.rule_blocks"))
    if rb_loops:
        rb_body = cfg.loop_body(rb_loops[0][0])
        subjects = []
        for n in rb_body:
            exprs = list(cfg.exprs_of(n)) if n.kind in ("stmt", "test") else []
            for e in exprs:
                for x in ast.walk(e):
                    if isinstance(x, ast.Call):
                        t = r.term(x, n)
                        if t[0] == "call" and t[1] == ("global", "isinstance") and len(t[2]) == 2 and t[2][1] == ("global", "fuzzylite.defuzzifier.IntegralDefuzzifier"):
                            subjects.append((n, "implication", t[2][0]))
                    elif isinstance(x, ast.Compare) and len(x.ops) == 1 and isinstance(x.ops[0], (ast.In, ast.NotIn)):
                        t = r.term(x, n)
                        if markers_in(t[2][0]) & {"AND", "OR"}:
                            subjects.append((n, "conjunction" if "AND" in markers_in(t[2][0]) else "disjunction", t[2][1]))

        def own_rule(t: Term) -> bool:
            return t[0] == "elem" and iter_base(t[1])[0][0] == "attr" and iter_base(t[1])[0][2] == "rules" and \
                iter_base(t[1])[0][1][0] == "elem" and is_path(iter_base(iter_base(t[1])[0][1][1])[0], "self.rule_blocks")

        for n, kind, subj in subjects:
            if kind == "implication":
                ok = subj[0] == "attr" and subj[2] == "defuzzifier" and subj[1][0] == "attr" and subj[1][2] == "variable" and subj[1][1][0] == "elem" and \
                    (lambda b: b[0] == "attr" and b[2] == "conclusions" and b[1][0] == "attr" and b[1][2] == "consequent" and own_rule(b[1][1]))(iter_base(subj[1][1][1])[0])
                what = "the defuzzifier examined is the one of the conclusion's own variable"
            else:
                ok = subj[0] == "attr" and subj[2] == "text" and subj[1][0] == "attr" and subj[1][2] == "antecedent" and own_rule(subj[1][1])
                what = "the text searched is the antecedent of the rule at hand"
            check.require(ok, "C1-subj", f"Engine.is_ready/{kind}-subject", what if ok else
                          f"whether a rule needs the {kind} operator is decided by `{show(subj)[:80]}`, which is not "
                          + ("the defuzzifier of the variable the conclusion is about" if kind == "implication" else "the antecedent of the rule at hand")
                          + " (a value left over from another loop): the need of some rules is misjudged", loc(fn, n))
    # the need quantities accumulate over every rule / every conclusion
    bad = [(name, n, h) for h in cfg.loop_heads() if h.kind == "for" for name, n in non_accumulating_liveouts(cfg, h)]
    for name, n, h in bad:
        check.violation("C1-acc", f"Engine.is_ready/{name}", f"`{name}` is overwritten in every iteration of the loop at line {h.lineno} and used after it: only the "
                        "last element decides whether the operator is needed (e.g. a Mamdani conclusion followed by a weighted one hides the need for an implication)",
                        loc(fn, n))
    if not bad:
        check.ok("C1-acc", "Engine.is_ready/accumulation", "every quantity computed in a loop and used after it accumulates over all elements", loc(fn))
    check.exhaustive_parts.append("is_ready report predicates: all assignments of (needed, present) per operator kind")
    runtime_sites(check)
    dereferences(check)
    from . import c16, wiring

    # the operators that reach the runtime "operator missing" tests are the block's own (a block that has the operator must not
    # meet a None on the way down the antecedent), and every parser of the rule text separates tokens the way readiness assumes
    wiring.p9_antecedent(check)
    c16.tokenisers(check, rule="C1-tok")


def runtime_sites(check: Check) -> None:
    """The runtime raise sites that readiness must anticipate (pairing table, informational + keyword agreement)."""
    p = check.program
    table = [
        ("conjunction", "Antecedent.activation_degree", ("param", "conjunction"), "AND"),
        ("disjunction", "Antecedent.activation_degree", ("param", "disjunction"), "OR"),
        ("implication", "Activated.membership", ("attr", ("param", "self"), "implication"), None),
        ("aggregation", "Aggregated.membership", ("attr", ("param", "self"), "aggregation"), None),
        ("defuzzifier", "OutputVariable.defuzzify", ("attr", ("param", "self"), "defuzzifier"), None),
    ]
    for kind, qual, operand, marker in table:
        fn = p.func(qual)
        check.analysed(fn)
        r = Resolver(p, fn)
        cfg = r.cfg
        found = None
        for n in cfg.stmt_nodes():
            if not isinstance(n.ast, ast.Raise):
                continue
            gs = [(r.term(g, gn), pol) for g, pol, gn in cfg.must_guards(n)]
            missing = any((t == ("unop", "not", operand) and pol) or (t == operand and not pol) or
                          (t[0] == "bool" and t[1] == "and" and ("unop", "not", operand) in t[2] and pol) for t, pol in gs)
            if not missing:
                continue
            if marker is not None:
                kw = any(pol and markers_in(t) == frozenset({marker}) and t[0] == "cmp" for t, pol in gs)
                if not kw:
                    continue
            found = n
            break
        if found is None:
            check.notes.append(f"no runtime raise for a missing {kind} found in {qual} (pairing not applicable)")
            check.ok("C1-raise", f"{qual}/{kind}", "no runtime raise site for this operator (nothing to anticipate)", loc(fn))
        else:
            check.ok("C1-raise", f"{qual}/{kind}", f"runtime raises when {kind} is missing"
                     + (f" under the `{marker.lower()}` connective" if marker else "") + "; anticipated by is_ready",
                     loc(fn, found))


OPERATOR_ATTRS = {"conjunction", "disjunction", "implication", "aggregation", "defuzzifier", "activation"}


def operator_of(t: Term) -> str | None:
    """The optional operator a receiver term denotes (self.aggregation, a parameter named conjunction, rule_block.implication...)."""
    if t[0] == "attr" and t[2] in OPERATOR_ATTRS:
        return t[2]
    if t[0] == "param" and t[1] in OPERATOR_ATTRS:
        return t[1]
    return None


def _truth_atoms(t: Term) -> list[Term]:
    """The values whose presence a condition examines: operands of not/and/or, and `x is None` / `x is not None` / `x == None`."""
    if t[0] == "unop" and t[1] == "not":
        return _truth_atoms(t[2])
    if t[0] == "bool":
        return [a for x in t[2] for a in _truth_atoms(x)]
    if t[0] == "cmp" and len(t[2]) == 2 and t[1][0] in ("is", "is not", "==", "!=") and ("const", None) in t[2]:
        return [x for x in t[2] if x != ("const", None)]
    return [t]


def _looked_on_every_path(r: Resolver, n, operand: Term) -> list[str]:
    """Path-sensitive fallback: with the collections of the loops that enclose `n` non-empty (the body runs only then), does every
    abstract execution from the entry to `n` evaluate a test that examines the operator?"""
    from ..guards import RoleEval, paths
    from .common import iter_base

    cfg = r.cfg
    colls = []
    for h in cfg.enclosing_loops(n):
        it = [q for q, _ in h.pred if q.kind == "iter"]
        if h.kind == "for" and it:
            colls.append(iter_base(r.term(h.ast.iter, it[0]))[0])  # type: ignore[union-attr]
    if not colls:
        return []

    def classify(t: Term, e):
        return "nonempty" if t in colls else None

    first = [s_ for s_, _ in cfg.entry.succ][0]
    try:
        ps = paths(cfg, first, RoleEval(r, classify), {"nonempty": True}, {n})
    except AnalysisError:
        return []
    seen: list[str] = []
    for pa in ps:
        if pa[-1] is not n:
            continue
        tests = [unparse(m.ast) for m in pa if m.kind == "test" and operand in _truth_atoms(r.term(m.ast, m))]  # type: ignore[arg-type]
        if not tests:
            return []
        seen.append(tests[0])
    return seen[:1]


def dereferences(check: Check) -> None:
    """C1-deref: on the processing path an optional operator is dereferenced only where a dominating condition has looked at it
    (the runtime check that is_ready anticipates) or a default operator stands in for a missing one."""
    from ..callgraph import CallGraph

    p = check.program
    cg = CallGraph(p)
    sites = 0
    for q in sorted(cg.reachable(["Engine.process"])):
        f = cg._fn.get(q)
        if f is None or f.is_abstract:
            continue
        if not any(isinstance(x, ast.Attribute) and (x.attr in OPERATOR_ATTRS or (isinstance(x.value, ast.Name) and x.value.id in OPERATOR_ATTRS))
                   for x in ast.walk(f.analysis_node)):
            continue
        r = Resolver(p, f)
        cfg = r.cfg
        for n, c in cfg.all_calls():
            if n.copy or not isinstance(c.func, ast.Attribute):
                continue
            recv = r.term(c.func.value, n)
            alts = list(recv[1]) if recv[0] == "phi" else [recv]
            for a in alts:
                kind = operator_of(a)
                if kind is None:
                    continue  # `op or Default()` / a conditional with a fallback is not a bare operator
                sites += 1
                check.analysed(f)
                looked = [unparse(g) for g, pol, gn in cfg.must_guards(n) if a in _truth_atoms(r.term(g, gn))]
                if not looked:
                    looked = _looked_on_every_path(r, n, a)
                check.require(bool(looked), "C1-deref", f"{q}/{kind}.{c.func.attr}",
                              f"`{unparse(c)[:50]}` runs only after `{looked[0][:50]}` has examined the {kind} operator" if looked else
                              f"`{unparse(c)[:60]}` uses the {kind} operator without any check and without a default: when the engine does not "
                              f"need a {kind} operator according to is_ready, processing fails here with AttributeError on None", loc(f, n))
    if not sites:
        raise AnalysisError("C1-deref: no use of an optional operator found on the processing path")
