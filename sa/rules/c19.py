"""C19 - An engine reported ready can be processed.

`Engine.is_ready` is interpreted abstractly (sa/absexec.py) on model engines - one rule block with two rules, a Mamdani and a
Takagi-Sugeno output - for every combination of {operator present, operator needed} (C1): the errors reported with a needed operator
missing must differ from those of the same engine with the operator present. The runtime sites that raise on a missing operator are
paired with it (C1-raise, C1-deref, P9), and the parsers of rule text separate tokens as the search of readiness presupposes (C1-tok).
"""

from __future__ import annotations

import ast
import itertools

from ..guards import RoleEval
from ..pm import AnalysisError, unparse
from ..report import Check
from ..sym import Resolver, Term, walk
from .common import iter_base, loc

EXPLANATION = (
    "static analysis of Engine.is_ready and of the runtime sites that raise on a missing operator: is_ready is interpreted abstractly on model "
    "engines (one rule block with two rules; a Mamdani output with an integral defuzzifier and a Takagi-Sugeno output with a weighted one) for all "
    "1024 combinations of `and` / `or` in the antecedent, conclusions per rule, and conjunction / disjunction / implication / aggregation / "
    "defuzzifier present or not; for each kind, the errors reported when the operator is needed and missing must differ from the errors for the same "
    "engine with the operator present, and the result must be `not errors`; the operators that reach "
    "the runtime tests are the block's own through the whole recursion over the antecedent (P9); every optional operator is examined before it is "
    "applied on every path (C1-deref); every parser of rule text separates tokens "
    "at any whitespace, as the ` and ` / ` or ` search of readiness in the space-normalised text presupposes (C1-tok)"
    "; C1 runs on seven antecedent shapes with their expression trees; C1-load - whatever Antecedent.load accepts (also over a variable without terms), Antecedent.activation_degree evaluates; the three operators reach the rules under every activation method (P2)"
)
ASSUMPTIONS = [
    "rules written with whitespace-separated tokens (property precondition); rule blocks have an activation method",
    "readiness concerns the five operator kinds of the property; other causes of exceptions are outside its quantifier",
]
FLOORS = {"H5": 1, "C1": 6, "C1-raise": 5, "C1-deref": 6, "P9": 7, "C1-tok": 6}

MARKERS = {
    "fuzzylite.rule.Rule.AND": "AND",
    "fuzzylite.rule.Rule.OR": "OR",
    "fuzzylite.defuzzifier.IntegralDefuzzifier": "Integral",
    "fuzzylite.defuzzifier.WeightedDefuzzifier": "Weighted",
}


def markers_in(t: Term) -> frozenset[str]:
    return frozenset(MARKERS[s[1]] for s in walk(t) if s[0] == "global" and s[1] in MARKERS)


def run(check: Check) -> None:
    p = check.program
    fn = p.func("Engine.is_ready")
    check.analysed(fn)
    # C1: decided by interpreting is_ready on model engines (the truth-table simulation of one loop iteration, the accumulation rule C1-acc
    # and the subject rule C1-subj of earlier rounds are subsumed by it and were removed)
    readiness_semantics(check)
    check.exhaustive_parts.append("is_ready on every combination of (needed, present) per operator kind over two rules and two outputs")
    runtime_sites(check)
    dereferences(check)
    from . import c16, wiring

    # the operators that reach the runtime "operator missing" tests are the block's own (a block that has the operator must not
    # meet a None on the way down the antecedent), and every parser of the rule text separates tokens the way readiness assumes
    from .antecedent_sem import antecedent_semantics

    antecedent_semantics(check, rule="P9")  # Antecedent.activation_degree interpreted on model expression trees with symbolic leaves
    from . import c08
    from .activation_sem import activation_semantics

    for cls in c08.ACTIVATIONS:  # a present operator must not be replaced by an absent one on the way to the rules (ready, then "operator missing")
        activation_semantics(check, cls, ("conjunction", "disjunction", "implication"))
    c16.tokenisers(check, rule="C1-tok")
    load_then_evaluate(check)
    wiring.p7_aggregated_membership(check)  # an output without activated terms (no rule fired) is still a fuzzy set: the fold has a seed
    from . import loaders

    loaders.loader(check, "Consequent.load")  # a consequent that fails to load leaves nothing loaded behind (ready, then `expected a term`)
    c16.load_atomicity(check, only="Consequent.load")
    from . import c13

    # what the readiness check inspected is what the next step computes with: processing writes values and activations, never configuration
    # (a defuzzifier that stores the type it inferred answers the next step with the type of the previous one - and raises on a term of another kind)
    c13.step_state(check, reads=False)


def runtime_sites(check: Check) -> None:
    """The runtime raise sites that readiness must anticipate (pairing table, informational + keyword agreement)."""
    p = check.program
    table = [
        ("conjunction", "Antecedent.activation_degree", ("param", "conjunction"), "AND"),
        ("disjunction", "Antecedent.activation_degree", ("param", "disjunction"), "OR"),
        ("implication", "Activated.membership", ("attr", ("param", "self"), "implication"), None),
        ("aggregation", "Aggregated.membership", ("attr", ("param", "self"), "aggregation"), None),
        ("defuzzifier", "OutputVariable.defuzzify", ("attr", ("param", "self"), "defuzzifier"), None),
    ]
    for kind, qual, operand, marker in table:
        fn = p.func(qual)
        check.analysed(fn)
        r = Resolver(p, fn)
        cfg = r.cfg
        found = None
        for n in cfg.stmt_nodes():
            if not isinstance(n.ast, ast.Raise):
                continue
            gs = [(r.term(g, gn), pol) for g, pol, gn in cfg.must_guards(n)]
            missing = any((t == ("unop", "not", operand) and pol) or (t == operand and not pol) or
                          (t[0] == "bool" and t[1] == "and" and ("unop", "not", operand) in t[2] and pol) for t, pol in gs)
            if not missing:
                continue
            if marker is not None:
                kw = any(pol and markers_in(t) == frozenset({marker}) and t[0] == "cmp" for t, pol in gs)
                if not kw:
                    continue
            found = n
            break
        if found is None:
            check.notes.append(f"no runtime raise for a missing {kind} found in {qual} (pairing not applicable)")
            check.ok("C1-raise", f"{qual}/{kind}", "no runtime raise site for this operator (nothing to anticipate)", loc(fn))
        else:
            check.ok("C1-raise", f"{qual}/{kind}", f"runtime raises when {kind} is missing"
                     + (f" under the `{marker.lower()}` connective" if marker else "") + "; anticipated by is_ready",
                     loc(fn, found))


OPERATOR_ATTRS = {"conjunction", "disjunction", "implication", "aggregation", "defuzzifier", "activation"}


def operator_of(t: Term) -> str | None:
    """The optional operator a receiver term denotes (self.aggregation, a parameter named conjunction, rule_block.implication...)."""
    if t[0] == "attr" and t[2] in OPERATOR_ATTRS:
        return t[2]
    if t[0] == "param" and t[1] in OPERATOR_ATTRS:
        return t[1]
    return None


def _truth_atoms(t: Term) -> list[Term]:
    """The values whose presence a condition examines: operands of not/and/or, and `x is None` / `x is not None` / `x == None`."""
    if t[0] == "unop" and t[1] == "not":
        return _truth_atoms(t[2])
    if t[0] == "bool":
        return [a for x in t[2] for a in _truth_atoms(x)]
    if t[0] == "cmp" and len(t[2]) == 2 and t[1][0] in ("is", "is not", "==", "!=") and ("const", None) in t[2]:
        return [x for x in t[2] if x != ("const", None)]
    return [t]


def _looked_on_every_path(r: Resolver, n, operand: Term) -> list[str]:
    """Path-sensitive fallback: with the collections of the loops that enclose `n` non-empty (the body runs only then), does every
    abstract execution from the entry to `n` evaluate a test that examines the operator?"""
    from ..guards import RoleEval, paths
    from .common import iter_base

    cfg = r.cfg
    colls = []
    for h in cfg.enclosing_loops(n):
        it = [q for q, _ in h.pred if q.kind == "iter"]
        if h.kind == "for" and it:
            colls.append(iter_base(r.term(h.ast.iter, it[0]))[0])  # type: ignore[union-attr]
    if not colls:
        return []

    def classify(t: Term, e):
        return "nonempty" if t in colls else None

    first = [s_ for s_, _ in cfg.entry.succ][0]
    try:
        ps = paths(cfg, first, RoleEval(r, classify), {"nonempty": True}, {n})
    except AnalysisError:
        return []
    seen: list[str] = []
    for pa in ps:
        if pa[-1] is not n:
            continue
        tests = [unparse(m.ast) for m in pa if m.kind == "test" and operand in _truth_atoms(r.term(m.ast, m))]  # type: ignore[arg-type]
        if not tests:
            return []
        seen.append(tests[0])
    return seen[:1]


def dereferences(check: Check) -> None:
    """C1-deref: on the processing path an optional operator is dereferenced only where a dominating condition has looked at it
    (the runtime check that is_ready anticipates) or a default operator stands in for a missing one."""
    from ..callgraph import CallGraph

    p = check.program
    cg = CallGraph(p)
    sites = 0
    for q in sorted(cg.reachable(["Engine.process"])):
        f = cg._fn.get(q)
        if f is None or f.is_abstract:
            continue
        if not any(isinstance(x, ast.Attribute) and (x.attr in OPERATOR_ATTRS or (isinstance(x.value, ast.Name) and x.value.id in OPERATOR_ATTRS))
                   for x in ast.walk(f.analysis_node)):
            continue
        r = Resolver(p, f)
        cfg = r.cfg
        for n, c in cfg.all_calls():
            if n.copy or not isinstance(c.func, ast.Attribute):
                continue
            recv = r.term(c.func.value, n)
            alts = list(recv[1]) if recv[0] == "phi" else [recv]
            for a in alts:
                kind = operator_of(a)
                if kind is None:
                    continue  # `op or Default()` / a conditional with a fallback is not a bare operator
                sites += 1
                check.analysed(f)
                looked = [unparse(g) for g, pol, gn in cfg.must_guards(n) if a in _truth_atoms(r.term(g, gn))]
                if not looked:
                    looked = _looked_on_every_path(r, n, a)
                check.require(bool(looked), "C1-deref", f"{q}/{kind}.{c.func.attr}",
                              f"`{unparse(c)[:50]}` runs only after `{looked[0][:50]}` has examined the {kind} operator" if looked else
                              f"`{unparse(c)[:60]}` uses the {kind} operator without any check and without a default: when the engine does not "
                              f"need a {kind} operator according to is_ready, processing fails here with AttributeError on None", loc(f, n))
    if not sites:
        raise AnalysisError("C1-deref: no use of an optional operator found on the processing path")


# ------------------------------------------------------------------------------------------------ C1 by interpretation
def readiness_semantics(check: Check) -> None:
    """C1 [E up to the bound]: `Engine.is_ready` interpreted abstractly (sa/absexec.py) on engines with one input variable, a Mamdani
    output (integral defuzzifier) and a Takagi-Sugeno output (weighted defuzzifier), and one rule block with two rules, for every
    combination of: `and` / `or` in the first rule's antecedent, the conclusions of each rule ([mamdani], [ts], [mamdani, ts],
    [ts, mamdani]), conjunction / disjunction / implication present or not, aggregation of the Mamdani output present or not, the
    defuzzifier of the second output present or not. Specified: errors are reported (and the engine is not ready) exactly when an
    operator that the rules / outputs need is missing - conjunction iff some antecedent contains ` and `, disjunction iff ` or `,
    implication iff some conclusion is about an output with an integral defuzzifier, aggregation iff the output has an integral
    defuzzifier, a defuzzifier always."""
    from ..absexec import AbsExec, FString, Internal, MObj, Raised, Unknown, _Return, freeze

    p = check.program
    fn = p.func("Engine.is_ready")
    check.analysed(fn)
    node = fn.analysis_node
    params = [a.arg for a in node.args.args]
    concl_sets = [("m",), ("t",), ("m", "t"), ("t", "m")]
    bad: dict[str, str] = {}
    spurious: dict[str, str] = {}
    results: dict[tuple, tuple] = {}
    cases = 0

    def contains(ex_, e, c, x):
        if c.cls == "Text":
            s_ = "".join(q for q in x.parts if isinstance(q, str)) if isinstance(x, FString) else x
            if isinstance(s_, str) and s_.strip() in ("and", "or") and s_ in (" and ", "and", " or ", "or"):
                return s_.strip() in c.fields["tokens"]
            raise Unknown(f"Engine.is_ready: searching the antecedent text for {s_!r} is outside the model")
        raise Unknown(f"Engine.is_ready: membership in {c.cls} is outside the model")

    def split(ex_, e, recv, args, kw):
        if isinstance(recv, MObj) and recv.cls == "Text":
            return list(recv.fields["tokens"])
        raise Unknown("Engine.is_ready: split of something that is not the antecedent text")

    hooks = {"contains": contains, "method:split": split, "method:is_loaded": lambda ex_, e, recv, args, kw: True,
             "method:count": lambda ex_, e, recv, args, kw: recv.fields["tokens"].count(args[0].strip()) if isinstance(recv, MObj) and recv.cls == "Text" and args and isinstance(args[0], str) else 0}
    # the antecedents of the first model rule: text and loaded expression tree (and binds tighter than or; parentheses override)
    P = lambda n_: MObj("Proposition", {"variable": None, "hedges": [], "term": None, "name": n_, "__bases__": ("Expression",)})  # noqa: E731
    O = lambda n_, l_, r_: MObj("Operator", {"name": n_, "left": l_, "right": r_, "__bases__": ("Expression",)})  # noqa: E731
    SHAPES = {
        "a": (["a"], lambda: P("a")),
        "a and b": (["a", "and", "b"], lambda: O("and", P("a"), P("b"))),
        "a or b": (["a", "or", "b"], lambda: O("or", P("a"), P("b"))),
        "a and b or c": (["a", "and", "b", "or", "c"], lambda: O("or", O("and", P("a"), P("b")), P("c"))),
        "a or b and c": (["a", "or", "b", "and", "c"], lambda: O("or", P("a"), O("and", P("b"), P("c")))),
        "a and ( b or c )": (["a", "and", "(", "b", "or", "c", ")"], lambda: O("and", P("a"), O("or", P("b"), P("c")))),
        "( a or b ) and c": (["(", "a", "or", "b", ")", "and", "c"], lambda: O("and", O("or", P("a"), P("b")), P("c"))),
    }
    helpers = {k: v for k, v in fn.cls.methods.items() if k.startswith("_") and not k.startswith("__")}
    rule_ns = MObj("class", {"AND": "and", "OR": "or", "IS": "is", "IF": "if", "THEN": "then", "WITH": "with"})
    try:
        for shape, c1, c2, conj, disj, impl, agg, dfz, off in itertools.product(list(SHAPES), concl_sets, concl_sets[:2], (True, False), (True, False),
                                                                                (True, False), (True, False), (True, False), (False, True)):
            cases += 1
            has_and, has_or = "and" in SHAPES[shape][0], "or" in SHAPES[shape][0]
            term = MObj("Term", {"name": "t"})
            integral = MObj("Centroid", {"__bases__": ("IntegralDefuzzifier", "Defuzzifier")})
            weighted = MObj("WeightedAverage", {"__bases__": ("WeightedDefuzzifier", "Defuzzifier")})
            ov_m = MObj("OutputVariable", {"name": "mamdani", "terms": [term], "__len__": 1, "defuzzifier": integral, "aggregation": MObj("Maximum", {}) if agg else None,
                                           "enabled": True, "__bases__": ("Variable",)})
            ov_t = MObj("OutputVariable", {"name": "sugeno", "terms": [term], "__len__": 1, "defuzzifier": weighted if dfz else None, "aggregation": None, "enabled": True,
                                           "__bases__": ("Variable",)})
            iv = MObj("InputVariable", {"name": "in", "terms": [term], "__len__": 1, "enabled": True, "__bases__": ("Variable",)})
            by = {"m": ov_m, "t": ov_t}

            def mk_rule(shape_: str, concl: tuple, enabled: bool = True) -> MObj:
                return MObj("Rule", {"antecedent": MObj("Antecedent", {"text": MObj("Text", {"tokens": SHAPES[shape_][0], "__bool__": True}), "expression": SHAPES[shape_][1]()}),
                                     "consequent": MObj("Consequent", {"conclusions": [MObj("Proposition", {"variable": by[k], "hedges": [], "term": term}) for k in concl]}),
                                     "enabled": enabled, "weight": 1.0})

            # a disabled rule is still loaded: every activation method computes its degree (and needs the connectives' operators); only its
            # conclusions are never applied, so it does not need the implication
            rules = [mk_rule(shape, c1, not off), mk_rule("a", c2)]
            rb = MObj("RuleBlock", {"name": "block", "rules": rules, "__len__": 2, "enabled": True, "conjunction": MObj("Minimum", {}) if conj else None,
                                    "disjunction": MObj("Maximum", {}) if disj else None, "implication": MObj("Minimum", {}) if impl else None,
                                    "activation": MObj("General", {})})
            engine = MObj("Engine", {"name": "engine", "input_variables": [iv], "output_variables": [ov_m, ov_t], "rule_blocks": [rb]})
            errors: list = []
            ex = AbsExec(fn.qualname, hooks, helpers=helpers)
            ex.globals = {"Rule": rule_ns, "IntegralDefuzzifier": ("class", "IntegralDefuzzifier"), "WeightedDefuzzifier": ("class", "WeightedDefuzzifier"),
                          "OutputVariable": ("class", "OutputVariable"), "InputVariable": ("class", "InputVariable"), "Variable": ("class", "Variable"),
                          "Operator": ("class", "Operator"), "Proposition": ("class", "Proposition"), "Expression": ("class", "Expression")}
            env = {params[0]: engine, params[1] if len(params) > 1 else "errors": errors}
            try:
                ex.block(list(node.body), env)
                ret = None
            except _Return as r_:
                ret = r_.value
            except (Raised, Internal) as err:
                bad.setdefault("raises", f"is_ready raises {err.cls}")
                continue
            need = {"conjunction": has_and and not conj, "disjunction": has_or and not disj,
                    "implication": (("m" in c1 and not off) or "m" in c2) and not impl, "aggregation": not agg, "defuzzifier": not dfz}
            what = (f"first rule{' (disabled)' if off else ''} `if {shape} then ...`, conclusions {list(c1)} / {list(c2)}; present: conjunction={conj}, "
                    f"disjunction={disj}, implication={impl}, aggregation={agg}, defuzzifier={dfz}")
            if ret is not (not errors):
                bad.setdefault("result", f"{what}: is_ready returns {ret} with {len(errors)} error(s) reported")
            if not any(need.values()) and errors:
                spurious.setdefault("spurious", f"{what}: nothing that is needed is missing, but {len(errors)} error(s) are reported")
            results[(shape, c1, c2, conj, disj, impl, agg, dfz, off)] = (sorted(repr(freeze(x)) for x in errors), need, what)
        # every missing operator is reported: the errors with the operator missing differ from those of the same engine with the operator present
        position = {"conjunction": 3, "disjunction": 4, "implication": 5, "aggregation": 6, "defuzzifier": 7}
        for cfg, (errs, need, what) in results.items():
            for kind, missing in need.items():
                if not missing or kind in bad:
                    continue
                fixed = results.get(cfg[:position[kind]] + (True,) + cfg[position[kind] + 1:])
                if fixed is not None and (fixed[0] == errs or len(errs) < len(fixed[0])):
                    bad[kind] = (f"{what}: the missing {kind} operator is needed, but the errors reported ({len(errs)}) are the same as for the same engine with the operator "
                                 "present: the missing operator is not reported" + (" (the engine counts as ready)" if not errs else ""))
    except Unknown as u:
        raise AnalysisError(str(u)) from None
    for kind in ("conjunction", "disjunction", "implication", "aggregation", "defuzzifier"):
        hit = bad.get(kind)
        check.require(hit is None, "C1", f"Engine.is_ready/{kind}", f"a missing {kind} is reported whenever it is needed ({cases} engine configurations)" if hit is None else hit,
                      loc(fn), {"cases": cases}, exhaustive=True, cases=cases)
    hit = bad.get("result") or bad.get("raises")
    check.require(hit is None, "C1", "Engine.is_ready/result", "the engine is reported ready exactly when no error was found" if hit is None else hit,
                  loc(fn), {"cases": cases}, exhaustive=True, cases=cases)
    # not demanded by the property (an engine that is never reported ready satisfies it vacuously), recorded for the reader only
    check.ok("C1-note", "Engine.is_ready/no-spurious-errors", spurious.get("spurious") or "nothing is reported when nothing needed is missing", loc(fn), {"cases": cases})


def load_then_evaluate(check: Check, rule: str = "C1-load") -> None:
    """C1-load [E on the model texts]: whatever `Antecedent.load` accepts, `Antecedent.activation_degree` evaluates. Both are interpreted
    (sa/absexec.py): the loader on concrete antecedents over an engine with an ordinary variable A (one term) and a variable C *without terms*
    (an object with `__len__` 0: falsy, yet a variable readiness tolerates), the evaluator on the tree the loader built. A text the loader rejects
    is fine (the rule stays unloaded and is skipped); a text it accepts whose evaluation raises is an engine reported ready that cannot be
    processed."""
    from ..absexec import AbsExec, Internal, Logger, MObj, Raised, Unknown, _Return
    from .antecedent_sem import interpret_degree

    p = check.program
    load = p.func("Antecedent.load")
    deg = p.func("Antecedent.activation_degree")
    check.analysed(load)
    check.analysed(deg)
    node = load.node
    params = [a.arg for a in node.args.args]
    texts = [("A is tA", "A is tA"), ("A is any", "A is any"), ("C is any", "C is any"), ("C is not any", "C is not any"), ("A is tA and C is any", "A is tA C is any and"),
             ("C is any or A is tA", "C is any A is tA or")]
    bad = None
    accepted = rejected = 0
    try:
        for infix, postfix in texts:
            term = MObj("Term", {"name": "tA", "__bool__": True})
            va = MObj("InputVariable", {"name": "A", "enabled": True, "value": 0.5, "terms": [term], "__len__": 1, "__bases__": ("Variable",)})
            vc = MObj("InputVariable", {"name": "C", "enabled": True, "value": 0.5, "terms": [], "__len__": 0, "__bases__": ("Variable",)})
            engine = MObj("Engine", {"variables": [va, vc], "input_variables": [va, vc], "output_variables": [], "__bool__": True})
            factory = MObj("HedgeFactory", {})
            hedges = {"any": MObj("Any", {"name": "any", "__bases__": ("Hedge",), "__bool__": True}), "not": MObj("Not", {"name": "not", "__bases__": ("Hedge",), "__bool__": True})}

            def new_prop(ex_, e, args, kw):
                f = {"variable": None, "hedges": [], "term": None}
                for k, v in zip(["variable", "hedges", "term"], args):
                    f[k] = v
                f.update(kw)
                f["hedges"] = list(f["hedges"] or [])
                return MObj("Proposition", {**f, "__bases__": ("Expression",), "__bool__": True, "spec": ("?", (), "")})

            def new_op(ex_, e, args, kw):
                f = {"name": "", "right": None, "left": None}
                for k, v in zip(["name", "right", "left"], args):
                    f[k] = v
                f.update(kw)
                return MObj("Operator", {**f, "__bases__": ("Expression",), "__bool__": True})

            hooks = {"contains": lambda ex_, e, c, x: c is factory and x in hedges,
                     "method:construct": lambda ex_, e, recv, args, kw: hedges[args[0]] if recv is factory and args and args[0] in hedges else (_ for _ in ()).throw(Raised("ValueError", e)),
                     "method:infix_to_postfix": lambda ex_, e, recv, args, kw: postfix, "method:debug": lambda *a: None, "method:info": lambda *a: None}

            def lookup(ex_, e, recv, args, kw=None, engine=engine):
                name_ = args[0] if isinstance(args, list) else args
                for v_ in engine.fields["variables"]:
                    if v_.fields["name"] == name_:
                        return v_
                raise Raised("ValueError", e)

            hooks.update({"subscript": lambda ex_, e, base, idx: lookup(ex_, e, base, [idx]), "method:variable": lookup, "method:input_variable": lookup})
            ex = AbsExec(load.qualname, hooks, helpers={k: v for k, v in load.cls.methods.items() if k in ("unload",) or (k.startswith("_") and not k.startswith("__"))})
            ex.concrete_strings = True
            me = MObj("Antecedent", {"text": infix, "expression": None})
            settings = MObj("Settings", {"factory_manager": MObj("FactoryManager", {"hedge": factory}), "logger": Logger(), "debugging": False})
            env = {params[0]: me, params[1]: engine, "Proposition": new_prop, "Operator": new_op, "settings": settings,
                   "Rule": MObj("class", {"IS": "is", "AND": "and", "OR": "or", "IF": "if", "THEN": "then", "WITH": "with"}), "Function": Opaque_("Function"),
                   "Any": ("class", "Any"), "Hedge": ("class", "Hedge"), "Variable": ("class", "Variable"), "InputVariable": ("class", "InputVariable"),
                   "OutputVariable": ("class", "OutputVariable")}
            body = [st for st in node.body if not (isinstance(st, ast.ImportFrom) and any(a.name in ("Rule", "Proposition", "Operator", "Any", "settings", "Function") for a in st.names))]
            try:
                ex.block(body, env)
            except _Return:
                pass
            except Raised:
                rejected += 1
                continue
            except Internal as err:
                bad = bad or f"`if {infix} then ...`: loading ends with an internal {err.cls}"
                continue
            tree = me.fields.get("expression")
            if not isinstance(tree, MObj):
                rejected += 1
                continue
            accepted += 1
            got = interpret_degree(deg, tree, True, True)
            if isinstance(got, str):
                bad = bad or (f"`if {infix} then ...` (C is a variable without terms) is accepted by Antecedent.load, but evaluating the loaded antecedent ends with {got.lstrip('!')}: "
                              "the rule counts as loaded, readiness reports no error, and process() raises")
    except Unknown as u:
        raise AnalysisError(str(u)) from None
    if accepted < 2:
        raise AnalysisError(f"{rule}: the loader accepted {accepted} of the model antecedents (the ordinary ones must load)")
    check.require(bad is None, rule, "Antecedent.load~activation_degree/loadable-is-evaluable",
                  f"every model antecedent the loader accepts is evaluated without an exception ({accepted} accepted, {rejected} rejected at load)" if bad is None else bad,
                  loc(load), {"accepted": accepted, "rejected": rejected}, exhaustive=True, cases=len(texts))


def Opaque_(what: str):  # type: ignore[no-untyped-def]
    from ..absexec import Opaque

    return Opaque(what)
