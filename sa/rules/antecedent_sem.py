"""AD-sem: `Antecedent.activation_degree` interpreted on model expression trees (C06; shared with C01 and C19).

The method is interpreted by sa/absexec.py on trees of model propositions and operators with symbolic leaves: the membership of an
input variable's value, the aggregated activation of an output variable's term, the hedges and the block's conjunction / disjunction
are uninterpreted functions (`any` is the constant ONE whatever it is given - that is C05's subject). The value returned is a symbolic
term, compared with the reading of the tree the property statement gives:

  proposition   0 when its variable is disabled; ONE under the hedges outside `any` when the last hedge is `any`; otherwise the
                membership of the variable's value (input) / the aggregated activation of the term (output) under the hedges, the one
                nearest the term first
  operator      conjunction(left, right) for `and`, disjunction(left, right) for `or`, with the operators handed in; a ValueError when
                the operator needed is missing

Trees: every proposition shape (input / output variable, enabled or not, hedges (), (very), (not very), (any), (not any)) alone, every
pair under `and` / `or`, and the nested trees ((p and q) or r), (p or (q and r)), ((p or q) and r); conjunction / disjunction present or not.
"""

from __future__ import annotations

import itertools
from typing import Any

from ..absexec import AbsExec, App, Closure, Decisions, Internal, MObj, Opaque, Raised, Sym, SymModule, Unknown, _Return, freeze
from ..pm import AnalysisError
from ..report import Check
from .common import loc

ONE = App("one", ())
HEDGE_SETS = [(), ("very",), ("not", "very"), ("any",), ("not", "any")]


def _hedge(name: str) -> MObj:
    return MObj("Any" if name == "any" else name.capitalize(), {"name": name, "__bases__": ("Hedge",)})


class Model:
    def __init__(self, en_i: bool, en_o: bool):
        self.vars = {
            "I": MObj("InputVariable", {"name": "I", "enabled": en_i, "value": Sym("value(I)"), "__bool__": True, "__bases__": ("Variable",)}),
            "O": MObj("OutputVariable", {"name": "O", "enabled": en_o, "value": Sym("stale value(O)"), "fuzzy": MObj("Aggregated", {"name": "O"}), "__bool__": True,
                                         "__bases__": ("Variable",)}),
        }
        self.n = 0

    def prop(self, var: str, hedges: tuple, with_term: bool = True) -> MObj:
        self.n += 1
        term = MObj("Term", {"name": f"t{self.n}", "__bool__": True}) if with_term else None
        return MObj("Proposition", {"variable": self.vars[var], "hedges": [_hedge(h) for h in hedges], "term": term, "__bool__": True, "__bases__": ("Expression",),
                                    "spec": (var, hedges, term.fields["name"] if term is not None else "")})

    @staticmethod
    def op(name: str, left: MObj, right: MObj) -> MObj:
        return MObj("Operator", {"name": name, "left": left, "right": right, "__bool__": True, "__bases__": ("Expression",)})


def expected(node: MObj, m: Model, conj: bool, disj: bool) -> Any:
    """The value the statement gives the tree (a symbolic term), or the name of the exception it is rejected with."""
    if node.cls == "Proposition":
        var, hedges, tname = node.fields["spec"]
        if not m.vars[var].fields["enabled"]:
            return 0.0
        if hedges and hedges[-1] == "any":
            v: Any = ONE
            for h in reversed(hedges[:-1]):
                v = App(f"hedge:{h}", (v,))
            return v
        v = App("mu", (tname, freeze(m.vars[var].fields["value"]))) if var == "I" else App("act", (tname,))
        for h in reversed(hedges):
            v = App(f"hedge:{h}", (v,))
        return v
    need = conj if node.fields["name"] == "and" else disj
    if not need:
        return "ValueError"
    left, right = expected(node.fields["left"], m, conj, disj), expected(node.fields["right"], m, conj, disj)
    for x in (left, right):
        if isinstance(x, str):
            return x
    return App("conjunction" if node.fields["name"] == "and" else "disjunction", (freeze(left), freeze(right)))


def show(t: Any) -> str:
    if isinstance(t, App):
        name = t.fn.split(":")[-1]
        if name == "one":
            return "1"
        return f"{name}({', '.join(show(a) for a in t.args)})"
    if isinstance(t, Sym):
        return t.name
    return str(t)


def describe(node: MObj) -> str:
    if node.cls == "Proposition":
        var, hedges, tname = node.fields["spec"]
        en = node.fields["variable"].fields["enabled"]
        return f"{var}{'' if en else ' (disabled)'} is {' '.join(hedges)}{' ' if hedges and tname else ''}{tname}"
    return f"({describe(node.fields['left'])} {node.fields['name']} {describe(node.fields['right'])})"


def interpret_degree(fn: Any, tree: MObj, conj: bool, disj: bool, decide: Any = None) -> Any:
    """`Antecedent.activation_degree(conjunction, disjunction)` interpreted on the antecedent whose expression is `tree`: the symbolic value returned,
    or the name of the exception it ends with (internal errors prefixed with `!`)."""
    node = fn.node
    params = [a.arg for a in node.args.args]
    c_op = MObj("TNorm", {"name": "conjunction", "__bool__": True}) if conj else None
    d_op = MObj("SNorm", {"name": "disjunction", "__bool__": True}) if disj else None
    me = MObj("Antecedent", {"expression": tree, "text": "text"})

    def activation_degree(ex_: AbsExec, e: Any, recv: Any, args: list, kw: dict) -> Any:
        if isinstance(recv, MObj) and recv.cls == "Aggregated":
            t = args[0] if args else kw.get("term")
            return App("act", (t.fields["name"],)) if isinstance(t, MObj) else (_ for _ in ()).throw(Unknown("activation_degree of something that is not a term"))
        if isinstance(recv, MObj) and recv.cls == "Antecedent":
            return ex_.call_closure(Closure(node, {}), [recv] + list(args), kw, e)
        raise Unknown("Antecedent.activation_degree: activation_degree() of an unexpected object")

    def membership(ex_: AbsExec, e: Any, recv: Any, args: list, kw: dict) -> Any:
        if isinstance(recv, MObj) and recv.cls == "Term":
            return App("mu", (recv.fields["name"], freeze(args[0])))
        raise Unknown("Antecedent.activation_degree: membership() of something that is not the proposition's term")

    def hedge(ex_: AbsExec, e: Any, recv: Any, args: list, kw: dict) -> Any:
        if not (isinstance(recv, MObj) and "Hedge" in recv.fields.get("__bases__", ())):
            raise Unknown("hedge() of something that is not a hedge")
        return ONE if recv.cls == "Any" else App(f"hedge:{recv.fields['name']}", (freeze(args[0]),))

    def compute(ex_: AbsExec, e: Any, recv: Any, args: list, kw: dict) -> Any:
        if recv is c_op or recv is d_op:
            return App(recv.fields["name"], (freeze(args[0]), freeze(args[1])))
        raise Unknown("compute() of something that is not the conjunction / disjunction handed in")

    hooks = {"method:activation_degree": activation_degree, "method:membership": membership, "method:hedge": hedge, "method:compute": compute,
             **({"decide": decide} if decide is not None else {})}
    ex = AbsExec(fn.qualname, hooks, helpers={k: v for k, v in fn.cls.methods.items() if k not in ("activation_degree", "load", "unload", "__init__")})
    ex.globals = {"Proposition": ("class", "Proposition"), "Operator": ("class", "Operator"), "InputVariable": ("class", "InputVariable"),
                  "OutputVariable": ("class", "OutputVariable"), "Any": ("class", "Any"), "Rule": MObj("class", {"AND": "and", "OR": "or"}),
                  "scalar": lambda ex_, e, args, kw: args[0], "array": lambda ex_, e, args, kw: args[0], "nan": float("nan"), "np": SymModule("np", (("nan", float("nan")), ("inf", float("inf")))),
                  "Expression": ("class", "Expression"), "Variable": ("class", "Variable"), "Hedge": ("class", "Hedge")}
    try:
        got: Any = None
        try:
            ex.block(list(node.body), {params[0]: me, params[1]: c_op, params[2]: d_op, params[3]: None})
        except _Return as r_:
            got = r_.value
    except Raised as err:
        got = err.cls
    except Internal as err:
        got = "!" + err.cls + (f" ({err.why})" if getattr(err, "why", "") else "")
    return got


def antecedent_semantics(check: Check, rule: str = "AD-sem", aspects: tuple[str, ...] = ("proposition", "hedges", "any", "disabled", "connectives", "missing-operator",
                                                                                         "no-internal-error")) -> None:
    p = check.program
    fn = p.func("Antecedent.activation_degree")
    check.analysed(fn)
    node = fn.node
    params = [a.arg for a in node.args.args]
    if len(params) < 4:
        raise AnalysisError("Antecedent.activation_degree: expected (self, conjunction, disjunction, node)")
    bad: dict[str, str] = {}
    cases = 0

    def trees(m: Model):  # type: ignore[no-untyped-def]
        shapes = [(v, h) for v in ("I", "O") for h in HEDGE_SETS]
        for v, h in shapes:
            yield m.prop(v, h)
            if h and h[-1] == "any":
                yield m.prop(v, h, with_term=False)  # `variable is any`: the grammar has no term there
        few = [("I", ()), ("O", ("not", "very")), ("I", ("any",)), ("O", ())]
        for (a, b), name in itertools.product(itertools.product(few, repeat=2), ("and", "or")):
            yield Model.op(name, m.prop(*a), m.prop(*b))
        p_, q_, r_ = ("I", ("very",)), ("O", ()), ("I", ("not", "very"))
        yield Model.op("or", Model.op("and", m.prop(*p_), m.prop(*q_)), m.prop(*r_))
        yield Model.op("or", m.prop(*p_), Model.op("and", m.prop(*q_), m.prop(*r_)))
        yield Model.op("and", Model.op("or", m.prop(*p_), m.prop(*q_)), m.prop(*r_))

    def run_one(decide: Any, tree: MObj, m: Model, conj: bool, disj: bool) -> None:
        what = f"`{describe(tree)}`" + ("" if conj else ", no conjunction operator") + ("" if disj else ", no disjunction operator")
        got = interpret_degree(fn, tree, conj, disj, decide)
        want = expected(tree, m, conj, disj)
        g, w = freeze(got), freeze(want)
        same = g == w or (isinstance(g, float) and isinstance(w, float) and g == w)
        if same:
            return
        # attribute the disagreement
        if tree.cls == "Operator":
            key = "missing-operator" if isinstance(w, str) or (isinstance(g, str) and not g.startswith("!")) else "connectives"
        else:
            var, hedges, _ = tree.fields["spec"]
            key = "disabled" if not m.vars[var].fields["enabled"] else ("any" if hedges and hedges[-1] == "any" else ("hedges" if hedges else "proposition"))
        if isinstance(g, str) and g.startswith("!"):
            bad.setdefault("no-internal-error", f"{what}: the method ends with {g[1:]}")
            bad.setdefault(key, f"{what}: the method ends with {g[1:]}, specified `{show(want)}`")
        else:
            bad.setdefault(key, f"{what}: the activation degree is `{show(got)}`, specified `{show(want)}`")

    try:
        for en_i, en_o in itertools.product((True, False), repeat=2):
            for conj, disj in itertools.product((True, False), repeat=2):
                m = Model(en_i, en_o)
                for tree in trees(m):
                    if tree.cls == "Proposition" and not (conj and disj):
                        continue  # the operators do not matter for a single proposition
                    cases += 1
                    Decisions().explore(lambda decide, tree=tree, m=m, conj=conj, disj=disj: run_one(decide, tree, m, conj, disj))
    except Unknown as u:
        raise AnalysisError(str(u)) from None
    texts = {
        "proposition": "a proposition is the membership of an input variable's current value / the aggregated activation of an output variable's term",
        "hedges": "hedges apply from the one nearest the term outwards",
        "any": "`any` yields 1 (under the hedges written before it)",
        "disabled": "a disabled variable yields 0",
        "connectives": "`and` / `or` nodes are the conjunction / disjunction handed in, applied to (left, right)",
        "missing-operator": "a missing conjunction / disjunction operator is a ValueError exactly when a node needs it",
        "no-internal-error": "the method ends without an exception of its own",
    }
    for aspect in aspects:
        hit = bad.get(aspect)
        check.require(hit is None, rule, f"Antecedent.activation_degree/{aspect}", f"{texts[aspect]} ({cases} model trees x settings)" if hit is None else hit, loc(fn),
                      {"cases": cases}, exhaustive=True, cases=cases)
