"""Helpers shared by the rule sets."""

from __future__ import annotations

import ast
from typing import Any, Callable, Iterable

from ..cfg import CFG, Node, cfg_of
from ..pm import AnalysisError, FunctionInfo, Program, dotted, unparse
from ..sym import Resolver, Term, path_of, show, walk

ARRAY_WRAPPERS = {
    "fuzzylite.library.scalar", "fuzzylite.library.array", "numpy.array", "numpy.asarray", "numpy.atleast_1d",
    "numpy.atleast_2d", "numpy.asanyarray", "float", "numpy.float64",
}
ITER_WRAPPERS = {"iter", "list", "tuple", "enumerate"}


def strip(t: Term, wrappers: set[str] = ARRAY_WRAPPERS) -> Term:
    """See through value-preserving wrappers such as scalar(x), np.atleast_2d(x)."""
    while True:
        if t[0] == "call" and t[1][0] == "global" and t[1][1] in wrappers and len(t[2]) >= 1:
            t = t[2][0]
        elif t[0] == "attr" and t[2] == "T":
            t = t[1]
        elif t[0] == "call" and t[1][0] == "attr" and t[1][2] in ("squeeze", "copy", "astype") :
            t = t[1][1]
        else:
            return t


def iter_base(t: Term) -> tuple[Term, str]:
    """Return (underlying collection, direction) of an iterable term; direction in {forward, reverse}."""
    direction = "forward"
    while True:
        if t[0] == "call" and t[1][0] == "global" and t[1][1] in ITER_WRAPPERS and t[2]:
            t = t[2][0]
        elif t[0] == "call" and t[1] == ("global", "reversed") and t[2]:
            direction = "reverse" if direction == "forward" else "forward"
            t = t[2][0]
        elif t[0] == "call" and t[1] == ("global", "range") and len(t[2]) == 1 and t[2][0][0] == "call" and t[2][0][1] == ("global", "len") and len(t[2][0][2]) == 1:
            t = t[2][0][2][0]  # an index loop over the collection
        elif t[0] == "sub" and t[2][0] == "slice" and t[2][1:] == (("const", None), ("const", None), ("unop", "-", ("const", 1))):
            direction = "reverse" if direction == "forward" else "forward"
            t = t[1]
        elif t[0] == "sub" and t[2][0] == "slice" and t[2][1:] == (("const", None), ("const", None), ("const", None)):
            t = t[1]
        else:
            return t, direction


def is_path(t: Term, path: str) -> bool:
    return path_of(t) == path


def loops_over(r: Resolver, want: Callable[[Term], bool]) -> list[tuple[Node, Term, str]]:
    """For-loops of r's function whose underlying iterable satisfies `want`: [(head, base, direction)]."""
    out = []
    for h in r.cfg.loop_heads():
        if h.kind != "for":
            continue
        it_nodes = [p for p, _ in h.pred if p.kind == "iter"]
        if not it_nodes:
            continue
        t = r.term(h.ast.iter, it_nodes[0])  # type: ignore[union-attr]
        base, direction = iter_base(t)
        if want(base):
            out.append((h, base, direction))
    return out


def body_entry(head: Node) -> Node:
    for s, l in head.succ:
        if l in ("iter", "true"):
            return s
    raise AnalysisError(f"loop at line {head.lineno} has no body")


def iter_precedes(cfg: CFG, head: Node, guards: Iterable[Node], target: Node) -> bool:
    """Within one iteration of `head`, every path from the body entry to `target` passes a node in `guards`."""
    g = set(guards)
    if target in g:
        return True
    body = cfg.loop_body(head)
    start = body_entry(head)
    if start in g:
        return True
    seen = {start}
    work = [start]
    while work:
        n = work.pop()
        if n is target:
            return False
        for s, _ in n.succ:
            if s is head or s not in body or s in g or s in seen:
                continue
            seen.add(s)
            work.append(s)
    return True


def method_calls_on(r: Resolver, receiver_ok: Callable[[Term], bool], method: str, within: set[Node] | None = None
                    ) -> list[tuple[Node, ast.Call, Term]]:
    """Calls `<recv>.method(...)` whose resolved receiver satisfies receiver_ok."""
    out = []
    for n, c in r.cfg.all_calls():
        if within is not None and n not in within:
            continue
        if isinstance(c.func, ast.Attribute) and c.func.attr == method:
            recv = r.term(c.func.value, n)
            if receiver_ok(recv):
                out.append((n, c, r.term(c, n)))
    return out


def cmp_normal(t: Term) -> tuple[Term, str, Term] | None:
    """(lhs, op, rhs) of a single comparison, after stripping array wrappers."""
    t = strip(t)
    if t[0] == "cmp" and len(t[1]) == 1:
        return strip(t[2][0]), t[1][0], strip(t[2][1])
    return None


def const_value(t: Term):
    t = strip(t)
    if t[0] == "const":
        return t[1]
    if t[0] == "unop" and t[1] == "-" and t[2][0] == "const" and isinstance(t[2][1], (int, float)):
        return -t[2][1]
    if t[0] == "global" and t[1] in ("fuzzylite.library.nan", "numpy.nan", "math.nan"):
        return float("nan")
    if t[0] == "global" and t[1] in ("fuzzylite.library.inf", "numpy.inf", "math.inf"):
        return float("inf")
    return None


def attr_stores(cfg: CFG, base_ok: Callable[[ast.AST], bool] | None = None) -> list[tuple[Node, ast.Attribute]]:
    out = []
    for n in cfg.stmt_nodes():
        if n.copy:
            continue
        for t in cfg.stores_at(n):
            if isinstance(t, ast.Attribute) and (base_ok is None or base_ok(t.value)):
                out.append((n, t))
    return out


def self_attr_stores(cfg: CFG) -> list[tuple[Node, str]]:
    return [(n, t.attr) for n, t in attr_stores(cfg, lambda b: isinstance(b, ast.Name) and b.id == "self")]


def assigned_value(n: Node) -> ast.AST | None:
    a = n.ast
    if isinstance(a, (ast.Assign, ast.AnnAssign, ast.AugAssign)):
        return a.value
    return None


def returns(cfg: CFG) -> list[tuple[Node, ast.AST | None]]:
    return [(n, n.ast.value) for n in cfg.stmt_nodes() if isinstance(n.ast, ast.Return) and not n.copy]


def loc(fn: FunctionInfo, n: Node | ast.AST | None = None) -> str:
    line = getattr(n, "lineno", None) or fn.lineno
    return f"{fn.file}:{line}"


def early_exits(cfg: CFG, head: Node) -> list[Node]:
    """Statements that leave the loop of `head` before all elements are visited: break / return inside the loop
    (raising is not an early exit: it aborts the whole operation)."""
    out = []
    for n in cfg.lexical_body(head):
        if n.kind == "stmt" and isinstance(n.ast, (ast.Break, ast.Return)):
            # a break of an inner loop is not an exit of this one
            inner = [h for h in cfg.loop_heads() if h is not head and n in cfg.lexical_body(h) and h in cfg.lexical_body(head)]
            if isinstance(n.ast, ast.Break) and inner:
                continue
            out.append(n)
    return out


MEMO_DECORATORS = {"lru_cache", "cache", "cached_property", "memoize", "memoized", "cached"}


def scan_memoisation(tree: ast.Module, settings_readers: set[str] | None = None) -> list[tuple[int, str, str]]:
    """Functions wrapped by a memoising decorator that read attributes of their arguments (mutable state) or the library's settings - directly or
    through a library function that does (`settings_readers`: qualified names such as `Operation.str`, `scalar`): (line, name, decorator)."""
    out = []
    settings_readers = settings_readers or set()
    for f in ast.walk(tree):
        if not isinstance(f, (ast.FunctionDef, ast.AsyncFunctionDef)):
            continue
        for d in f.decorator_list:
            target = d.func if isinstance(d, ast.Call) else d
            name = dotted(target) or ""
            if name.split(".")[-1] in MEMO_DECORATORS:
                params = {a.arg for a in f.args.posonlyargs + f.args.args + f.args.kwonlyargs}
                reads = sorted({f"{x.value.id}.{x.attr}" for x in ast.walk(f) if isinstance(x, ast.Attribute) and isinstance(x.value, ast.Name)
                                and x.value.id in params and isinstance(x.ctx, ast.Load) and not x.attr.startswith("__")})
                calls = sorted({f"{x.func.value.id}.{x.func.attr}()" for x in ast.walk(f) if isinstance(x, ast.Call) and isinstance(x.func, ast.Attribute)
                                and isinstance(x.func.value, ast.Name) and x.func.value.id in params})
                glob = sorted({f"settings.{x.attr}" for x in ast.walk(f) if isinstance(x, ast.Attribute) and isinstance(x.value, ast.Name) and x.value.id == "settings"
                               and isinstance(x.ctx, ast.Load)})
                for x in ast.walk(f):
                    if isinstance(x, ast.Call):
                        if isinstance(x.func, ast.Attribute) and isinstance(x.func.value, ast.Name) and x.func.value.id in ("Op", "Operation") and \
                                f"Operation.{x.func.attr}" in settings_readers:
                            glob.append(f"Op.{x.func.attr}() -> settings")
                        elif isinstance(x.func, ast.Name) and x.func.id in settings_readers:
                            glob.append(f"{x.func.id}() -> settings")
                if reads or calls or glob:
                    out.append((f.lineno, f.name, f"@{name} over state {reads[:3] or calls[:3] or sorted(set(glob))[:3]}"))
                    continue
                # a memoised function that builds an array / list / dict hands the *same* object to every caller with equal arguments: whoever writes into
                # what it was given (in place scaling of a grid) changes what everybody else - the library included - gets from then on
                assigned: dict[str, ast.AST] = {}
                for x in ast.walk(f):
                    if isinstance(x, ast.Assign) and len(x.targets) == 1 and isinstance(x.targets[0], ast.Name):
                        assigned[x.targets[0].id] = x.value

                def mutable(v: ast.AST, depth: int = 0) -> str | None:
                    if isinstance(v, (ast.List, ast.Dict, ast.Set, ast.ListComp, ast.DictComp, ast.SetComp)):
                        return "a new container"
                    if isinstance(v, ast.Call):
                        fn_ = dotted(v.func) or ""
                        if fn_.split(".")[0] in ("np", "numpy") or fn_ in ("array", "scalar", "list", "dict", "set"):
                            return f"the result of {fn_}()"
                        if isinstance(v.func, ast.Attribute) and v.func.attr in ("reshape", "ravel", "squeeze", "transpose", "astype", "copy", "flatten", "view"):
                            return mutable(v.func.value, depth + 1)
                    if isinstance(v, ast.Attribute) and v.attr == "T":
                        return mutable(v.value, depth + 1)
                    if isinstance(v, ast.BinOp):
                        return mutable(v.left, depth + 1) or mutable(v.right, depth + 1)
                    if isinstance(v, ast.Name) and v.id in assigned and depth < 4:
                        return mutable(assigned[v.id], depth + 1)
                    return None

                kinds = [m for x in ast.walk(f) if isinstance(x, ast.Return) and x.value is not None for m in [mutable(x.value)] if m]
                if kinds:
                    out.append((f.lineno, f.name, f"@{name}, returning {kinds[0]} - an object every caller shares and may write into"))
    return out


def memoisation_rule(check, rule: str = "H8") -> None:
    """No function of the package that reads state of its arguments is wrapped in a memoising decorator."""
    import os

    from ..report import VERIF

    hits = []
    # library functions whose result depends on the settings in force when they are called (Op.str, Op.is_close, scalar, to_float ...)
    readers = {q for q, f in check.program.functions.items()
               if any(isinstance(x, ast.Attribute) and isinstance(x.value, ast.Name) and x.value.id == "settings" and isinstance(x.ctx, ast.Load) for x in ast.walk(f.node))}
    for mod in check.program.modules.values():
        for line, name, what in scan_memoisation(mod.tree, readers):
            hits.append((mod.relpath, line, name, what))
    for rel, line, name, what in hits:
        check.violation(rule, f"{rel}/{name}", f"`{name}` is memoised ({what}): " + ("the cached object is handed to every caller, and a write into it "
                        "by one of them changes what all later calls return" if "every caller shares" in what else "the cached result is keyed by the identity of "
                        "mutable objects, so it goes stale when their contents change - results then depend on what was computed earlier"), f"{rel}:{line}")
    if not hits:
        check.ok(rule, "package/memoisation", f"no state-dependent function is memoised ({len(check.program.modules)} modules scanned)")
    with open(os.path.join(VERIF, "selftest", "fixtures", "memoisation.py"), encoding="utf-8") as f:
        fx = scan_memoisation(ast.parse(f.read()))
    if len(fx) < 3:
        raise AnalysisError(f"positive fixture for the memoisation rule no longer matches ({len(fx)})")
    check.ok(rule, "fixture/memoisation", f"positive fixture matched {len(fx)} memoised state-dependent functions")


def non_accumulating_liveouts(cfg: CFG, head: Node) -> list[tuple[str, Node]]:
    """Variables assigned inside the loop of `head` whose value is used after the loop although the assignment does not
    read the variable's previous value: only the last iteration decides. (Loop targets themselves are excluded.)"""
    from ..cfg import name_uses

    body = cfg.loop_body(head)
    carried = {(name, node.id) for name, node, _ in cfg.carried_uses(head)}
    out = []
    for n in body:
        if n.kind != "stmt":
            continue
        for d in cfg.defs_at(n):
            if d.kind not in ("value", "aug", "walrus"):
                continue
            live_out = False
            for u in cfg.stmt_nodes():
                if u in body or u is head:
                    continue
                if any(x.id == d.name for x in cfg.uses_at(u)) and d in cfg.defs_reaching(d.name, u):
                    live_out = True
                    break
            if not live_out:
                continue
            reads_itself = d.kind == "aug" or (d.name, n.id) in carried
            if not reads_itself:
                out.append((d.name, n))
    return out


def self_effects(p: Program, fn: FunctionInfo, depth: int = 3, _seen: set | None = None) -> dict[str, list[Term]]:
    """`self.<attr> = value` stores and `self.<attr>.<mutator>()` calls of fn, followed through calls on self / super()
    (resolved through the MRO). Returns attr -> [value terms] ; mutator calls are recorded as ('call', <mutator>)."""
    seen = _seen if _seen is not None else set()
    out: dict[str, list[Term]] = {}
    if fn.qualname in seen or depth < 0:
        return out
    seen.add(fn.qualname)
    r = Resolver(p, fn)
    cfg = r.cfg
    for n in cfg.stmt_nodes():
        for t in cfg.stores_at(n):
            if isinstance(t, ast.Attribute) and r.term(t.value, n) == ("param", "self") and getattr(n.ast, "value", None) is not None:
                out.setdefault(t.attr, []).append(r.term(n.ast.value, n))  # type: ignore[union-attr]
        for c in cfg.calls_in(n):
            if not isinstance(c.func, ast.Attribute):
                continue
            recv = r.term(c.func.value, n)
            name = c.func.attr
            if recv == ("param", "self") or recv == ("call", ("global", "super"), (), ()):
                if fn.cls is None:
                    continue
                mro = fn.cls.mro if recv == ("param", "self") else fn.cls.mro[1:]
                target = next((k.methods[name] for k in mro if name in k.methods), None)
                if target is not None:
                    for k, v in self_effects(p, target, depth - 1, seen).items():
                        out.setdefault(k, []).extend(v)
            elif recv[0] == "attr" and recv[1] == ("param", "self"):
                out.setdefault(recv[2], []).append(("call", ("const", name), (), ()))
            elif recv[0] == "attr" and recv[1][0] == "attr" and recv[1][1] == ("param", "self"):
                out.setdefault(f"{recv[1][2]}.{recv[2]}", []).append(("call", ("const", name), (), ()))
    return out


def holds_at(r, n, operand: Term) -> bool:
    """`operand` is known to be truthy at node n: a dominating condition tested it (directly or negated, also as a conjunct)."""
    for g, pol, gn in r.cfg.must_guards(n):
        t = r.term(g, gn)
        if _implies_truthy(t, pol, operand):
            return True
    return False


def _implies_truthy(t: Term, pol: bool, operand: Term) -> bool:
    if t == operand:
        return pol
    if t[0] == "unop" and t[1] == "not":
        return _implies_falsy(t[2], pol, operand)
    if t[0] == "bool" and t[1] == "and" and pol:
        return any(_implies_truthy(x, True, operand) for x in t[2])
    if t[0] == "bool" and t[1] == "or" and not pol:
        return any(_implies_truthy(x, False, operand) for x in t[2])
    if t[0] == "cmp" and len(t[2]) == 2 and operand in t[2] and ("const", True) in t[2] and t[1][0] in ("is", "=="):
        return pol
    return False


def _implies_falsy(t: Term, pol: bool, operand: Term) -> bool:
    """Condition t having truth value pol implies... (helper: `not t` has value pol) -> operand truthy?"""
    # `not t` evaluates to pol  <=>  t evaluates to (not pol)
    return _implies_truthy(t, not pol, operand)



def kernel_purity(check, fn, rule: str, construct: str, allowed: set[str]) -> bool:
    """A numeric kernel (membership / compute / hedge / tsukamoto) is a function of its arguments and of the object's parameters
    only: it neither writes attributes of self nor reads attributes other than the constructor parameters (and height)."""
    import ast as _ast

    from ..pm import unparse as _unparse

    writes, reads = [], []
    for x in _ast.walk(fn.analysis_node):
        if isinstance(x, _ast.Attribute) and isinstance(x.value, _ast.Name) and x.value.id == "self":
            if isinstance(x.ctx, (_ast.Store, _ast.Del)):
                writes.append((x.lineno, x.attr))
            elif x.attr not in allowed and not callable_attr(fn, x.attr):
                reads.append((x.lineno, x.attr))
    ok = not writes and not reads
    check.require(ok, rule, construct,
                  "the kernel depends only on its argument and the object's parameters (no state is read or written)" if ok else
                  (f"the kernel writes `self.{writes[0][1]}` (line {writes[0][0]})" if writes else f"the kernel reads `self.{reads[0][1]}` (line {reads[0][0]})")
                  + ", which is not a constructor parameter: the value then depends on earlier calls or on something other than the documented "
                  "parameters (a stale cache after a parameter is re-assigned)", loc(fn))
    return ok


def callable_attr(fn, name: str) -> bool:
    """self.<name> is a method / property of the class (not instance state)."""
    c = fn.cls
    return c is not None and (c.lookup(name) is not None or name in getattr(c, "getters", {}) or any(name in getattr(b, "getters", {}) for b in c.mro))


def raw_operand_uses(t: Term, params: set[str]) -> list[Term]:
    """Sub-terms of t in which a parameter is an operand of an arithmetic / comparison / boolean operator as it was handed in,
    i.e. not through scalar(...) or a numpy call (which coerce their arguments)."""
    out: list[Term] = []

    def rec(x, parent) -> None:
        if isinstance(x, frozenset):
            for y in x:
                rec(y, parent)
            return
        if not isinstance(x, tuple) or not x:
            return
        if not isinstance(x[0], str):
            for y in x:
                rec(y, parent)
            return
        if x[0] == "param":
            if x[1] in params and parent is not None and parent[0] in ("binop", "cmp", "unop", "bool") and not (parent[0] == "cmp" and set(parent[1]) <= {"is", "is not"}):
                out.append(parent)
            return
        if x[0] == "phi":  # one of several values (the returns of an inlined helper, the branches of an if): each is an operand of the enclosing operator
            for c in x[1:]:
                rec(c, parent)
            return
        for c in x[1:]:
            rec(c, x)

    rec(t, None)
    return out


def coerce_first(check, fn, rule: str, construct: str) -> bool:
    """V8: a numeric kernel applies Python operators to its operands only after coercing them with scalar(...) (or inside a numpy
    call): on the raw argument `+` concatenates lists and is a logical or on boolean masks, comparisons of lists are lexicographic
    - the result is then not the elementwise value the property promises for every array-like the library accepts."""
    r = Resolver(check.program, fn)
    params = {x.name for x in fn.params if x.name not in ("self", "cls")}
    bad: list[tuple[Node, Term]] = []
    n_ret = 0
    for n in r.cfg.stmt_nodes():
        if n.copy:
            continue
        e = n.ast.value if isinstance(n.ast, ast.Return) else None
        if e is None:
            continue
        n_ret += 1
        from ..absint import inline_private_helpers

        for u in raw_operand_uses(inline_private_helpers(check.program, r.term(e, n)), params):
            bad.append((n, u))
    if not n_ret:
        return True
    # reinterpreting "conversions": ndarray.view(dtype) / np.frombuffer re-read the bytes of the argument as another type
    for n, c in r.cfg.all_calls():
        if n.copy:
            continue
        t = r.term(c, n)
        if t[0] == "call" and t[1][0] == "attr" and t[1][2] == "view" and (t[2] or t[3]) and any(s[0] == "param" and s[1] in params for s in walk(t[1][1])):
            check.violation(rule, construct, f"`{unparse(c)[:70]}` re-interprets the bytes of the operand as another type instead of converting its values "
                            "(an int / float32 / float64 array that does not already have that type is read as garbage, of another length)", loc(fn, n))
            return False
    check.require(not bad, rule, construct,
                  "operators are applied to the operands only after scalar() / numpy coercion" if not bad else
                  f"`{show(bad[0][1])[:70]}` applies a Python operator to an argument as it was handed in (before scalar()): for a list or a boolean "
                  "mask `+` is concatenation / logical or, so the result is not the elementwise value", loc(fn, bad[0][0] if bad else None))
    return not bad


def who_may_write(check, rule: str, attr: str, allowed: set[str], why: str) -> None:
    """Ownership: the backing field `attr` is assigned only inside `allowed` (qualified function names); everybody else goes
    through the property, whose setter carries the invariant (`why`)."""
    p = check.program
    sites = 0
    for f in p.functions.values():
        if "/examples/" in f.file:
            continue
        for x in ast.walk(f.analysis_node):
            if isinstance(x, ast.Attribute) and x.attr == attr and isinstance(x.ctx, (ast.Store, ast.Del)):
                sites += 1
                if f.qualname not in allowed:
                    check.analysed(f)
                    check.violation(rule, f"{f.qualname}/writes-{attr}", f"`{f.qualname}` assigns the backing field `{attr}` directly (line {x.lineno}); "
                                    f"only {sorted(allowed)} may: {why}", f"{f.file}:{x.lineno}")
    check.ok(rule, f"package/who-writes-{attr}", f"{sites} store(s) to `{attr}` in the package, all inside {sorted(allowed)}")


SIZED_COMPONENT_LISTS = {"input_variables": "InputVariable", "output_variables": "OutputVariable", "variables": "Variable", "rule_blocks": "RuleBlock"}


def _truth_atoms(e: ast.AST):
    if isinstance(e, ast.BoolOp):
        for v in e.values:
            yield from _truth_atoms(v)
    elif isinstance(e, ast.UnaryOp) and isinstance(e.op, ast.Not):
        yield from _truth_atoms(e.operand)
    else:
        yield e


def _direct_classes(annotation: ast.AST | None) -> set[str]:
    """Class names an annotation allows at top level: `A`, `A | None`, `Optional[A]`, `Union[A, B]`, "A" - not `list[A]`."""
    if annotation is None:
        return set()
    if isinstance(annotation, ast.Constant) and isinstance(annotation.value, str):
        try:
            return _direct_classes(ast.parse(annotation.value, mode="eval").body)
        except SyntaxError:
            return set()
    if isinstance(annotation, ast.Name):
        return {annotation.id}
    if isinstance(annotation, ast.Attribute):
        return {annotation.attr}
    if isinstance(annotation, ast.BinOp) and isinstance(annotation.op, ast.BitOr):
        return _direct_classes(annotation.left) | _direct_classes(annotation.right)
    if isinstance(annotation, ast.Subscript) and isinstance(annotation.value, ast.Name) and annotation.value.id in ("Optional", "Union"):
        sl = annotation.slice
        return set().union(*[_direct_classes(x) for x in (sl.elts if isinstance(sl, ast.Tuple) else [sl])])
    return set()


def scan_component_truthiness(program, tree_functions, sized: set[str]) -> list[tuple[Any, ast.AST, str, str]]:
    """Truth tests (if / conditional expression / while / assert / not / and / or / comprehension filter) whose operand is an engine
    component of a class that defines __len__ / __bool__: such a test asks "has it any terms / rules?", not "is it there?"."""
    out = []
    for f in tree_functions:
        node = f.analysis_node if hasattr(f, "analysis_node") else f
        ann: dict[str, str] = {}
        a = node.args
        for arg in a.posonlyargs + a.args + a.kwonlyargs:
            hit = _direct_classes(arg.annotation) & sized
            if hit:
                ann[arg.arg] = sorted(hit)[0]
        # loop elements over the component lists of an engine
        for x in ast.walk(node):
            if isinstance(x, (ast.For, ast.comprehension)) and isinstance(x.target, ast.Name):
                it = x.iter
                while isinstance(it, ast.Call) and isinstance(it.func, ast.Name) and it.func.id in ("enumerate", "list", "reversed", "iter", "tuple") and it.args:
                    it = it.args[0]
                if isinstance(it, ast.Attribute) and it.attr in SIZED_COMPONENT_LISTS and SIZED_COMPONENT_LISTS[it.attr] in sized:
                    ann.setdefault(x.target.id, SIZED_COMPONENT_LISTS[it.attr])
        if not ann:
            continue
        for x in ast.walk(node):
            tests: list[ast.AST] = []
            if isinstance(x, (ast.If, ast.IfExp, ast.While, ast.Assert)):
                tests.append(x.test)
            elif isinstance(x, ast.comprehension):
                tests += x.ifs
            elif isinstance(x, ast.BoolOp):
                tests += x.values
            elif isinstance(x, ast.UnaryOp) and isinstance(x.op, ast.Not):
                tests.append(x.operand)
            for t in tests:
                for at in _truth_atoms(t):
                    if isinstance(at, ast.Name) and at.id in ann:
                        out.append((f, at, at.id, ann[at.id]))
    seen = set()
    uniq = []
    for f, at, nm, cls in out:
        k = (id(f), at.lineno, at.col_offset)
        if k not in seen:
            seen.add(k)
            uniq.append((f, at, nm, cls))
    return uniq


def component_truthiness(check, rule: str, modules: set[str] | None = None) -> None:
    """No engine component whose class defines __len__ / __bool__ (a variable is falsy without terms, a rule block without rules) is
    used as a truth value: an "is it present" test written that way drops or replaces empty components."""
    import os

    from ..report import VERIF

    p = check.program
    sized = {c.name for c in p.classes.values() if (c.lookup("__len__") is not None or c.lookup("__bool__") is not None)
             and c.name in set(SIZED_COMPONENT_LISTS.values())}
    if len(sized) < 4:
        # the rule is about today's sized components; if none is sized any more there is nothing to protect
        check.notes.append(f"component-truthiness: sized component classes today: {sorted(sized)}")
    fns = [f for f in p.functions.values() if "/examples/" not in f.file and (modules is None or f.file in modules)]
    hits = scan_component_truthiness(p, fns, sized)
    for f, at, nm, cls in hits:
        check.analysed(f)
        check.violation(rule, f"{f.qualname}/truthiness:{nm}", f"`{nm}` (a {cls}) is used as a truth value at line {at.lineno}: {cls} defines __len__, so the "
                        "test is false for a component without terms / rules - an empty but present component is treated as missing "
                        "(exported as None, dropped, or replaced)", f"{f.file}:{at.lineno}")
    if not hits:
        check.ok(rule, "package/component-truthiness", f"no {'/'.join(sorted(sized))} object is used as a truth value ({len(fns)} functions scanned)")
    with open(os.path.join(VERIF, "selftest", "fixtures", "sized_truthiness.py"), encoding="utf-8") as fh:
        tree = ast.parse(fh.read())
    fx = scan_component_truthiness(p, [x for x in ast.walk(tree) if isinstance(x, ast.FunctionDef)], {"Variable", "InputVariable", "OutputVariable", "RuleBlock"})
    if len(fx) != 3:
        raise AnalysisError(f"positive fixture for the component-truthiness rule matches {len(fx)} sites, expected 3")
    check.ok(rule, "fixture/component-truthiness", "positive fixture matched 3 truth tests on sized components (and not the identity test / plain list)")


UNUSED_BY_DESIGN = {
    ("WeightedAverage.defuzzify", "minimum"): "weighted defuzzifiers do not use the range (documented: irrelevant)",
    ("WeightedAverage.defuzzify", "maximum"): "weighted defuzzifiers do not use the range (documented: irrelevant)",
    ("WeightedSum.defuzzify", "minimum"): "weighted defuzzifiers do not use the range (documented: irrelevant)",
    ("WeightedSum.defuzzify", "maximum"): "weighted defuzzifiers do not use the range (documented: irrelevant)",
    ("Representation.repr_float", "level"): "signature imposed by reprlib",
    ("Linear.membership", "x"): "a Linear term is a function of the engine's input values, not of x",
}


def unused_parameters(check, rule: str, classes: set[str], functions: set[str] = frozenset()) -> None:
    """A parameter that a function never reads cannot have the effect its callers and its documentation expect (a wrapper that
    forgets to pass an option on silently behaves as if the option had its default). Functions that read `locals()` / `vars()` use all
    of their parameters; bodies that only raise / pass (abstract or refusing defaults) are skipped."""
    p = check.program
    n_fun = 0
    for f in p.functions.values():
        owner = f.cls.name if f.cls is not None else None
        if "/examples/" in f.file or not ((owner in classes) or f.qualname in functions):
            continue
        body = [s_ for s_ in f.node.body if not (isinstance(s_, ast.Expr) and isinstance(s_.value, ast.Constant))]
        if f.is_abstract or all(isinstance(s_, (ast.Pass, ast.Raise)) for s_ in body):
            continue
        if any(isinstance(x, ast.Call) and isinstance(x.func, ast.Name) and x.func.id in ("locals", "vars") and not x.args for x in ast.walk(f.node)):
            continue
        n_fun += 1
        reads = {x.id for x in ast.walk(f.node) if isinstance(x, ast.Name) and isinstance(x.ctx, ast.Load)}
        for q in f.params:
            if q.name in ("self", "cls") or q.kind in ("vararg", "kwarg") or q.name.startswith("_") or q.name in reads:
                continue
            if (f.qualname, q.name) in UNUSED_BY_DESIGN:
                continue
            check.analysed(f)
            check.violation(rule, f"{f.qualname}/unused:{q.name}", f"`{f.qualname}` never reads its parameter `{q.name}`: whatever the caller passes, the function behaves as "
                            "if the option had its default (e.g. a convenience wrapper that does not pass the option on)", loc(f))
    check.ok(rule, "parameters/all-used", f"every parameter of the {n_fun} functions in scope is read (documented exceptions: {len(UNUSED_BY_DESIGN)})")


def _result_kinds(fn_node: ast.AST) -> set[str]:
    """Kinds of the values a function / lambda can return: 'int' for integer and boolean literals, 'other' for everything else."""
    outs: list[ast.AST] = []
    if isinstance(fn_node, ast.Lambda):
        outs.append(fn_node.body)
    else:
        outs += [x.value for x in ast.walk(fn_node) if isinstance(x, ast.Return) and x.value is not None]
    kinds: set[str] = set()

    def rec(e: ast.AST) -> None:
        if isinstance(e, ast.IfExp):
            rec(e.body)
            rec(e.orelse)
        elif isinstance(e, ast.Constant) and isinstance(e.value, (int, bool)) and not isinstance(e.value, float):
            kinds.add("int")
        else:
            kinds.add("other")

    for o in outs:
        rec(o)
    return kinds


def scan_numpy_pitfalls(tree: ast.Module, is_numpy: Callable[[ast.AST], bool]) -> list[tuple[int, str, str]]:
    """(line, construct, what) for two numpy interfaces whose result silently depends on the *first element* or on the *number of
    dimensions* of the argument: np.vectorize without otypes over a function that can return both integer literals and other values
    (the dtype of the whole result is taken from the first output: later fractional values are truncated), and np.piecewise with a
    bare condition array instead of a list of conditions (for two or more dimensions its rows are taken as separate conditions)."""
    out: list[tuple[int, str, str]] = []
    defs = {f.name: f for f in ast.walk(tree) if isinstance(f, ast.FunctionDef)}

    def is_vectorize(e: ast.AST) -> bool:
        return isinstance(e, ast.Attribute) and e.attr == "vectorize" and is_numpy(e.value)

    def report_vec(line: int, name: str, target: ast.AST | None) -> None:
        if target is None:
            return
        k = _result_kinds(target)
        if "int" in k and "other" in k:
            out.append((line, name, "np.vectorize without otypes: the function returns an integer literal on one path and another value on "
                        "another; numpy takes the dtype of the whole result from the first element, so when that is the integer every later "
                        "fractional value is truncated (the result then depends on the order of the rows)"))

    for f in defs.values():
        for d in f.decorator_list:
            if is_vectorize(d):
                report_vec(f.lineno, f.name, f)
            elif isinstance(d, ast.Call) and is_vectorize(d.func) and not any(k.arg == "otypes" for k in d.keywords):
                report_vec(f.lineno, f.name, f)
    for x in ast.walk(tree):
        if isinstance(x, ast.Call) and is_vectorize(x.func) and not any(k.arg == "otypes" for k in x.keywords) and x.args:
            a = x.args[0]
            target = a if isinstance(a, ast.Lambda) else (defs.get(a.id) if isinstance(a, ast.Name) else None)
            report_vec(x.lineno, a.id if isinstance(a, ast.Name) else "<lambda>", target)
        if isinstance(x, ast.Call) and isinstance(x.func, ast.Attribute) and x.func.attr == "piecewise" and is_numpy(x.func.value) and len(x.args) >= 2 \
                and not isinstance(x.args[1], (ast.List, ast.Tuple)):
            out.append((x.lineno, "piecewise", "np.piecewise is given a bare condition array instead of a list of conditions: for an argument of two "
                        "or more dimensions numpy takes each row of the array as a separate condition, so matrices are mis-evaluated (or rejected) "
                        "while scalars and vectors work"))
    return out


def numpy_pitfalls(check, rule: str, modules: set[str] | None = None) -> bool:
    """Returns True when nothing was found."""
    import os

    from ..report import VERIF

    p = check.program
    hits = []
    for mod in p.modules.values():
        if "/examples/" in mod.relpath or (modules is not None and mod.relpath not in modules):
            continue
        np_names = {k for k, v in mod.imports.items() if v == "numpy"}
        for line, name, what in scan_numpy_pitfalls(mod.tree, lambda e: isinstance(e, ast.Name) and e.id in np_names):
            hits.append((mod.relpath, line, name, what))
    for rel, line, name, what in hits:
        check.violation(rule, f"{rel}/{name}", what, f"{rel}:{line}")
    if not hits:
        check.ok(rule, "package/numpy-pitfalls", "no np.vectorize with mixed integer / non-integer results and no np.piecewise with a bare condition array")
    with open(os.path.join(VERIF, "selftest", "fixtures", "numpy_pitfalls.py"), encoding="utf-8") as fh:
        fx = scan_numpy_pitfalls(ast.parse(fh.read()), lambda e: isinstance(e, ast.Name) and e.id == "np")
    if len(fx) != 3:
        raise AnalysisError(f"positive fixture for the numpy-pitfall rule matches {len(fx)} sites, expected 3")
    check.ok(rule, "fixture/numpy-pitfalls", "positive fixture matched 3 sites (and not the float-only / otypes / list-of-conditions variants)")
    return not hits


def static_resolver(program):  # type: ignore[no-untyped-def]
    """For sa.absexec: `Name.f(...)` where Name is a class of the package or a module-level alias of one (`Op = Operation`) and f is one of its
    static functions -> the FunctionInfo to interpret."""
    import ast as _ast

    alias: dict[str, str] = {}
    for m in program.modules.values():
        for nm, v in m.assigns.items():
            if isinstance(v, _ast.Name) and v.id in m.classes:
                alias[nm] = v.id

    def resolve(name: str, fname: str):  # type: ignore[no-untyped-def]
        cname = alias.get(name, name)
        c = program.classes.get(cname)
        if c is None:
            return None
        f = c.lookup(fname)
        return f if f is not None and "staticmethod" in f.decorators else None

    return resolve


def scalar_is_base_array(check, rule: str = "V8") -> None:
    """V8 (the coercion itself): `scalar(x)` hands back a *plain* numpy array of the library's float type - `np.asarray` / `np.array` with
    `dtype=settings.float_type` - never a view that keeps the operand's own class (`np.asanyarray`, `subok=True`: for an `np.matrix`
    or a masked array `*` and `**` are then not the elementwise operators every kernel relies on)."""
    from ..absint import return_term  # noqa: F401  (module-level functions are resolved below)

    p = check.program
    fn = p.functions.get("scalar")
    if fn is None:
        raise AnalysisError("anchor vanished: fuzzylite.library.scalar")
    check.analysed(fn)
    r = Resolver(p, fn)
    rets = [n for n in r.cfg.stmt_nodes() if isinstance(n.ast, ast.Return) and n.ast.value is not None]
    why = None
    for n in rets:
        t = r.term(n.ast.value, n)
        if not (t[0] == "call" and t[1][0] == "global"):
            why = f"`{unparse(n.ast.value)[:60]}` is not a numpy conversion"
            continue
        g = t[1][1]
        kw = dict(t[3])
        if g not in ("numpy.asarray", "numpy.array", "numpy.ascontiguousarray"):
            why = f"`{g}` keeps the class of an operand that is already an array (a subclass with operators of its own stays what it is)" if g in ("numpy.asanyarray",) \
                else f"`{g}` is not one of the conversions to a plain array"
        elif "subok" in kw and not (kw["subok"][0] == "const" and kw["subok"][1] is False):
            why = "`subok=` keeps the class of an operand that is already an array"
        elif "dtype" not in kw and len(t[2]) < 2:
            why = "the conversion does not ask for the library's float type"
    if not rets:
        why = "scalar() returns nothing"
    check.require(why is None, rule, "scalar/plain-array", "scalar(x) is numpy's conversion to a plain array of the library's float type" if why is None else f"scalar(): {why}", loc(fn))
