"""Rules on Function.infix_to_postfix / Function.parse / Function.Node.evaluate shared by C06, C16, C17."""

from __future__ import annotations

import ast
import itertools

from ..guards import RoleEval, paths, simulate, weak_orders
from ..pm import AnalysisError, unparse
from ..report import Check
from ..sym import PathResolver, Resolver, Term, path_of, show, walk
from .common import body_entry, const_value, loc, strip

SELF = ("param", "self")


def _mentions_kind(t: Term, kind: str) -> bool:
    return any(s[0] == kind for s in walk(t))


def g1_pop_rule(check: Check, rule: str = "G1") -> None:
    """pop top <=> (left-assoc and p <= p_top) or (right-assoc and p < p_top)."""
    p = check.program
    fn = p.func("Function.infix_to_postfix")
    check.analysed(fn)
    r = Resolver(p, fn)
    cfg = r.cfg

    def is_top(t: Term) -> bool:
        # factory.objects[stack[-1]]
        return t[0] == "sub" and any(s[0] == "sub" and const_value(s[2]) == -1 for s in walk(t[2]))

    def is_element(t: Term) -> bool:
        # factory.objects.get(token) with token an element of formula.split()
        return t[0] == "call" and t[1][0] == "attr" and t[1][2] in ("get", "__getitem__") and _mentions_kind(t, "elem")

    def classify(t: Term, e):
        if t[0] == "attr" and t[2] in ("associativity", "precedence"):
            base = t[1]
            alts = base[1] if base[0] == "phi" else [base]
            if all(is_top(a) for a in alts):
                return "ptop" if t[2] == "precedence" else "assoc_top"
            if all(is_element(a) for a in alts):
                return "p" if t[2] == "precedence" else "assoc"
        return None

    # the pop loop: a while loop whose body moves stack.pop() to the queue under a test on the roles
    ev = RoleEval(r, classify)
    cands = []
    for h in cfg.loop_heads():
        if h.kind != "test":
            continue
        body = cfg.loop_body(h)
        tests = [n for n in body if n.kind == "test" and {"p", "ptop"} <= ev.roles_in(n.ast, n)]  # type: ignore[arg-type]
        pops = [n for n, c in cfg.find_calls(".pop") if n in body]
        if tests and pops:
            cands.append((h, body, pops))
    if len(cands) != 1:
        raise AnalysisError(f"Function.infix_to_postfix: operator pop loop not recognised ({len(cands)} candidates)")
    h, body, pops = cands[0]
    outside = {n for n in cfg.nodes if n not in body}
    roles = ["assoc", "const:0.0", "p", "ptop"]
    rows = 0
    bad = []
    nondet = False
    for order in weak_orders(roles, {"const:0.0": 0.0}):
        env = dict(order)
        may, must = simulate(cfg, body_entry(h), ev, env, set(pops), outside)
        rows += 1
        want = (env["assoc"] < env["const:0.0"] and env["p"] <= env["ptop"]) or (env["assoc"] > env["const:0.0"] and env["p"] < env["ptop"])
        if bool(may) != bool(must):
            nondet = True
        elif bool(must) != want and len(bad) < 4:
            from .c08 import describe_order

            bad.append({"ordering": describe_order(env, roles, []), "pops": bool(must), "specified": want})
    ok = not bad and not nondet
    check.require(ok, rule, "Function.infix_to_postfix/pop-rule",
                  f"an operator on the stack is popped iff (left-assoc and p <= p_top) or (right-assoc and p < p_top) [{rows} orderings]"
                  if ok else (f"pop rule disagrees with the specification at {bad}" if bad else
                              f"pop rule consults something else: {sorted(set(ev.unknown_atoms))[:3]}"),
                  loc(fn, h), {"rows": rows, "disagreements": bad}, exhaustive=True, cases=rows)


def stack_safety(check: Check, qual: str, rule: str = "X3") -> None:
    """Every pop / [-1] on a local stack is guarded against emptiness on all paths.

    Decided by enumerating the depth class of the stack (0, 1, 2, 3) and every assignment of the other
    small-integer quantities compared in the function, and counting pops along each abstract path.
    """
    p = check.program
    fn = p.func(qual)
    check.analysed(fn)
    r = Resolver(p, fn)
    cfg = r.cfg
    # local stacks: names bound to list()/[] /deque() that receive .pop() or [-1]
    sites = []
    for n, c in cfg.all_calls():
        if isinstance(c.func, ast.Attribute) and c.func.attr in ("pop", "popleft") and isinstance(c.func.value, ast.Name) and not c.args:
            sites.append((n, c.func.value.id, "pop", c))
    for n in cfg.stmt_nodes():
        for e in cfg.exprs_of(n):
            for s in ast.walk(e):
                if isinstance(s, ast.Subscript) and isinstance(s.value, ast.Name) and const_value(r.term(s.slice, n)) == -1 and \
                        isinstance(s.ctx, ast.Load):
                    sites.append((n, s.value.id, "peek", s))
    stacks = sorted({name for _, name, _, _ in sites})
    stacks = [s for s in stacks if any(strip(a)[0] in ("list", "call") for a in _alts(r.name_term(s, cfg.exit)))]
    n_ok = 0
    for name in stacks:
        for n, nm, kind, node in [s for s in sites if s[1] == name]:
            guarded = _site_guarded(r, cfg, n, node, name, kind)
            check.require(guarded, rule, f"{qual}/{name}@{kind}{_ordinal(sites, n, nm, kind, node)}",
                          f"`{unparse(node)}` cannot execute on an empty `{name}`" if guarded else
                          f"`{unparse(node)}` can execute with `{name}` empty (IndexError)", loc(fn, n))
            n_ok += 1
    if not n_ok:
        raise AnalysisError(f"{qual}: no stack operations recognised")


def _alts(t: Term):
    return list(t[1]) if t[0] == "phi" else [t]


def _ordinal(sites, n, nm, kind, node) -> int:
    same = [s for s in sites if s[1] == nm and s[2] == kind]
    same.sort(key=lambda s: (s[0].lineno, getattr(s[3], "col_offset", 0)))
    for i, s in enumerate(same):
        if s[3] is node:
            return i
    return 0


def _site_guarded(r: Resolver, cfg, n, node, name: str, kind: str) -> bool:
    """Is the access at `n` protected by a non-emptiness fact established on every path since the last mutation?"""
    # 1. short-circuit inside the same expression: `stack and stack[-1] ...`
    parent_ok = False
    for e in cfg.exprs_of(n):
        for b in ast.walk(e):
            if isinstance(b, ast.BoolOp) and isinstance(b.op, ast.And):
                for i, v in enumerate(b.values):
                    if any(x is node for x in ast.walk(v)) and any(_is_nonempty_test(u, name) for u in b.values[:i]):
                        parent_ok = True
            if isinstance(b, ast.BoolOp) and isinstance(b.op, ast.Or):
                for i, v in enumerate(b.values):
                    if any(x is node for x in ast.walk(v)) and any(_is_empty_test(u, name) for u in b.values[:i]):
                        parent_ok = True
    if parent_ok:
        return True
    # 2. a must-guard that implies non-emptiness, with no pop of the same stack between the guard and the site
    for g, pol, gn in cfg.must_guards(n):
        implies = (pol and _implies_nonempty(g, name, r, gn)) or ((not pol) and _implies_empty_when_true(g, name, r, gn))
        if not implies:
            continue
        # pops of `name` on paths from the guard to the site (excluding the site itself)
        # (every path to the site passes the guard again, so paths are cut at the guard)
        between = cfg.reach([s for s, _ in gn.succ], blocked={gn, n}) & cfg.reach([p_ for p_, _ in n.pred], blocked={gn, n}, backward=True)
        pops = [m for m in between if _pops(cfg, m, name)]
        need = 1 + len(pops)
        if _guard_depth(g, pol, name, r, gn) >= need:
            return True
    return False


def _is_nonempty_test(e: ast.AST, name: str) -> bool:
    return isinstance(e, ast.Name) and e.id == name


def _is_empty_test(e: ast.AST, name: str) -> bool:
    return isinstance(e, ast.UnaryOp) and isinstance(e.op, ast.Not) and isinstance(e.operand, ast.Name) and e.operand.id == name


def _len_of(e: ast.AST, name: str) -> bool:
    return isinstance(e, ast.Call) and isinstance(e.func, ast.Name) and e.func.id == "len" and len(e.args) == 1 and \
        isinstance(e.args[0], ast.Name) and e.args[0].id == name


def _conjuncts(e: ast.AST) -> list[ast.AST]:
    if isinstance(e, ast.BoolOp) and isinstance(e.op, ast.And):
        out = []
        for v in e.values:
            out += _conjuncts(v)
        return out
    return [e]


def _guard_depth(g: ast.AST, pol: bool, name: str, r: Resolver, gn) -> int:
    """Minimal depth of `name` implied by guard g having polarity pol."""
    best = 0
    if pol:
        for c in _conjuncts(g):
            if _is_nonempty_test(c, name):
                best = max(best, 1)
            if isinstance(c, ast.Compare) and len(c.ops) == 1:
                l, op, rr = c.left, c.ops[0], c.comparators[0]
                k = const_value(r.term(rr, gn)) if _len_of(l, name) else (const_value(r.term(l, gn)) if _len_of(rr, name) else None)
                if isinstance(k, (int, float)):
                    if _len_of(l, name):
                        if isinstance(op, ast.GtE):
                            best = max(best, int(k))
                        elif isinstance(op, ast.Gt):
                            best = max(best, int(k) + 1)
                        elif isinstance(op, ast.Eq):
                            best = max(best, int(k))
                    else:
                        if isinstance(op, ast.LtE):
                            best = max(best, int(k))
                        elif isinstance(op, ast.Lt):
                            best = max(best, int(k) + 1)
    else:
        # guard false: not (len(stack) < k) => len >= k ; not (not stack) => non-empty ; not (a or b) => both false
        disj = g.values if isinstance(g, ast.BoolOp) and isinstance(g.op, ast.Or) else [g]
        for c in disj:
            if _is_empty_test(c, name):
                best = max(best, 1)
            if isinstance(c, ast.Compare) and len(c.ops) == 1:
                l, op, rr = c.left, c.ops[0], c.comparators[0]
                if _len_of(l, name):
                    k = const_value(r.term(rr, gn))
                    if isinstance(k, (int, float)):
                        if isinstance(op, ast.Lt):
                            best = max(best, int(k))
                        elif isinstance(op, ast.LtE):
                            best = max(best, int(k) + 1)
                        elif isinstance(op, ast.NotEq):
                            best = max(best, int(k))
                elif _len_of(rr, name):
                    # k > len(stack) false => len >= k (k may be symbolic: arity) -> handled by the arity rule
                    k = const_value(r.term(l, gn))
                    if isinstance(k, (int, float)) and isinstance(op, ast.Gt):
                        best = max(best, int(k))
    return best


def _implies_nonempty(g, name, r, gn) -> bool:
    return _guard_depth(g, True, name, r, gn) >= 1


def _implies_empty_when_true(g, name, r, gn) -> bool:
    return _guard_depth(g, False, name, r, gn) >= 1


def _pops(cfg, m, name: str) -> bool:
    for c in cfg.calls_in(m):
        if isinstance(c.func, ast.Attribute) and c.func.attr in ("pop", "popleft", "clear") and isinstance(c.func.value, ast.Name) \
                and c.func.value.id == name:
            return True
    return False


def parse_arity_guard(check: Check, rule: str = "X3") -> None:
    """Function.parse: for every arity in 0..3 and stack depth 0..3, the pops executed never exceed the depth."""
    p = check.program
    fn = p.func("Function.parse")
    check.analysed(fn)
    r = Resolver(p, fn)
    cfg = r.cfg
    loops = [h for h in cfg.loop_heads() if h.kind == "for"]
    if not loops:
        raise AnalysisError("Function.parse: token loop not found")
    h = loops[0]
    body = cfg.loop_body(h)
    pops = [n for n, c in cfg.find_calls("stack.pop") if n in body]
    if not pops:
        raise AnalysisError("Function.parse: no stack.pop() in the token loop")

    def classify(t: Term, e):
        if t[0] == "attr" and t[2] == "arity":
            return "arity"
        if t[0] == "call" and t[1] == ("global", "len") and len(t[2]) == 1:
            return "depth"
        if t[0] == "call" and t[1][0] == "attr" and t[1][2] in ("get",) and _mentions_kind(t, "elem"):
            return "is_element"
        return None

    ev = RoleEval(r, classify)
    outside = {n for n in cfg.nodes if n not in body} | {h}
    bad = []
    rows = 0
    for arity, depth in itertools.product(range(0, 4), range(0, 4)):
        env = {"arity": arity, "depth": depth, "is_element": True}
        for k in range(0, 5):
            env[f"const:{float(k)}"] = k
        for pa in paths(cfg, body_entry(h), ev, env, outside):
            rows += 1
            if pa[-1].kind == "raise_exit":
                continue
            npops = sum(1 for x in pa if x in pops)
            if npops > depth:
                bad.append({"arity": arity, "depth": depth, "pops": npops})
    ok = not bad
    check.require(ok, rule, "Function.parse/arity-guard",
                  "for every arity and stack depth the operands popped never exceed the depth (else SyntaxError is raised first)"
                  if ok else f"operands can be popped from a too-short stack: {bad[:3]}", loc(fn, h), {"rows": rows}, exhaustive=True, cases=rows)
    # the raise is a SyntaxError
    raises = [n for n in cfg.lexical_body(h) if n.kind == "stmt" and isinstance(n.ast, ast.Raise)]
    kinds = {unparse(n.ast.exc.func) if isinstance(n.ast.exc, ast.Call) else unparse(n.ast.exc) for n in raises}  # type: ignore[union-attr]
    check.require(kinds <= {"SyntaxError"} and bool(kinds), rule, "Function.parse/arity-error-class",
                  f"a missing operand is rejected with SyntaxError (found {sorted(kinds)})", loc(fn, raises[0] if raises else h))


def w2_operand_order(check: Check, rule: str = "W2") -> None:
    """The order in which Function.parse attaches the popped operands is decided by PD2 (pushdown.parse_postfix); here: Node.evaluate
    applies a binary element to (left, right) in this order."""
    p = check.program
    ev_fn = p.func("Function.Node.evaluate")
    check.analysed(ev_fn)
    r2 = Resolver(p, ev_fn)
    lv = ev_fn.params[1].name
    want_l = ("call", ("attr", ("attr", SELF, "left"), "evaluate"), (("param", lv),), ())
    want_r = ("call", ("attr", ("attr", SELF, "right"), "evaluate"), (("param", lv),), ())
    found = False
    good = False
    for n, c in r2.cfg.all_calls():
        t = r2.term(c, n)
        if t[0] == "call" and t[1] == ("attr", ("attr", SELF, "element"), "method") and len(t[2]) == 2:
            found = True
            good = t[2] == (want_l, want_r)
            where = n
    if not found:
        raise AnalysisError("Function.Node.evaluate: binary method call not found")
    check.require(good, rule, "Function.Node.evaluate/operand-order", "a binary element is applied to (left, right) in this order"
                  if good else "a binary element is applied to its operands in the wrong order", loc(ev_fn, where))


def rejection_checks(check: Check, rule: str = "X6") -> None:
    """The well-formedness rejections of the formula parser exist and raise SyntaxError."""
    p = check.program
    fn = p.func("Function.infix_to_postfix")
    r = Resolver(p, fn)
    cfg = r.cfg
    raises = [n for n in cfg.stmt_nodes() if isinstance(n.ast, ast.Raise)]
    syn = [n for n in raises if isinstance(n.ast.exc, ast.Call) and unparse(n.ast.exc.func) == "SyntaxError"]  # type: ignore[union-attr]
    # (a) ',' without '(' ; (b) ')' without '(' ; (c) leftover parenthesis at the end
    for_heads = [h for h in cfg.loop_heads() if h.kind == "for"]
    in_loop = [n for n in syn if any(n in cfg.lexical_body(h) for h in for_heads)]
    after = [n for n in syn if not any(n in cfg.lexical_body(h) for h in for_heads)]
    check.require(len(in_loop) >= 2, rule, "Function.infix_to_postfix/unbalanced-in-loop",
                  f"',' and ')' without an opening parenthesis are rejected with SyntaxError ({len(in_loop)} sites)", loc(fn))
    check.require(len(after) >= 1, rule, "Function.infix_to_postfix/unbalanced-at-end",
                  "a parenthesis left on the stack at the end is rejected with SyntaxError", loc(fn))
    pf = p.func("Function.parse")
    r2 = Resolver(p, pf)
    cfg2 = r2.cfg
    rets = [n for n in cfg2.stmt_nodes() if isinstance(n.ast, ast.Return)]
    ok = False
    for n in rets:
        for g, pol, gn in cfg2.must_guards(n):
            t = r2.term(g, gn)
            if t[0] == "cmp" and t[1] == ("!=",) and t[2][0][0] == "call" and t[2][0][1] == ("global", "len") and t[2][1] == ("const", 1) and not pol:
                ok = True
            if t[0] == "cmp" and t[1] == ("==",) and t[2][0][0] == "call" and t[2][0][1] == ("global", "len") and t[2][1] == ("const", 1) and pol:
                ok = True
    check.require(ok, rule, "Function.parse/single-root", "a formula is accepted only if exactly one tree remains on the stack", loc(pf))
