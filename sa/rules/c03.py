"""C03 - Membership functions match their documented definitions (shape-level clauses)."""

from __future__ import annotations

import ast

from ..absint import ALL, FINITE, NAN, NUM, PINF, POS, NEG, Abs, Evaluator, return_term, show_abs
from ..pm import AnalysisError, ClassInfo, unparse
from ..report import Check
from ..sym import Resolver, Term, path_of, show, walk
from .common import loc

EXPLANATION = (
    "static analysis of the 20 shape terms: abstract interpretation of membership() over the extended-sign domain with "
    "x = NaN and arbitrary numeric parameters must yield exactly {NaN} (NaN-in => NaN-out, precise enough that a "
    "redundant mask may be removed but a needed one may not); with x = +inf / -inf and finite parameters (widths and "
    "deviations positive, slopes non-zero) the result must lie in {zero, pos}: never NaN, infinite or negative; def-use rules: the height and every shape parameter "
    "stored by the constructor reach the returned value (directly or through a nested term they construct); "
    "is_monotonic() is True iff the class overrides tsukamoto(); elementwise safety of every kernel (C02/V1)"
)
ASSUMPTIONS = [
    "equality with the closed form, range [0,h], 'NaN only if x is NaN' and monotonicity are numeric and not decided",
    "parameters are numbers (finite or infinite), height > 0",
]
FLOORS = {"A1": 20, "A1b": 36, "D1": 20, "D2": 50, "M1": 26, "V1": 20}

# positive-by-definition parameters (valid parameterisations): widths and standard deviations; slopes are non-zero
POSITIVE = {"width", "standard_deviation", "standard_deviation_a", "standard_deviation_b"}
NONZERO = {"slope", "rising", "falling"}
INF_EXEMPT = {
    "Ramp": "start == end is answered with NaN by design (the degenerate mask `increasing == decreasing`); not expressible without relating start and end",
    "Discrete": "values are arbitrary user data, the range clause does not apply",
}

SHAPES = ["Arc", "Bell", "Binary", "Concave", "Cosine", "Discrete", "Gaussian", "GaussianProduct", "PiShape", "Ramp", "Rectangle",
          "SemiEllipse", "Sigmoid", "SigmoidDifference", "SigmoidProduct", "Spike", "SShape", "Trapezoid", "Triangle", "ZShape"]


def shape_params(c: ClassInfo) -> list[str]:
    init = c.lookup("__init__")
    return [x.name for x in init.params if x.name not in ("self", "name", "height")]


def run(check: Check) -> None:
    from . import c02

    p = check.program
    for name in SHAPES:
        c = p.cls(name)
        fn = c.lookup("membership")
        if fn is None or fn.cls is not c:
            raise AnalysisError(f"anchor vanished: {name}.membership")
        check.analysed(fn)
        t = return_term(p, c, "membership")
        xname = fn.params[1].name
        # A1
        def env(term: Term, xname=xname):
            if term == ("param", xname):
                return Abs({NAN})
            if term[0] == "attr" and term[1] == ("param", "self"):
                if term[2] == "height":
                    return Abs({POS})
                if term[2] == "values":
                    return Abs(FINITE)
                return Abs(NUM)
            if term[0] == "sub" and term[1][0] == "attr" and term[1][1] == ("param", "self"):
                return Abs(FINITE)
            return None

        v = Evaluator(p, env).ev(t)
        ok = v == Abs({NAN})
        check.require(ok, "A1", f"{name}.membership/nan", f"membership(NaN) = {show_abs(v)}" + ("" if ok else
                      ": a NaN input can yield a number (the NaN mask is missing where comparisons swallow NaN)"), loc(fn),
                      {"result": show_abs(v)}, exhaustive=True, cases=1)
        # A1b: at x = +inf and x = -inf (finite parameters) the value is a number in [0, h]: never NaN, never infinite, never negative
        if name in INF_EXEMPT:
            check.notes.append(f"A1b not applied to {name}: {INF_EXEMPT[name]}")
        else:
            from ..absint import NINF, ZERO

            for xv in (PINF, NINF):
                def env_inf(term: Term, xname=xname, xv=xv):
                    if term == ("param", xname):
                        return Abs({xv})
                    if term[0] == "attr" and term[1] == ("param", "self"):
                        if term[2] == "height" or term[2] in POSITIVE:
                            return Abs({POS})
                        if term[2] in NONZERO:
                            return Abs({NEG, POS})
                        return Abs(FINITE)
                    return None

                v = Evaluator(p, env_inf).ev(t)
                ok = v <= Abs({ZERO, POS})
                check.require(ok, "A1b", f"{name}.membership/{xv}", f"membership({xv}) = {show_abs(v)}" + ("" if ok else
                              ": at infinity the value must be a number in [0, height] (NaN, infinite or negative results are possible)"), loc(fn),
                              {"result": show_abs(v)}, exhaustive=True, cases=1)
        # D1 / D2
        reads = {s[2] for s in walk(t) if s[0] == "attr" and s[1] == ("param", "self")}
        check.require("height" in reads, "D1", f"{name}.membership/height", "the returned value depends on self.height" if "height" in reads else
                      "self.height does not reach the returned value (terms with height != 1 are evaluated as if height were 1)", loc(fn))
        for prm in shape_params(c):
            ok = prm in reads
            check.require(ok, "D2", f"{name}.membership/{prm}", f"parameter `{prm}` reaches the returned value" if ok else
                          f"parameter `{prm}` is stored by the constructor but never read by membership()", loc(fn))
        # V1 elementwise safety of this kernel
        c02.kernel_elementwise(check, fn, "V1", f"{name}.membership")
    monotonic_table(check)
    check.exhaustive_parts += ["NaN-in => NaN-out: exact abstract result per term"]


def monotonic_table(check: Check, rule: str = "M1") -> None:
    p = check.program
    base = p.cls("Term")
    for c in [base] + p.subclasses("Term"):
        fn = c.lookup("is_monotonic")
        if fn is None:
            raise AnalysisError("anchor vanished: Term.is_monotonic")
        rets = [s.value for s in ast.walk(fn.analysis_node) if isinstance(s, ast.Return)]
        val = rets[0].value if len(rets) == 1 and isinstance(rets[0], ast.Constant) else None
        ts = c.lookup("tsukamoto")
        overrides = ts is not None and ts.cls is not base
        if val is None:
            # a computed answer (e.g. delegated to a wrapped term): it can be True, so the class must then be able to invert
            r = Resolver(p, fn)
            rt = [show(r.term(s.value, m)) for m in r.cfg.stmt_nodes() for s in [m.ast] if isinstance(s, ast.Return) and s.value is not None]
            check.require(overrides, rule, f"{c.name}/monotonic",
                          f"{c.name}: is_monotonic() is computed ({rt[:1]}) and tsukamoto() is overridden" if overrides else
                          f"{c.name}: is_monotonic() is computed ({'; '.join(rt)[:80]}) and can answer True, but {c.name} inherits the tsukamoto() that refuses: "
                          "a term that declares itself monotonic cannot be inverted", loc(fn))
            continue
        ok = bool(val) == overrides
        check.require(ok, rule, f"{c.name}/monotonic", f"{c.name}: is_monotonic()={val}, tsukamoto() {'overridden' if overrides else 'refuses (inherited)'}"
                      if ok else f"{c.name}: is_monotonic() returns {val} but tsukamoto() is {'overridden' if overrides else 'not implemented'}: "
                      + ("the weighted defuzzifiers will call a tsukamoto() that raises" if val else "a monotonic inverse exists but Tsukamoto inference is never selected"),
                      c.loc())
    # the default refuses
    fn = base.lookup("tsukamoto")
    raises = [s for s in ast.walk(fn.analysis_node) if isinstance(s, ast.Raise)]
    check.require(bool(raises), rule, "Term.tsukamoto/refuses", "non-monotonic terms refuse the Tsukamoto operation", loc(fn))
