"""C03 - Membership functions match their documented definitions (shape-level clauses)."""

from __future__ import annotations

import ast

from ..absint import ALL, FINITE, NAN, NUM, PINF, POS, NEG, Abs, Evaluator, return_term, show_abs
from ..pm import AnalysisError, ClassInfo, unparse
from ..report import Check
from ..sym import Resolver, Term, path_of, show, walk
from .common import loc

EXPLANATION = (
    "static analysis of the 20 shape terms. (1) Order-type interpretation (sa/ordertype.py): for every feasible order type of "
    "(x, parameters) - which coincide, which lie below which, which are infinite, on which side of every compared linear form "
    "(midpoints, centre +- half width) x lies; enumerated through rational witnesses - the kernel's resolved return term is "
    "interpreted: comparisons are decided by the order type, differences get their exact sign. A2: no order type with valid "
    "parameters and a non-NaN x yields a definite NaN (a 0/0 selected at a degenerate edge). A3: the kernel agrees with the "
    "documented definition (class docstrings, transcribed in SPECS) at every order type - as sign classes everywhere and, where "
    "x and the parameters are finite, as exact values: both sides are brought to a rational-function normal form for that piece "
    "(sa/algebra.py: polynomials over the parameters, sqrt/exp/cos/abs/pow as function symbols) and compared. (2) Extended-sign "
    "abstract interpretation: x = NaN yields exactly {NaN}; x = +-inf yields a number in {zero, pos}. (3) def-use: height and every "
    "shape parameter reach the result; is_monotonic() is True iff tsukamoto() is overridden (a computed answer needs an override); "
    "elementwise safety of every kernel (C02/V1); operators only after scalar() coercion (V8); kernels are pure functions of x and the parameters (K1)"
    "; no division between plain numbers (no array operand in it) has a zero denominator at any valid order type (A4: Python raises where numpy yields inf); every kernel returns the broadcast shape of its operands and never reduces over, indexes away or concatenates along an operand's dimension (V9 on the shape lattice)"
    "; Discrete is height * numpy.interp(x, column 0, column 1) with numpy's default ends; x witnesses within the comparison tolerance of every parameter witness; a min / max the order type leaves open is decided at the witness (a disagreement there is a concrete counterexample)"
)
ASSUMPTIONS = [
    "real arithmetic: equality with the documented closed form is decided over the reals; floating-point rounding at the ends of a support "
    "(the Arc / SemiEllipse end points mentioned in the property) is not modelled",
    "the transcription of the documented definitions in SPECS (sa/rules/c03.py) is faithful; where docstring and code order their cases differently "
    "(Trapezoid, Triangle) the cases are applied plateau first",
    "monotonicity in x and the range [0, height] at interior points are not decided beyond the sign class",
    "parameters are numbers (finite, or the documented infinite shoulders), height > 0; widths and deviations positive, slopes non-zero",
]
LEVEL_SCOPE = ("Decides the listed clauses for every order type (piece) over real arithmetic, reporting only definite disagreements; floating-point "
               "rounding and the clauses listed as undecided are not decided.")
FLOORS = {"V9": 100, "V10": 2, "K1": 20, "A1": 20, "A1b": 36, "A2": 19, "A3": 19, "A4": 19, "D1": 20, "D2": 50, "M1": 26, "V1": 20, "V8": 19}

# positive-by-definition parameters (valid parameterisations): widths and standard deviations; slopes are non-zero
POSITIVE = {"width", "standard_deviation", "standard_deviation_a", "standard_deviation_b"}
NONZERO = {"slope", "rising", "falling"}
INF_EXEMPT = {
    "Ramp": "start == end is answered with NaN by design (the degenerate mask `increasing == decreasing`); not expressible without relating start and end",
    "Discrete": "values are arbitrary user data, the range clause does not apply",
}

SHAPES = ["Arc", "Bell", "Binary", "Concave", "Cosine", "Discrete", "Gaussian", "GaussianProduct", "PiShape", "Ramp", "Rectangle",
          "SemiEllipse", "Sigmoid", "SigmoidDifference", "SigmoidProduct", "Spike", "SShape", "Trapezoid", "Triangle", "ZShape"]


def shape_params(c: ClassInfo) -> list[str]:
    init = c.lookup("__init__")
    return [x.name for x in init.params if x.name not in ("self", "name", "height")]


def run(check: Check) -> None:
    from .common import numpy_pitfalls

    if not numpy_pitfalls(check, "V10", {"fuzzylite/term.py"}):
        return  # the kernels are not the elementwise expressions the interpreters assume
    from .c02 import shapes

    shapes(check, only_kernels_of=("Term",))  # V9: every kernel returns the broadcast shape of its operands and never mixes their rows / sample points
    from . import c02

    p = check.program
    for name in SHAPES:
        c = p.cls(name)
        fn = c.lookup("membership")
        if fn is None or fn.cls is not c:
            raise AnalysisError(f"anchor vanished: {name}.membership")
        check.analysed(fn)
        from .common import kernel_purity

        if not kernel_purity(check, fn, "K1", f"{name}.membership/pure", set(shape_params(c)) | {"height", "name"}):
            continue  # the remaining rules interpret the kernel as a function of x and the parameters
        from .common import coerce_first

        if not coerce_first(check, fn, "V8", f"{name}.membership/coerce-first"):
            continue  # the operands are not the values the interpreters assume
        # V1 elementwise safety of this kernel
        if c02.kernel_elementwise(check, fn, "V1", f"{name}.membership"):
            continue  # a decision taken for the whole batch: the kernel is not the elementwise expression the interpreters assume
        from ..ordertype import flatten

        t = flatten(p, return_term(p, c, "membership"))  # nested term constructions and the library's one-line helpers (Op.is_close, ...) inlined
        xname = fn.params[1].name
        # A1
        def env(term: Term, xname=xname):
            if term == ("param", xname):
                return Abs({NAN})
            if term[0] == "attr" and term[1] == ("param", "self"):
                if term[2] == "height":
                    return Abs({POS})
                if term[2] == "values":
                    return Abs(FINITE)
                return Abs(NUM)
            if term[0] == "sub" and term[1][0] == "attr" and term[1][1] == ("param", "self"):
                return Abs(FINITE)
            return None

        v = Evaluator(p, env).ev(t)
        ok = v == Abs({NAN})
        check.require(ok, "A1", f"{name}.membership/nan", f"membership(NaN) = {show_abs(v)}" + ("" if ok else
                      ": a NaN input can yield a number (the NaN mask is missing where comparisons swallow NaN)"), loc(fn),
                      {"result": show_abs(v)}, exhaustive=True, cases=1)
        # A1b: at x = +inf and x = -inf (finite parameters) the value is a number in [0, h]: never NaN, never infinite, never negative
        if name in INF_EXEMPT:
            check.notes.append(f"A1b not applied to {name}: {INF_EXEMPT[name]}")
        else:
            from ..absint import NINF, ZERO

            for xv in (PINF, NINF):
                def env_inf(term: Term, xname=xname, xv=xv):
                    if term == ("param", xname):
                        return Abs({xv})
                    if term[0] == "attr" and term[1] == ("param", "self"):
                        if term[2] == "height" or term[2] in POSITIVE:
                            return Abs({POS})
                        if term[2] in NONZERO:
                            return Abs({NEG, POS})
                        return Abs(FINITE)
                    return None

                v = Evaluator(p, env_inf).ev(t)
                ok = v <= Abs({ZERO, POS})
                check.require(ok, "A1b", f"{name}.membership/{xv}", f"membership({xv}) = {show_abs(v)}" + ("" if ok else
                              ": at infinity the value must be a number in [0, height] (NaN, infinite or negative results are possible)"), loc(fn),
                              {"result": show_abs(v)}, exhaustive=True, cases=1)
        # D1 / D2
        reads = {s[2] for s in walk(t) if s[0] == "attr" and s[1] == ("param", "self")}
        check.require("height" in reads, "D1", f"{name}.membership/height", "the returned value depends on self.height" if "height" in reads else
                      "self.height does not reach the returned value (terms with height != 1 are evaluated as if height were 1)", loc(fn))
        for prm in shape_params(c):
            ok = prm in reads
            check.require(ok, "D2", f"{name}.membership/{prm}", f"parameter `{prm}` reaches the returned value" if ok else
                          f"parameter `{prm}` is stored by the constructor but never read by membership()", loc(fn))
    order_type_rules(check)
    monotonic_table(check)
    check.exhaustive_parts += ["NaN-in => NaN-out: exact abstract result per term", "order types of (x, parameters) per piecewise kernel"]


# ------------------------------------------------------------------------------------------------ A2 / A3
# Documented definitions (class docstrings of fuzzylite/term.py), transcribed: short names -> constructor parameters, the
# parameterisations the definition is stated for, and the cases in the order in which they apply (first match wins).
SPECS: dict[str, dict] = {
    "Binary": {"names": {"s": "start", "d": "direction"}, "valid": "d != s",
               "cases": [("(d > s and x >= s) or (d < s and x <= s)", "h"), (None, "0")]},
    "Concave": {"names": {"i": "inflection", "e": "end"}, "valid": "i != e",
                "cases": [("i <= e and x < e", "h * (e - i) / (2 * e - i - x)"), ("i > e and x > e", "h * (i - e) / (i - 2 * e + x)"), (None, "h")]},
    "Cosine": {"names": {"c": "center", "w": "width"}, "valid": None,
               "cases": [("c - w / 2 <= x <= c + w / 2", "h / 2 * (1 + cos(2 / w * pi * (x - c)))"), (None, "0")]},
    "Ramp": {"names": {"s": "start", "e": "end"}, "valid": "s != e",
             "cases": [("s < x < e", "h * (x - s) / (e - s)"), ("e < x < s", "h * (s - x) / (s - e)"), ("s < e and x >= e", "h"),
                       ("s > e and x <= e", "h"), (None, "0")]},
    "Rectangle": {"names": {"s": "start", "e": "end"}, "valid": None,
                  "cases": [("min(s, e) <= x <= max(s, e)", "h"), (None, "0")]},
    "SShape": {"names": {"s": "start", "e": "end"}, "valid": "s <= e",
               "cases": [("x <= s", "0"), ("x <= (s + e) / 2", "2 * h * ((x - s) / (e - s)) ** 2"),
                         ("x < e", "h - 2 * h * ((x - e) / (e - s)) ** 2"), (None, "h")]},
    "ZShape": {"names": {"s": "start", "e": "end"}, "valid": "s <= e",
               "cases": [("x <= s", "h"), ("x < (s + e) / 2", "h - 2 * h * ((x - s) / (e - s)) ** 2"),
                         ("x < e", "2 * h * ((x - e) / (e - s)) ** 2"), (None, "0")]},
    "Trapezoid": {"names": {"a": "bottom_left", "b": "top_left", "c": "top_right", "d": "bottom_right"}, "valid": "a <= b <= c <= d",
                  "cases": [("x < a or x > d", "0"), ("(b <= x <= c) or (a == -inf and x < b) or (d == inf and x > c)", "h"),
                            ("x < b", "h * (x - a) / (b - a)"), ("x > c", "h * (d - x) / (d - c)")]},
    "Triangle": {"names": {"a": "left", "b": "top", "c": "right"}, "valid": "a <= b <= c",
                 "cases": [("x < a or x > c", "0"), ("x == b or (a == -inf and x < b) or (c == inf and x > b)", "h"),
                           ("x < b", "h * (x - a) / (b - a)"), ("x > b", "h * (c - x) / (c - b)")]},
    "SemiEllipse": {"names": {"s": "start", "e": "end"}, "valid": "s != e",
                    "cases": [("min(s, e) <= x <= max(s, e)",
                               "h * sqrt(((max(s, e) - min(s, e)) / 2) ** 2 - (x - (min(s, e) + (max(s, e) - min(s, e)) / 2)) ** 2) / ((max(s, e) - min(s, e)) / 2)"),
                              (None, "0")]},
    "Arc": {"names": {"s": "start", "e": "end"}, "valid": "s != e",
            "cases": [("(s < e and s <= x <= e) or (s > e and e <= x <= s)", "h * sqrt((e - s) ** 2 - (x - e) ** 2) / abs(e - s)"),
                      ("(s < e and x > e) or (s > e and x < e)", "h"), (None, "0")]},
    "Bell": {"names": {"c": "center", "w": "width", "s": "slope"}, "valid": None,
             "cases": [(None, "h / (1 + (abs(x - c) / w) ** (2 * s))")]},
    "Gaussian": {"names": {"m": "mean", "d": "standard_deviation"}, "valid": None,
                 "cases": [(None, "h * exp(-(x - m) ** 2 / (2 * d ** 2))")]},
    "GaussianProduct": {"names": {"ma": "mean_a", "da": "standard_deviation_a", "mb": "mean_b", "db": "standard_deviation_b"}, "valid": None,
                        "cases": [("x < ma and x > mb", "h * exp(-(x - ma) ** 2 / (2 * da ** 2)) * exp(-(x - mb) ** 2 / (2 * db ** 2))"),
                                  ("x < ma", "h * exp(-(x - ma) ** 2 / (2 * da ** 2))"), ("x > mb", "h * exp(-(x - mb) ** 2 / (2 * db ** 2))"), (None, "h")]},
    "Sigmoid": {"names": {"i": "inflection", "s": "slope"}, "valid": None, "cases": [(None, "h / (1 + exp(-s * (x - i)))")]},
    "SigmoidDifference": {"names": {"l": "left", "r": "rising", "f": "falling", "g": "right"}, "valid": None,
                          "cases": [(None, "h * abs(1 / (1 + exp(-r * (x - l))) - 1 / (1 + exp(-f * (x - g))))")]},
    "SigmoidProduct": {"names": {"l": "left", "r": "rising", "f": "falling", "g": "right"}, "valid": None,
                       "cases": [(None, "h * (1 / (1 + exp(-r * (x - l)))) * (1 / (1 + exp(-f * (x - g))))")]},
    "Spike": {"names": {"c": "center", "w": "width"}, "valid": None, "cases": [(None, "h * exp(-abs(10 / w * (x - c)))")]},
}
# PiShape = h * SShape(bottom_left, top_left)(x) * ZShape(top_right, bottom_right)(x): the product of the two definitions, piece by piece
_S = [("x <= a", "0"), ("x <= (a + b) / 2", "2 * ((x - a) / (b - a)) ** 2"), ("x < b", "1 - 2 * ((x - b) / (b - a)) ** 2"), ("True", "1")]
_Z = [("x <= c", "1"), ("x < (c + d) / 2", "1 - 2 * ((x - c) / (d - c)) ** 2"), ("x < d", "2 * ((x - d) / (d - c)) ** 2"), ("True", "0")]
SPECS["PiShape"] = {"names": {"a": "bottom_left", "b": "top_left", "c": "top_right", "d": "bottom_right"}, "valid": "a <= b and c <= d",  # the documented product of the two edges: nothing orders the edges among themselves
                    "cases": [(f"({cs}) and ({cz})", f"h * ({vs}) * ({vz})") for i_, (cs, vs) in enumerate(_S) for j_, (cz, vz) in enumerate(_Z)]}
# (first match wins on the product list only if the S cases are tried in order for each Z case: make the conditions exclusive)
SPECS["PiShape"]["cases"] = [
    (" and ".join([f"not ({p_})" for p_, _ in _S[:i_]] + [f"({cs})"] + [f"not ({p_})" for p_, _ in _Z[:j_]] + [f"({cz})"]), f"h * ({vs}) * ({vz})")
    for i_, (cs, vs) in enumerate(_S) for j_, (cz, vz) in enumerate(_Z)]
# order types at which the pinned kernel answers NaN for a non-NaN x, and why this is not reported
NAN_BY_DESIGN = {
    "Ramp": "start == end is answered with NaN on purpose (the mask `(start < end) == (start > end)`); the definition is stated for start != end",
}
INFINITE_OK = {"Triangle": {"left": -1, "right": +1}, "Trapezoid": {"bottom_left": -1, "bottom_right": +1},  # documented infinite shoulders
               "Rectangle": {"start": -1, "end": +1}}  # `s <= x <= e` is meaningful for an open-ended rectangle


_OT_CACHE: dict = {}  # (class, flattened kernel term, argument) -> per-order-type results: the result is a function of the term alone


class _Witness(dict):
    def __missing__(self, key):  # type: ignore[no-untyped-def]
        return 1.37


def exact_cases(cases, ev, alg):  # type: ignore[no-untyped-def]
    """The documented value at this order type (first matching case), as a normal form."""
    from ..absint import is_bool
    from ..ordertype import NotAlgebraic, exact_value

    for cond, value in cases:
        if cond is None:
            return exact_value(value, ev, alg)
        c = ev.ev(cond)
        if not is_bool(c) or len(c) != 1:
            raise NotAlgebraic("undecided case of the definition")
        if True in c:
            return exact_value(value, ev, alg)
    from ..ordertype import IsNaN

    raise IsNaN()


def discrete_definition(check: Check) -> None:
    """A3 for `Discrete` (whose pairs are user data): the value is `height * interp(x; xs, ys)` - numpy's piecewise-linear interpolation of the
    term's own x / y columns at x, with numpy's default treatment of the ends (the first / last y is held outside the sampled range: that is the
    value "at +-inf" of the statement) and no period."""
    from ..ordertype import flatten, unwrap

    p = check.program
    c = p.cls("Discrete")
    fn = c.lookup("membership")
    t = flatten(p, return_term(p, c, "membership"))
    X = ("param", fn.params[1].name)
    H = ("attr", ("param", "self"), "height")
    VALUES = ("attr", ("param", "self"), "values")

    def column(u: Term, seen: int = 0) -> int | None:
        u = unwrap(u)
        if u[0] == "call" and u[1][0] == "attr" and u[1][1] == ("param", "self") and not u[2] and seen < 3:
            m = c.lookup(u[1][2])
            if m is not None:
                try:
                    return column(flatten(p, return_term(p, c, u[1][2])), seen + 1)
                except AnalysisError:
                    return None
        if u[0] == "sub" and unwrap(u[1]) == VALUES and u[2][0] == "tuple" and len(u[2][1]) == 2:
            rows, col = u[2][1]
            if rows == ("slice", ("const", None), ("const", None), ("const", None)) and col[0] == "const" and col[1] in (0, 1):
                return col[1]
        if u[0] == "sub" and u[1][0] == "attr" and u[1][2] == "T" and unwrap(u[1][1]) == VALUES and u[2][0] == "const" and u[2][1] in (0, 1):
            return u[2][1]
        return None

    why = None
    core = None
    if t[0] == "binop" and t[1] == "*":
        for a, b in ((t[2], t[3]), (t[3], t[2])):
            if unwrap(a) == H:
                core = unwrap(b)
    if core is None or not (core[0] == "call" and core[1] == ("global", "numpy.interp")):
        raise AnalysisError("Discrete.membership: the value is not `height * numpy.interp(...)` - a shape of the kernel this rule does not know")
    args, kw = list(core[2]), dict(core[3])
    for k in ("x", "xp", "fp"):
        if k in kw:
            args.append(kw.pop(k))
    if len(args) != 3:
        why = f"numpy.interp is called with {len(args)} arguments besides the keywords"
    elif unwrap(args[0]) != X:
        why = "the point interpolated at is not the argument x"
    elif column(args[1]) != 0 or column(args[2]) != 1:
        why = "the interpolation nodes are not (column 0, column 1) of the term's own values"
    else:
        odd = {k: v for k, v in kw.items() if not (v[0] == "const" and v[1] is None)}
        if odd:
            why = (f"numpy.interp is given {', '.join(sorted(odd))}: outside the sampled range the value is no longer the first / last y of the table "
                   "(the documented interpolation holds the end values, also at -inf and +inf)") if set(odd) & {"left", "right"} else f"numpy.interp is given {', '.join(sorted(odd))}"
    check.require(why is None, "A3", "Discrete.membership/definition", "Discrete: height * piecewise-linear interpolation of the term's (x, y) pairs at x, end values held outside "
                  "the sampled range" if why is None else f"Discrete: {why}", loc(fn), {"term": show(t)[:200]})


def order_type_rules(check: Check) -> None:
    """A2: at no order type of (x, parameters) with valid parameters and x not NaN is the value definitely NaN.
    A3: at no order type does the kernel disagree with the documented definition: first as sign classes (NaN / zero / positive /
    negative / infinite), then - where x and the parameters are finite - as exact values: both sides are brought to a
    rational-function normal form for that order type and compared."""
    from ..algebra import Algebra
    from ..ordertype import (X_GRID, IsNaN, LinearForms, NotAlgebraic, OrderEval, abs_sign_oracle, make_algebra, comparison_forms, describe, eval_cases, exact_value,
                             flatten, leaf_env, numeric_witness, order_types, spec_term)

    p = check.program
    for name in SHAPES:
        if name == "Discrete":
            if not any(o.rule == "K1" and o.status == "violation" and o.construct.startswith("Discrete.") for o in check.obligations):
                discrete_definition(check)
            continue
        c = p.cls(name)
        fn = c.lookup("membership")
        if any(o.rule in ("K1", "V1", "V8") and o.status == "violation" and o.construct.startswith(name + ".") for o in check.obligations):
            continue
        xname = fn.params[1].name
        X = ("param", xname)
        code = flatten(p, return_term(p, c, "membership"))
        H = ("attr", ("param", "self"), "height")
        atoms: dict = {}
        for prm in shape_params(c):
            a = ("attr", ("param", "self"), prm)
            atoms[a] = "positive" if prm in POSITIVE else ("nonzero" if prm in NONZERO else "position")
        params = dict(atoms)
        atoms[X] = "position"
        spec = SPECS.get(name)
        names = {"x": X, "h": H}
        cases = None
        valid_t = None
        if spec is not None:
            names.update({k: ("attr", ("param", "self"), v) for k, v in spec["names"].items()})
            if spec["valid"]:
                valid_t = spec_term(spec["valid"], names)
            if spec["cases"]:
                cases = [(spec_term(cnd, names) if cnd else None, spec_term(val, names)) for cnd, val in spec["cases"]]
        lf0 = LinearForms({a: 0 for a in atoms}, atoms, {})
        all_terms = [code] + ([valid_t] if valid_t is not None else []) + [t for cs in (cases or []) for t in cs if t is not None]
        forms = comparison_forms(lf0, all_terms)
        inf_ok = INFINITE_OK.get(name, {})

        def valid(lf, valid_t=valid_t, inf_ok=inf_ok) -> bool:  # type: ignore[no-untyped-def]
            for a, v in lf.val.items():
                if a != X and v in (float("inf"), float("-inf")):
                    if inf_ok.get(a[2]) != (1 if v > 0 else -1):
                        return False
            if valid_t is None:
                return True
            return OrderEval(p, lf, leaf_env(lf, H)).ev(valid_t) == frozenset({True})

        short = {X: "x", H: "h", **{a: a[2] for a in params}}
        n_types = n_nanfree = n_agree = n_exact = n_exact_tried = 0
        nan_at, differs, undecided = [], [], []
        # A4: divisions between plain numbers (no array operand anywhere in them) - Python raises ZeroDivisionError where numpy yields inf / nan,
        # and Python evaluates them whether or not a later np.where selects the result
        def has_array(u_: Term) -> bool:
            return any(q == X or (q[0] == "call" and q[1][0] == "global" and q[1][1].startswith("numpy.")) for q in walk(u_))

        scalar_divisions = [u_ for u_ in walk(code) if u_[0] == "binop" and u_[1] in ("/", "//", "%") and not has_array(u_[2]) and not has_array(u_[3])]
        scalar_zero: list[tuple[str, str]] = []
        ckey = (name, code, X)
        cached = _OT_CACHE.get(ckey)
        if cached is not None:
            n_types, n_nanfree, n_agree, n_exact, n_exact_tried, nan_at, differs, undecided, scalar_zero = cached
            nan_at, differs, undecided, scalar_zero = list(nan_at), list(differs), list(undecided), list(scalar_zero)
        for lf in (order_types(atoms, forms, valid, {X: X_GRID}) if cached is None else ()):
            n_types += 1
            ev = OrderEval(p, lf, leaf_env(lf, H))
            got = ev.ev(code)
            where = describe(lf, short)
            for u_ in scalar_divisions:
                den = lf.lin(u_[3])
                # the order type comes with a concrete valid parameterisation (lf.val): a denominator that is zero there is a witness
                if den is not None and not scalar_zero and all(lf.val[q] not in (float("inf"), float("-inf")) for q in den[0]) and \
                        sum(c_ * lf.val[q] for q, c_ in den[0].items()) + den[1] == 0:
                    scalar_zero.append((where, show(u_)))
            if got == Abs({NAN}):
                nan_at.append(where)
            elif NAN not in got:
                n_nanfree += 1
            if cases is None:
                continue
            want = eval_cases(OrderEval(p, lf, leaf_env(lf, H)), cases)
            if not (set(got) & set(want)):
                differs.append((where, show_abs(got), show_abs(want)))
                continue
            if len(got) == 1 and got == want:
                n_agree += 1
            if any(v in (float("inf"), float("-inf")) for v in lf.val.values()):
                continue
            # exact comparison on this piece
            n_exact_tried += 1
            alg = make_algebra(lf)
            alg.witness = _Witness(numeric_witness(lf, {H: 0.75}))  # where the order type leaves a min / max of two curves open it is decided at this point
            alg.witness_only = False
            try:
                try:
                    rc = exact_value(code, ev, alg)
                except IsNaN:
                    rc = "nan"
                try:
                    rs = exact_cases(cases, ev, alg)
                except IsNaN:
                    rs = "nan"
            except NotAlgebraic as ex:
                undecided.append((where, str(ex)))
                continue
            if rc == "nan" or rs == "nan":
                if rc == rs:
                    n_exact += 1
                else:
                    differs.append((where, "nan" if rc == "nan" else rc.show(alg.name(short)), "nan" if rs == "nan" else rs.show(alg.name(short))))
                continue
            if rc.equals(rs):
                if alg.witness_only:
                    undecided.append((where, "equal at the witness; a min / max of two curves is not ordered by the order type"))
                else:
                    n_exact += 1
                continue
            w = _Witness(numeric_witness(lf, {H: 0.75}))
            a_, b_ = alg.evaluate(rc, w), alg.evaluate(rs, w)
            if a_ == a_ and b_ == b_ and abs(a_ - b_) > 1e-9 * max(1.0, abs(a_), abs(b_)):
                differs.append((where, rc.show(alg.name(short)), rs.show(alg.name(short))))
            else:
                undecided.append((where, "normal forms differ but no numeric difference at the witness"))
        if n_types == 0:
            raise AnalysisError(f"{name}: no order type enumerated")
        _OT_CACHE[ckey] = (n_types, n_nanfree, n_agree, n_exact, n_exact_tried, tuple(nan_at), tuple(differs), tuple(undecided), tuple(scalar_zero))
        check.require(not scalar_zero, "A4", f"{name}.membership/scalar-division",
                      f"{name}: no division between plain numbers has a zero denominator at a valid order type ({len(scalar_divisions)} such divisions, {n_types} order types)"
                      if not scalar_zero else f"{name}: at `{scalar_zero[0][0]}` (valid parameters) `{scalar_zero[0][1][:80]}` divides one plain number by another that is zero: "
                      "with parameters given as Python numbers this raises ZeroDivisionError whatever np.where selects afterwards (the same division with the array "
                      "operand inside yields inf / nan that is discarded)", loc(fn), {"scalar_divisions": len(scalar_divisions), "order_types": n_types},
                      exhaustive=True, cases=n_types)
        if name in NAN_BY_DESIGN and nan_at:
            check.notes.append(f"A2 {name}: NaN at {len(nan_at)} order types - {NAN_BY_DESIGN[name]}")
            nan_at = []
        check.require(not nan_at, "A2", f"{name}.membership/order-types",
                      f"{name}: no order type of (x, parameters) yields a definite NaN ({n_types} order types; NaN excluded at {n_nanfree})" if not nan_at else
                      f"{name}: membership is NaN for a non-NaN x at the order type `{nan_at[0]}`" + (f" (and {len(nan_at) - 1} more)" if len(nan_at) > 1 else "")
                      + ": a division 0/0 (or inf-inf) is selected there - the comparison operator at that breakpoint lets the degenerate case through",
                      loc(fn), {"order_types": n_types, "nan_free": n_nanfree, "nan_at": nan_at[:5]}, exhaustive=True, cases=n_types)
        if cases is not None:
            check.require(not differs, "A3", f"{name}.membership/definition",
                          f"{name}: the kernel equals the documented definition at every order type ({n_types} order types; equal as exact normal forms at "
                          f"{n_exact} of the {n_exact_tried} finite ones, sign classes agree at the rest)"
                          if not differs else f"{name}: at `{differs[0][0]}` the kernel yields {differs[0][1][:120]} where the documented definition yields {differs[0][2][:120]}"
                          + (f" (and {len(differs) - 1} more order types)" if len(differs) > 1 else ""), loc(fn),
                          {"order_types": n_types, "sign_exact": n_agree, "normal_form_equal": n_exact, "finite_order_types": n_exact_tried,
                           "undecided": undecided[:5], "differences": differs[:5]}, exhaustive=True, cases=n_types)


def monotonic_table(check: Check, rule: str = "M1") -> None:
    p = check.program
    base = p.cls("Term")
    for c in [base] + p.subclasses("Term"):
        fn = c.lookup("is_monotonic")
        if fn is None:
            raise AnalysisError("anchor vanished: Term.is_monotonic")
        rets = [s.value for s in ast.walk(fn.analysis_node) if isinstance(s, ast.Return)]
        val = rets[0].value if len(rets) == 1 and isinstance(rets[0], ast.Constant) else None
        ts = c.lookup("tsukamoto")
        overrides = ts is not None and ts.cls is not base
        if val is None:
            # a computed answer (e.g. delegated to a wrapped term): it can be True, so the class must then be able to invert
            r = Resolver(p, fn)
            rt = [show(r.term(s.value, m)) for m in r.cfg.stmt_nodes() for s in [m.ast] if isinstance(s, ast.Return) and s.value is not None]
            check.require(overrides, rule, f"{c.name}/monotonic",
                          f"{c.name}: is_monotonic() is computed ({rt[:1]}) and tsukamoto() is overridden" if overrides else
                          f"{c.name}: is_monotonic() is computed ({'; '.join(rt)[:80]}) and can answer True, but {c.name} inherits the tsukamoto() that refuses: "
                          "a term that declares itself monotonic cannot be inverted", loc(fn))
            continue
        ok = bool(val) == overrides
        check.require(ok, rule, f"{c.name}/monotonic", f"{c.name}: is_monotonic()={val}, tsukamoto() {'overridden' if overrides else 'refuses (inherited)'}"
                      if ok else f"{c.name}: is_monotonic() returns {val} but tsukamoto() is {'overridden' if overrides else 'not implemented'}: "
                      + ("the weighted defuzzifiers will call a tsukamoto() that raises" if val else "a monotonic inverse exists but Tsukamoto inference is never selected"),
                      c.loc())
    # the default refuses
    fn = base.lookup("tsukamoto")
    raises = [s for s in ast.walk(fn.analysis_node) if isinstance(s, ast.Raise)]
    check.require(bool(raises), rule, "Term.tsukamoto/refuses", "non-monotonic terms refuse the Tsukamoto operation", loc(fn))
