"""C07 - Each conclusion of a triggered rule contributes exactly its own activation."""

from __future__ import annotations

from ..report import Check
from . import wiring

EXPLANATION = (
    "static analysis of Consequent.modify, Rule.trigger and the Activated.degree setter: loop-carried reaching "
    "definitions into the degree argument of Activated(...) w.r.t. the loop over conclusions (independence), abstract "
    "interpretation of one iteration (exactly one append per enabled conclusion, to its own variable, with its own "
    "term and the given implication), enabled guard of Rule.trigger, the non-finite replacement table nan->0, -inf->0, "
    "+inf->1 and the constructor going through the sanitising setter, hedge order; no numpy in-place interface (copy=False, out=, "
    "copyto/put, op= on an array parameter) on a value handed in along the trigger path (T2-own); who-may-call for Consequent.modify; "
    "Consequent.load replaces the list of conclusions (O9) and, interpreted abstractly, is the consequent grammar automaton (LD)"
)
ASSUMPTIONS = ["numpy.nan_to_num keyword semantics"]
FLOORS = {"L1": 1, "P5": 5, "P4": 3, "T2": 4, "H1": 1, "T2-own": 1, "O9": 2, "LD": 4}


def run(check: Check) -> None:
    wiring.p4_who_modifies(check)
    wiring.modify_rules(check, p5=True, l1=True, h1=True)
    wiring.p4_trigger(check)
    wiring.t2_nonfinite(check)
    from .c13 import no_inplace_on_handed_values

    no_inplace_on_handed_values(check, ["Rule.trigger"], rule="T2-own")
    from . import c16

    # the conclusions that modify() iterates are exactly those of the text last loaded: a (re)load replaces the list, it never grows it
    c16.load_atomicity(check, only="Consequent.load")
    from . import loaders

    loaders.loader(check, "Consequent.load")
    check.exhaustive_parts.append("one iteration of Consequent.modify under enabled/disabled")
