"""C07 - Each conclusion of a triggered rule contributes exactly its own activation."""

from __future__ import annotations

from ..report import Check
from . import wiring

EXPLANATION = (
    "static analysis of Consequent.modify, Rule.trigger and the Activated.degree setter: loop-carried reaching "
    "definitions into the degree argument of Activated(...) w.r.t. the loop over conclusions (independence), abstract "
    "interpretation of one iteration (exactly one append per enabled conclusion, to its own variable, with its own "
    "term and the given implication), enabled guard of Rule.trigger, the non-finite replacement table nan->0, -inf->0, "
    "+inf->1 and the constructor going through the sanitising setter, hedge order; no numpy in-place interface (copy=False, out=, "
    "copyto/put, op= on an array parameter) on a value handed in along the trigger path (T2-own); who-may-call for Consequent.modify; "
    "Consequent.load replaces the list of conclusions (O9) and, interpreted abstractly, is the consequent grammar automaton (LD)"
    "; Consequent.modify is interpreted on 120 model consequents with a symbolic activation degree, uninterpreted hedges and numpy, and the real Activated constructor and degree setter: one activated term per conclusion on an enabled variable, carrying the concluded term, the implication handed in and the degree S[H(d)] of its own hedges (M-sem); the independence of conclusions is the known finding L1, found by the same interpretation"
    "; the implication handed to the rules is the block's own under every activation method (P2); Consequent.modify leaves the rule's conclusions as they were"
)
ASSUMPTIONS = ["numpy.nan_to_num keyword semantics"]
FLOORS = {"H8": 2, "L1": 1, "M-sem": 4, "P4": 3, "T2": 4, "T2-own": 1, "O9": 2, "LD": 4}


def run(check: Check) -> None:
    from .common import memoisation_rule

    memoisation_rule(check)  # H8: the hedges a conclusion is modified with are the ones registered when the rule is loaded - no lookup answers from a cache
    wiring.p4_who_modifies(check)
    from .consequent_sem import consequent_semantics

    # Consequent.modify is decided by interpretation on model consequents with a symbolic degree (sa/rules/consequent_sem.py); the rules of
    # earlier rounds that located the loop, the append, the Activated(...) call and the hedge loop (P5, H1, the structural L1) are subsumed
    consequent_semantics(check)
    wiring.p4_trigger(check)
    from . import c08
    from .activation_sem import activation_semantics

    for cls in c08.ACTIVATIONS:  # "carrying ... the block's implication operator": whichever activation method fires the rule
        activation_semantics(check, cls, ("implication",))
    wiring.t2_nonfinite(check)
    from .c13 import no_inplace_on_handed_values

    no_inplace_on_handed_values(check, ["Rule.trigger"], rule="T2-own")
    from . import c16

    # the conclusions that modify() iterates are exactly those of the text last loaded: a (re)load replaces the list, it never grows it
    c16.load_atomicity(check, only="Consequent.load")
    from . import loaders

    loaders.loader(check, "Consequent.load")
    wiring.rule_load_semantics(check)  # the conclusions are those of the text the rule has now: Rule.load reloads both parts whatever was loaded before
    check.exhaustive_parts.append("one iteration of Consequent.modify under enabled/disabled")
