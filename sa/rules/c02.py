"""C02 - Batch (vectorised) processing equals row-by-row float processing (shape-level clauses)."""

from __future__ import annotations

import ast

from ..callgraph import CallGraph
from ..cfg import CFG, Node, cfg_of, name_uses
from ..pm import AnalysisError, FunctionInfo, Program, unparse
from ..report import Check
from ..sym import Resolver, Term, path_of, show, walk
from ..tables import function_factory
from .common import body_entry, const_value, is_path, iter_base, iter_precedes, loc, loops_over, strip

EXPLANATION = (
    "static analysis of the processing path (every function reachable from Engine.process, the input_values "
    "getter/setter and every kernel dispatched through a registry: terms, norms, hedges, defuzzifiers, formula "
    "functions): an array-taint analysis (sources: values typed Scalar/ScalarArray and numpy results computed from "
    "them; sinks: truth contexts, bool/float/int/round/min/max/sorted/math.*, heap keys; sanitisers: size/ndim/shape/"
    "len/isinstance/any/all, nditer elements, dominating size guards that raise) shows that no construct on the path "
    "is defined only for single values; in-place writes into a defuzzifier result require an array coercion; the "
    "engine-level input matrix is distributed column i -> variable i for 0-, 1- and 2-dimensional inputs; the "
    "fill-forward loop carries its filler from row to row; kernels apply Python operators to their operands only after scalar() / "
    "numpy coercion and never through a re-interpreting view (V8); input values reach the variables through the clipping property, and "
    "only the property setter writes the backing field (who-may-write); V9 - a shape lattice (dimensions 1, n = batch rows, r = sample points) is pushed "
    "through every kernel, Activated/Aggregated.membership and the seven defuzzifiers: a batch keeps its row dimension, meets the sampling "
    "dimension only by column-against-row broadcasting, and every defuzzifier maps degrees (n,) to (n,) and () to (), also when the per-rule degrees have "
    "mixed shapes; V10 - no np.vectorize without otypes over a function with integer and non-integer results, no np.piecewise with a bare condition array"
    "; H9 / H10 - no in-place update reaches an array another holder still reads (such aliasing exists for arrays only, so the two modes would differ); scalar() is numpy's conversion to a plain array of the library's float type"
)
ASSUMPTIONS = [
    "numpy ufuncs, np.where and arithmetic operators are elementwise; numeric equality of the two modes is not decided",
    "values typed float (term parameters, ranges, thresholds) are single numbers",
]
FLOORS = {"V1": 90, "V2": 1, "V3": 6, "V4": 2, "V5": 2, "V6": 40, "V8": 50, "V9": 200, "V10": 2}

SCALAR_ATTRS = {"value", "_value", "degree", "_degree", "activation_degree", "triggered"}
SAFE_ATTRS = {"size", "ndim", "shape", "dtype", "name", "__name__", "enabled", "height", "lock_range", "lock_previous"}
SAFE_CALLS = {"numpy.size", "len", "isinstance", "issubclass", "numpy.isscalar", "numpy.ndim", "numpy.shape", "callable", "hasattr", "str", "repr",
              "type", "id", "range", "enumerate", "numpy.array2string", "getattr", "numpy.take"}
SINK_CALLS = {"bool", "float", "int", "round", "min", "max", "sorted", "complex"}
WRAPPERS = {"fuzzylite.library.scalar", "fuzzylite.library.array", "numpy.asarray", "numpy.array", "numpy.atleast_1d", "numpy.atleast_2d",
            "numpy.asanyarray", "numpy.squeeze", "numpy.copy", "numpy.transpose"}
SAFE_METHODS = {"any", "all", "item", "tolist", "get", "keys", "values", "items", "split", "strip", "join", "format", "lower", "upper", "find",
                "startswith", "endswith", "construct", "copy_", "is_loaded", "is_monotonic", "is_function", "is_operator", "infer_type", "parameters",
                "grouped_terms", "highest_activated_term", "term", "input_variable", "output_variable", "rule_block", "variable", "pop", "readlines"}
ARRAY_METHODS = {"sum", "squeeze", "astype", "max", "min", "mean", "cumsum", "copy", "flatten", "ravel", "reshape", "clip", "T", "prod", "round"}


def _annotation_is_array(a: ast.AST | None) -> bool:
    """The annotated value itself may be a numpy array (not: a container or callable mentioning arrays)."""
    if a is None:
        return False
    if isinstance(a, ast.Constant) and isinstance(a.value, str):
        try:
            return _annotation_is_array(ast.parse(a.value, mode="eval").body)
        except SyntaxError:
            return False
    if isinstance(a, ast.Name):
        return a.id in ("Scalar", "ScalarArray", "Array", "NDArray", "ndarray")
    if isinstance(a, ast.Attribute):
        return a.attr in ("ndarray", "NDArray")
    if isinstance(a, ast.BinOp) and isinstance(a.op, ast.BitOr):
        return _annotation_is_array(a.left) or _annotation_is_array(a.right)
    if isinstance(a, ast.Subscript):
        head = unparse(a.value).split(".")[-1]
        if head in ("Array", "NDArray", "ndarray"):
            return True
        if head in ("Optional", "Union"):
            inner = a.slice.elts if isinstance(a.slice, ast.Tuple) else [a.slice]
            return any(_annotation_is_array(x) for x in inner)
        return False
    return False


class Taint:
    def __init__(self, p: Program, fn: FunctionInfo, cg: CallGraph | None = None):
        self.p = p
        self.fn = fn
        self.r = Resolver(p, fn)
        self.cfg = self.r.cfg
        self.array_params = {x.name for x in fn.params if _annotation_is_array(x.annotation)}
        self._ret_cache: dict[str, bool] = {}

    def returns_array(self, meth: str) -> bool:
        if meth not in self._ret_cache:
            res = False
            for c in self.p.classes.values():
                for table in (c.methods, c.getters):
                    f = table.get(meth)
                    if f is not None and _annotation_is_array(f.node.returns):
                        res = True
            f = self.p.functions.get(meth)
            if f is not None and f.cls is None and _annotation_is_array(f.node.returns):
                res = True
            self._ret_cache[meth] = res
        return self._ret_cache[meth]

    def tainted(self, t: Term, checked: set[Term] = frozenset()) -> bool:  # type: ignore[assignment]
        if t in checked:
            return False
        k = t[0]
        if k == "param":
            return t[1] in self.array_params
        if k in ("const", "global", "opaque", "fstr", "carried", "localdef", "index", "exc", "with"):
            return False
        if k == "attr":
            if t[2] in SAFE_ATTRS:
                return False
            if t[2] in SCALAR_ATTRS:
                return True
            if t[2] == "T":
                return self.tainted(t[1], checked)
            if self.returns_array(t[2]) and any(t[2] in c.getters for c in self.p.classes.values()):
                return True
            return False
        if k == "call":
            f = t[1]
            args = list(t[2]) + [v for _, v in t[3]]
            if f[0] == "global":
                name = f[1]
                if name in SAFE_CALLS or name in SINK_CALLS or name.startswith("math."):
                    return False
                if name in WRAPPERS:
                    return any(self.tainted(a, checked) for a in t[2][:1])
                if name.startswith("numpy."):
                    return any(self.tainted(a, checked) for a in args)
                short = name.split(".")[-1]
                if name.startswith(self.p.package):
                    if short in self.p.classes:
                        return False  # constructing an object
                    # helper functions (Op.is_close, Op.scale, ...) are elementwise: array out iff array in
                    return self.returns_array(short) and any(self.tainted(a, checked) for a in args)
                return False
            if f[0] == "attr":
                meth = f[2]
                if meth in SAFE_METHODS:
                    return False
                if meth in ARRAY_METHODS:
                    return self.tainted(f[1], checked)
                if meth == "method" and f[1][0] == "attr" and f[1][2] == "element":
                    return any(self.tainted(a, checked) for a in args)  # formula element applied to operands
                if meth == "__getattribute__":
                    return False
                if f[1][0] == "call" and f[1][1][0] == "attr" and f[1][1][2] == "__getattribute__":
                    return True  # activated.term.__getattribute__(membership)(w)
                if self.returns_array(meth):
                    return True
                if meth in ("append", "extend"):
                    return False
                return self.tainted(f[1], checked) or any(self.tainted(a, checked) for a in args)
            if f[0] == "call" and f[1][0] == "attr" and f[1][2] == "__getattribute__":
                return True
            return any(self.tainted(a, checked) for a in args)
        if k in ("binop",):
            return self.tainted(t[2], checked) or self.tainted(t[3], checked)
        if k == "unop":
            return self.tainted(t[2], checked)
        if k == "cmp":
            if all(op in ("is", "is not", "in", "not in") for op in t[1]):
                return False
            return any(self.tainted(x, checked) for x in t[2])
        if k == "bool":
            return any(self.tainted(x, checked) for x in t[2])
        if k == "ifexp":
            return self.tainted(t[2], checked) or self.tainted(t[3], checked)
        if k == "sub":
            return self.tainted(t[1], checked)
        if k == "elem":
            it = t[1]
            if it[0] == "with" and it[1][0] == "call" and it[1][1] == ("global", "numpy.nditer"):
                return False
            return self.tainted(strip_iter(it), checked)
        if k == "unpack":
            return self.tainted(t[1], checked)
        if k == "phi":
            return any(self.tainted(a, checked) for a in t[1])
        if k in ("tuple", "list", "set"):
            return any(self.tainted(a, checked) for a in t[1])
        if k == "star":
            return self.tainted(t[1], checked)
        if k == "dict":
            return False
        if k == "slice":
            return False
        return False

    # ---------------------------------------------------------------------------------------- sinks
    def sinks(self) -> list[tuple[Node, ast.AST, str]]:
        out: list[tuple[Node, ast.AST, str]] = []
        for n in self.cfg.stmt_nodes():
            if n.copy:
                continue
            if n.kind == "test":
                out.append((n, n.ast, "condition"))  # type: ignore[arg-type]
            for e in self.cfg.exprs_of(n):
                for x in ast.walk(e):
                    if isinstance(x, ast.BoolOp):
                        for v in x.values[:-1] if False else x.values:
                            out.append((n, v, f"operand of `{'and' if isinstance(x.op, ast.And) else 'or'}`"))
                    elif isinstance(x, ast.UnaryOp) and isinstance(x.op, ast.Not):
                        out.append((n, x.operand, "operand of `not`"))
                    elif isinstance(x, ast.IfExp):
                        out.append((n, x.test, "condition of a conditional expression"))
                    elif isinstance(x, (ast.ListComp, ast.SetComp, ast.GeneratorExp, ast.DictComp)):
                        for g in x.generators:
                            for c in g.ifs:
                                out.append((n, c, "comprehension filter"))
                    elif isinstance(x, ast.Call):
                        nm = unparse(x.func)
                        full = self.p.resolve_global(nm, self.fn.module) if isinstance(x.func, (ast.Name, ast.Attribute)) else nm
                        if isinstance(x.func, ast.Name) and x.func.id in SINK_CALLS and not self.cfg.defs_reaching(x.func.id, n):
                            for a in x.args:
                                out.append((n, a, f"argument of {x.func.id}()"))
                        elif full.startswith("math."):
                            for a in x.args:
                                out.append((n, a, f"argument of {full}()"))
                        elif full in ("heapq.heappush",) and len(x.args) == 2:
                            out.append((n, x.args[1], "heap key (tuple comparison)"))
            if n.kind == "stmt" and isinstance(n.ast, ast.Assert):
                out.append((n, n.ast.test, "assert"))
        return out

    def checked_terms(self, n: Node) -> set[Term]:
        """Terms whose size is known to be 1 at node n (dominating raise-guards)."""
        out: set[Term] = set()
        cfg = self.cfg
        loops = cfg.enclosing_loops(n)
        for m, c in cfg.all_calls():
            if isinstance(c.func, ast.Attribute) and c.func.attr == "assert_is_not_vector" and c.args:
                if self._precedes(m, n, loops):
                    out.add(self.r.term(c.args[0], m))
        for g, pol, gn in cfg.must_guards(n):
            t = self.r.term(g, gn)
            for s in walk(t):
                if s[0] == "cmp" and len(s[1]) == 1 and s[1][0] in (">", "!=", ">=") and not pol:
                    a = s[2][0]
                    if a[0] == "call" and a[1] == ("global", "numpy.size") and a[2]:
                        out.add(a[2][0])
                    if a[0] == "attr" and a[2] == "size":
                        out.add(a[1])
        return out

    def _precedes(self, m: Node, n: Node, loops: list[Node]) -> bool:
        if loops and m in self.cfg.loop_body(loops[-1]):
            return iter_precedes(self.cfg, loops[-1], [m], n)
        return self.cfg.must_precede([m], n)


def strip_iter(t: Term) -> Term:
    while t[0] == "call" and t[1][0] == "global" and t[1][1] in ("reversed", "iter", "list", "tuple", "enumerate", "sorted") and t[2]:
        t = t[2][0]
    return t


def kernel_elementwise(check: Check, fn: FunctionInfo, rule: str, construct: str, cg: CallGraph | None = None) -> int:
    """V1 for one function: returns the number of violations."""
    ta = Taint(check.program, fn)
    bad = 0
    seen = set()
    for n, e, what in ta.sinks():
        t = ta.r.term(e, n)
        if not ta.tainted(t):
            continue
        checked = ta.checked_terms(n)
        if not ta.tainted(t, checked):
            continue
        key = (n.lineno, unparse(e))
        if key in seen:
            continue
        seen.add(key)
        bad += 1
        check.violation(rule, f"{construct}/{what.split(' ')[0]}:{_norm(unparse(e))}",
                        f"`{unparse(e)[:70]}` may hold a batch of values but is used as {what}: defined only for a single value "
                        "(ValueError: truth value of an array is ambiguous / wrong selection for batches)", loc(fn, n), {"term": show(t)[:200]})
    if not bad:
        check.ok(rule, construct, f"no scalar-only construct is reached by a batch value ({len(ta.sinks())} sinks examined)", loc(fn))
    return bad


REDUCERS = {"any", "all", "sum", "max", "min", "mean", "prod", "nansum", "nanmax", "nanmin", "count_nonzero", "amax", "amin"}


def _whole_batch_reductions(ta: Taint, t: Term) -> list[Term]:
    """Sub-terms that reduce a batch value over all of its rows (no axis, or axis 0)."""
    out = []
    for s_ in walk(t):
        if s_[0] != "call":
            continue
        f_ = s_[1]
        arg = None
        if f_[0] == "attr" and f_[2] in REDUCERS:
            arg = f_[1]
        elif f_[0] == "global" and f_[1].startswith("numpy.") and f_[1].split(".")[-1] in REDUCERS and s_[2]:
            arg = s_[2][0]
        elif f_[0] == "global" and f_[1] in ("any", "all", "sum", "max", "min") and len(s_[2]) == 1:
            arg = s_[2][0]
        if arg is None or not ta.tainted(arg):
            continue
        axis = dict(s_[3]).get("axis", s_[2][1] if f_[0] == "global" and len(s_[2]) > 1 else (s_[2][0] if f_[0] == "attr" and s_[2] else None))
        if axis is not None and axis != ("const", 0) and axis != ("const", None):
            continue  # a per-row reduction
        out.append((s_, arg))
    return out


def cross_row_decisions(check: Check, fn: FunctionInfo, rule: str, construct: str) -> int:
    """V5: no branch is decided once for the whole batch by reducing a batch value over its rows, unless all the branch
    does is a masked store through the very mask that was reduced (`if m.any(): v[m] = ...` is a no-op for the other rows)."""
    ta = Taint(check.program, fn)
    bad = 0
    seen = set()
    for n, e, what in ta.sinks():
        if what not in ("condition", "condition of a conditional expression") and not what.startswith("operand of"):
            continue
        t = ta.r.term(e, n)
        for red, arg in _whole_batch_reductions(ta, t):
            owner = next((x for x in ast.walk(fn.analysis_node) if isinstance(x, ast.If) and x.test is n.ast), None) if n.kind == "test" else None
            if owner is not None and not owner.orelse and all(
                isinstance(b, (ast.Assign, ast.AugAssign)) and all(
                    isinstance(tg, ast.Subscript) and ta.r.term(tg.slice, n) == arg for tg in (b.targets if isinstance(b, ast.Assign) else [b.target]))
                    for b in owner.body):
                continue
            key = (n.lineno, show(red))
            if key in seen:
                continue
            seen.add(key)
            bad += 1
            check.violation(rule, f"{construct}/{_norm(show(red))}",
                            f"`{unparse(e)[:70]}` reduces a batch value over all of its rows and decides {what}: the decision is taken once "
                            "for the whole batch, so a row is processed differently depending on the other rows (row-by-row processing decides per row)",
                            loc(fn, n), {"reduction": show(red)[:200]})
    return bad


def _norm(s: str) -> str:
    return "".join(s.split())[:60]


def run(check: Check) -> None:
    p = check.program
    cg = CallGraph(p)
    roots = ["Engine.process", "Engine.input_values.getter", "Engine.input_values.setter", "Engine.output_values.getter"]
    pred = cg.reachable(["Engine.process"])
    scope: dict[str, FunctionInfo] = {}
    for q in pred:
        f = cg._fn.get(q)
        if f is not None:
            scope[q] = f
    eng = p.cls("Engine")
    for f in (eng.getters.get("input_values"), eng.setters.get("input_values"), eng.getters.get("output_values")):
        if f is not None:
            scope[f.qualname] = f
    # every kernel dispatched through a registry
    for base, meths in (("Term", ("membership", "tsukamoto")), ("Norm", ("compute",)), ("Hedge", ("hedge",)), ("Defuzzifier", ("defuzzify",)),
                        ("Activation", ("activate",))):
        for c in [p.cls(base)] + p.subclasses(base):
            for m in meths:
                f = c.methods.get(m)
                if f is not None and not f.is_abstract:
                    scope[f.qualname] = f
    for e in function_factory(p):
        if e.method.startswith("fuzzylite.operation.Operation."):
            f = p.func("Operation." + e.method.split(".")[-1])
            scope[f.qualname] = f
    skip_loaders = {q for q in scope if q.split(".")[-1] in ("load", "parse", "infix_to_postfix", "format_infix", "load_rules", "create", "configure",
                                                              "_parse", "update_reference", "import_from", "construct", "copy")}
    n_fun = n_bad = 0
    for q in sorted(scope):
        f = scope[q]
        if f.is_abstract or q in skip_loaders:
            continue
        check.analysed(f)
        kernel_elementwise(check, f, "V1", q)
        if q.split(".")[-1] in ("membership", "tsukamoto", "compute", "hedge"):
            from .common import coerce_first

            coerce_first(check, f, "V8", f"{q}/coerce-first")
        n_bad += cross_row_decisions(check, f, "V5", q)
        n_fun += 1
    if not n_bad:
        check.ok("V5", "processing-path/cross-row-decisions", f"no branch in {n_fun} functions is decided by a reduction over the rows of a batch")
    cross_row_fixture(check)
    check.notes.append(f"V1 scope: {n_fun} functions ({len(pred)} reachable from Engine.process + registries)")
    registry(check)
    inplace_writes(check, scope)
    input_values(check)
    fill_forward(check)
    shapes(check)
    from .common import numpy_pitfalls

    numpy_pitfalls(check, "V10")
    from .common import scalar_is_base_array

    scalar_is_base_array(check)  # the coercion every kernel starts with yields plain arrays
    from .common import who_may_write

    who_may_write(check, "V3", "_value", {"Variable.value.setter"}, "a batch and its rows must be range-locked by the same code")
    # in-place updates reach other holders of an array but never those of a (immutable) numpy number: with them the two modes differ
    from .c13 import inplace_updates, no_inplace_on_handed_values

    inplace_updates(check)
    no_inplace_on_handed_values(check, ["Engine.process"])


def cross_row_fixture(check: Check) -> None:
    """Positive example for V5 (expected count on the tree is zero): the rule must fire on the fixture."""
    import os

    from ..report import VERIF

    path = os.path.join(VERIF, "selftest", "fixtures", "c02_cross_row.py")
    with open(path, encoding="utf-8") as fh:
        src = fh.read()
    p2 = Program(check.program.root, check.program.package, {**check.program.overrides, "fuzzylite/_verif_fixture_c02.py": src})
    probe = Check("C02", p2)
    hits = sum(cross_row_decisions(probe, f, "V5", q) for q, f in p2.functions.items() if f.file.endswith("_verif_fixture_c02.py"))
    if hits != 2:
        raise AnalysisError(f"positive fixture for V5 matched {hits} construct(s), expected 2 (and the masked-store twin must stay silent)")
    check.ok("V5", "fixture/cross-row", "positive fixture: 2 cross-row decisions reported, the masked-store twin is silent")


def registry(check: Check) -> None:
    p = check.program
    fac = p.cls("FunctionFactory")
    for e in function_factory(p):
        where = f"{fac.file}:{e.lineno}"
        m = e.method
        ok = m.startswith("numpy.") or m.startswith("fuzzylite.operation.Operation.") or m.startswith("lambda: numpy.")
        check.require(ok, "V6", f"FunctionFactory/{e.name}", f"`{e.name}` -> {m} (elementwise)" if ok else
                      f"`{e.name}` is bound to `{m}`, which is not elementwise on arrays (a formula using it works for floats and raises for batches)", where)


# ------------------------------------------------------------------------------------------------ V2
COERCIONS = {"fuzzylite.library.scalar", "fuzzylite.library.array", "numpy.asarray", "numpy.array", "numpy.atleast_1d", "numpy.atleast_2d",
             "numpy.asanyarray", "numpy.copy", "numpy.full", "numpy.full_like", "numpy.zeros", "numpy.ones", "numpy.empty", "numpy.column_stack",
             "numpy.hstack", "numpy.vstack", "numpy.where", "numpy.nan_to_num", "numpy.clip"}


def inplace_writes(check: Check, scope: dict[str, FunctionInfo]) -> None:
    p = check.program
    sites = 0
    for q in sorted(scope):
        f = scope[q]
        ta = Taint(p, f)
        r, cfg = ta.r, ta.cfg
        targets: list[tuple[Node, ast.AST, str]] = []
        for n in cfg.stmt_nodes():
            for t in cfg.stores_at(n):
                if isinstance(t, ast.Subscript) and isinstance(t.value, ast.Name):
                    targets.append((n, t.value, "subscript assignment"))
            for c in cfg.calls_in(n):
                if unparse(c.func) in ("np.nditer", "numpy.nditer") and c.args and "readwrite" in unparse(c):
                    targets.append((n, c.args[0], "np.nditer(readwrite)"))
        for n, e, how in targets:
            t = r.term(e, n)
            alts = t[1] if t[0] == "phi" else [t]
            origins = []
            for a in alts:
                if a[0] == "call" and a[1][0] == "attr" and ta.returns_array(a[1][2]) and a[1][2] in ("defuzzify", "membership", "compute", "hedge", "tsukamoto", "evaluate"):
                    origins.append(a)
            if not origins and not any(a[0] == "call" and a[1][0] == "global" and a[1][1] in COERCIONS for a in alts):
                continue
            sites += 1
            construct = f"{q}/{unparse(e)}@{how.split('(')[0].split(' ')[0]}"
            check.require(not origins, "V2", construct,
                          f"`{unparse(e)}` is an array of its own when it is written in place ({how})" if not origins else
                          f"`{unparse(e)}` is written in place ({how}) but comes straight from `{show(origins[0])[:70]}`, which returns an immutable "
                          "numpy scalar for float inputs (TypeError: 'numpy.float64' object does not support item assignment) - coerce it with scalar()",
                          loc(f, n))
    if sites == 0:
        check.ok("V2", "processing-path/no-in-place-writes", "no value on the processing path is written in place")


# ------------------------------------------------------------------------------------------------ V3
def input_values(check: Check) -> None:
    p = check.program
    eng = p.cls("Engine")
    setter = eng.setters.get("input_values")
    getter = eng.getters.get("input_values")
    if setter is None or getter is None:
        raise AnalysisError("anchor vanished: Engine.input_values")
    check.analysed(setter)
    check.analysed(getter)
    r = Resolver(p, setter)
    cfg = r.cfg
    vals = setter.params[1].name
    from ..guards import RoleEval, paths

    def classify(t: Term, e):
        if t[0] == "attr" and t[2] == "ndim":
            return "ndim"
        if path_of(t) == "self.input_variables":
            return "has_inputs"
        if t[0] == "cmp" and t[1] == ("!=",) and any(x[0] == "sub" and x[1][0] == "attr" and x[1][2] == "shape" for x in t[2]):
            return "bad_columns"
        if t[0] == "cmp" and t[1] == ("==",) and any(x[0] == "call" and x[1] == ("global", "len") for x in t[2]) and ("const", 1) in t[2]:
            return "single_input"
        return None

    assigns = [n for n in cfg.stmt_nodes() for t in cfg.stores_at(n) if isinstance(t, ast.Attribute) and t.attr == "value"]
    raw = [n for n in cfg.stmt_nodes() for t in cfg.stores_at(n) if isinstance(t, ast.Attribute) and t.attr == "_value"]
    check.require(not raw, "V3", "Engine.input_values.setter/through-property",
                  "the input values are assigned through the `value` property (whose setter clips to the range when lock-range is on)" if not raw else
                  f"`{unparse(raw[0].ast)[:60]}` writes the backing field directly: the range lock of the `value` setter is skipped for batches set through "
                  "the engine, but applied when the same rows are set one by one", loc(setter, raw[0] if raw else None))
    if not assigns:
        raise AnalysisError("Engine.input_values.setter: no assignment to variable values")
    first = [s for s, _ in cfg.entry.succ][0]
    res = {}
    for nd in (0, 1, 2, 3):
        ev = RoleEval(r, classify)
        env = {"ndim": nd, "has_inputs": True, "bad_columns": False, "single_input": False}
        ends = set()
        for pa in paths(cfg, first, ev, env, set()):
            ends.add("raise" if pa[-1].kind == "raise_exit" else ("assign" if any(x in assigns for x in pa) else "return"))
        res[nd] = ends
    ok = res[0] == {"assign", "return"} - ({"return"} if "return" not in res[0] else set()) or res[0] <= {"assign", "return"}
    ok = all("assign" in res[nd] and "raise" not in res[nd] for nd in (0, 1, 2)) and res[3] == {"raise"}
    check.require(ok, "V3", "Engine.input_values.setter/dimensions", "0-, 1- and 2-dimensional inputs are distributed to the variables; higher dimensions are rejected"
                  if ok else f"outcome per number of dimensions: {res}", loc(setter), exhaustive=True, cases=4)
    # column i -> variable i
    n = assigns[-1]
    tgt = [t for t in cfg.stores_at(n) if isinstance(t, ast.Attribute)][0]
    tv = r.term(tgt.value, n)
    vv = r.term(n.ast.value, n)  # type: ignore[union-attr]
    col_ok = tv[0] == "elem" and is_path(iter_base(tv[1])[0], "self.input_variables") and vv[0] == "sub" and vv[2][0] == "tuple" and \
        len(vv[2][1]) == 2 and vv[2][1][0][0] == "slice" and vv[2][1][1][0] == "index" and is_path(iter_base(vv[2][1][1][1])[0], "self.input_variables")
    check.require(col_ok, "V3", "Engine.input_values.setter/columns", "input variable i receives column i (all rows)" if col_ok else
                  f"assignment is {show(tv)}.value = {show(vv)}", loc(setter, n))
    # shapes: along every path for (number of dimensions, single input?), the matrix that is distributed has the right shape
    from ..sym import PathResolver

    _shape_env: dict = {}

    def shape_of(t: Term, nd: int) -> tuple:
        """Symbolic shape of a term: entries are 1, "n" (number of input variables), "k" (vector length), "r"/"c" (matrix)."""
        if t == ("param", vals):
            return {0: (), 1: ("k",), 2: ("r", "c")}[nd]
        if t[0] == "attr" and t[2] == "T":
            return tuple(reversed(shape_of(t[1], nd)))
        if t[0] == "call" and t[1][0] == "attr" and t[1][2] == "transpose" and not t[2]:
            return tuple(reversed(shape_of(t[1][1], nd)))
        if t[0] == "call" and t[1][0] == "global":
            g = t[1][1]
            kw = dict(t[3])
            if g in ("numpy.atleast_2d",) and len(t[2]) == 1:
                sh = shape_of(t[2][0], nd)
                return (1,) * (2 - len(sh)) + sh if len(sh) < 2 else sh
            if g in ("numpy.transpose",) and len(t[2]) == 1:
                return tuple(reversed(shape_of(t[2][0], nd)))
            if g in ("numpy.full", "numpy.tile", "numpy.broadcast_to", "numpy.reshape", "numpy.zeros", "numpy.ones", "numpy.empty"):
                sh = kw.get("shape", kw.get("reps", kw.get("newshape")))
                if sh is None:
                    sh = t[2][1] if g in ("numpy.tile", "numpy.broadcast_to", "numpy.reshape") and len(t[2]) > 1 else (t[2][0] if t[2] else None)
                if sh is not None and sh[0] == "tuple":
                    return tuple(dim_of(x) for x in sh[1])
            if g in ("numpy.asarray", "numpy.array", "numpy.atleast_1d", "fuzzylite.operation.Operation.array", "fuzzylite.operation.Operation.scalar"):
                return shape_of(t[2][0], nd)
        if t[0] == "call" and t[1][0] == "attr" and t[1][2] == "reshape":
            a = t[2][0][1] if len(t[2]) == 1 and t[2][0][0] == "tuple" else t[2]
            base = shape_of(t[1][1], nd)
            dims = [dim_of(x) for x in a]
            if dims.count(-1) == 1 and len(base) == 1:
                dims[dims.index(-1)] = base[0]
            return tuple(dims)
        if t[0] == "sub" and t[2][0] == "tuple":
            base = list(shape_of(t[1], nd))
            out = []
            for x in t[2][1]:
                if x in (("const", None), ("global", "numpy.newaxis")):
                    out.append(1)
                elif x[0] == "slice" and base:
                    out.append(base.pop(0))
                else:
                    raise AnalysisError(f"Engine.input_values.setter: index `{show(x)}` not modelled in the shape interpretation")
            return tuple(out + base)
        if t[0] == "ifexp":
            from ..guards import UNKNOWN

            c = RoleEval(r, classify).eval_term(t[1], _shape_env)
            if c is not UNKNOWN:
                return shape_of(t[2] if c else t[3], nd)
            a, b = shape_of(t[2], nd), shape_of(t[3], nd)
            if a == b:
                return a
        raise AnalysisError(f"Engine.input_values.setter: `{show(t)[:80]}` not modelled in the shape interpretation")

    def dim_of(x: Term):  # type: ignore[no-untyped-def]
        if x[0] == "const" and isinstance(x[1], int):
            return x[1]
        if x[0] == "unop" and x[1] == "-" and x[2] == ("const", 1):
            return -1
        if x == ("call", ("global", "len"), (("attr", ("param", "self"), "input_variables"),), ()):
            return "n"
        raise AnalysisError(f"Engine.input_values.setter: dimension `{show(x)}` not modelled in the shape interpretation")

    want = {(0, False): (1, "n"), (0, True): (1, "n"), (1, False): (1, "k"), (1, True): ("k", 1), (2, False): ("r", "c"), (2, True): ("r", "c")}
    got = {}
    fills = set()
    src_name = n.ast.value  # type: ignore[union-attr]
    while isinstance(src_name, ast.Subscript):
        src_name = src_name.value
    for (nd, single), w in want.items():
        ev = RoleEval(r, classify)
        env = {"ndim": nd, "has_inputs": True, "bad_columns": False, "single_input": single}
        _shape_env.clear()
        _shape_env.update(env)
        shapes = set()
        for pa in paths(cfg, first, ev, env, set()):
            if n not in pa:
                continue
            pr = PathResolver(p, setter, pa)
            t = pr.at(src_name, pr.index_of(n))
            shapes.add(shape_of(t, nd))
            if nd == 0:
                for x in walk(t):
                    if x[0] == "call" and x[1] == ("global", "numpy.full"):
                        fv = dict(x[3]).get("fill_value", x[2][1] if len(x[2]) > 1 else None)
                        fills.add(fv is not None and any(y == ("param", vals) for y in walk(fv)))
        got[(nd, single)] = shapes
    bad = {k: v for k, v in got.items() if v != {want[k]} and not (k[1] and want[k] == ("k", 1) and v == {("k", 1)})}
    # with a single input variable n == 1, so (1, "n") and (1, 1) coincide
    bad = {k: v for k, v in bad.items() if not (k[1] and {tuple(1 if d == "n" else d for d in sh) for sh in v} == {tuple(1 if d == "n" else d for d in want[k])})}
    check.require(not bad, "V3", "Engine.input_values.setter/vector",
                  "a vector is one row of values, or one column when the engine has a single input; a matrix is taken as it is "
                  "(symbolic shapes along every path for 0/1/2 dimensions x single/multiple inputs)" if not bad else
                  f"shape of the distributed matrix per (dimensions, single input): {({k: sorted(map(str, v)) for k, v in bad.items()})}; expected {({k: want[k] for k in bad})}",
                  loc(setter), exhaustive=True, cases=6)
    f_ok = not any(k[0] == 0 for k in bad) and (not fills or all(fills))
    check.require(f_ok, "V3", "Engine.input_values.setter/scalar", "a single value becomes one row holding that value for every input", loc(setter))
    # getter: column_stack of variable.value in variable order
    rg = Resolver(p, getter)
    rets = [rg.term(m.ast.value, m) for m in rg.cfg.stmt_nodes() if isinstance(m.ast, ast.Return) and m.ast.value is not None]
    ivs = ("attr", ("param", "self"), "input_variables")
    per_var = ("mapped", ivs, ("attr", ("elem", ivs), "value"))

    def stacked(t: Term) -> bool:
        return t[0] == "call" and t[1] == ("global", "numpy.column_stack") and len(t[2]) == 1 and any(q == per_var for q in walk(t[2][0]))

    g_ok = bool(rets) and any(stacked(s_) for t in rets for s_ in walk(t)) and \
        not any(s_[0] == "mapped" and s_ != per_var for t in rets for s_ in walk(t))
    check.require(g_ok, "V3", "Engine.input_values.getter/columns", "the matrix stacks variable.value as columns in variable order", loc(getter))


def fill_forward(check: Check) -> None:
    """V4: the lock-previous fill carries its filler from row to row (the rule set of C12/O5, reported as V4)."""
    from ..report import FilteredCheck
    from . import c12

    c12.cascade(FilteredCheck(check, {"O5": "V4"}))  # type: ignore[arg-type]


# ------------------------------------------------------------------------------------------------ V9 shapes
def shapes(check: Check, only_kernels_of: tuple[str, ...] | None = None) -> None:
    """V9 [E on the shape lattice]: a batch of n rows keeps its row dimension through the pipeline and never meets the sampling dimension
    r except by broadcasting a column against a row (sa/shape.py):
      kernels (term.membership / tsukamoto, norm.compute, hedge.hedge) return the broadcast shape of their operands;
      Activated.membership: degrees () / (n,) against sample points (1, r) give (r,) / (n, r); against a single point, () / (n,);
      Aggregated.membership folds those without changing the shape;
      the integral defuzzifiers reduce (n, r) to (n,) and (r,) to (); the weighted defuzzifiers map degrees (n,) to (n,) and () to ().
    A definite mismatch (`n` meeting `r`, a reduction along the wrong axis, a missing / extra squeeze) is a violation; shapes the lattice
    does not model are counted as undecided."""
    from ..absint import return_term
    from ..shape import TOP, ShapeError, ShapeEval, broadcast, fmt

    p = check.program
    SELF = ("param", "self")
    undecided = 0

    def run_case(fn, term: Term, env_map: dict, hook, want: tuple, construct: str, what: str, protected: frozenset = frozenset()) -> None:
        nonlocal undecided

        def env(t: Term):
            if t in env_map:
                return env_map[t]
            if t[0] == "attr" and t[1] == SELF and t not in env_map:
                return env_map.get(("self-attrs",), None)
            return None

        se = ShapeEval(env, hook, protected)
        try:
            got = se.ev(term)
            if not isinstance(got, tuple):
                got = TOP
        except ShapeError as ex:
            check.violation("V9", construct, f"{what}: {ex}", loc(fn))
            return
        if got == TOP:
            undecided += 1
            check.ok("V9", construct, f"{what}: undecided (not modelled: {se.unknown[:2]})", loc(fn))
            return
        check.require(got == want, "V9", construct, f"{what}: result has shape {fmt(got)}" + ("" if got == want else f", specified {fmt(want)}"), loc(fn),
                      exhaustive=True, cases=1)

    def nested_kernel_hook(t: Term, se):
        # Sigmoid(...).membership(x) / any <object>.membership(x) of a term built in place: elementwise in its argument
        f = t[1]
        if f[0] == "attr" and f[2] in ("membership", "tsukamoto") and t[2]:
            return se.ev(t[2][0])
        return None

    # 1. kernels
    base = p.cls("Term")
    kernels = []
    for c in p.subclasses("Term"):
        if c.name in ("Linear", "Function", "Aggregated", "Activated"):
            continue
        for m in ("membership", "tsukamoto"):
            f = c.methods.get(m)
            if f is not None and not f.is_abstract:
                kernels.append((c, m, f, 1))
    if only_kernels_of is not None:
        kernels = [k_ for k_ in kernels if "Term" in only_kernels_of]
    for bname, m in (("Norm", "compute"), ("Hedge", "hedge")):
        if only_kernels_of is not None and bname not in only_kernels_of:
            continue
        for c in p.subclasses(bname):
            f = c.methods.get(m)
            if f is not None and not f.is_abstract and c.name not in ("NormLambda", "NormFunction", "HedgeLambda", "HedgeFunction"):
                kernels.append((c, m, f, 2 if m == "compute" else 1))
    for c, m, f, arity in kernels:
        check.analysed(f)
        try:
            t = return_term(p, c, m)
        except AnalysisError:
            continue
        prm = [("param", q.name) for q in f.params[1:1 + arity]]
        if len(prm) < arity:
            continue
        if arity == 1:
            cases = [((), ()), (("n",), ("n",)), ((1, "r"), (1, "r")), (("n", "r"), ("n", "r"))]
            for s, want in cases:
                run_case(f, t, {prm[0]: s, ("self-attrs",): ()}, nested_kernel_hook, want, f"{c.name}.{m}/shape{fmt(s)}", f"{c.name}.{m} on an argument of shape {fmt(s)}",
                         frozenset({"n", "r"}))
        else:
            cases2 = [((), ()), (("n",), ("n",)), (("n", 1), (1, "r")), ((), (1, "r")), (("n", "r"), ("n", "r"))]
            for a, b in cases2:
                run_case(f, t, {prm[0]: a, prm[1]: b, ("self-attrs",): ()}, nested_kernel_hook, broadcast(a, b), f"{c.name}.{m}/shape{fmt(a)}x{fmt(b)}",
                         f"{c.name}.{m} on operands of shapes {fmt(a)} and {fmt(b)}", frozenset({"n", "r"}))
    if only_kernels_of is not None:
        return

    # 2. Activated.membership
    act = p.cls("Activated")
    fa = act.methods["membership"]
    check.analysed(fa)
    ta = return_term(p, act, "membership")
    xa = ("param", fa.params[1].name)
    ACT = {((), (1, "r")): ("r",), (("n",), (1, "r")): ("n", "r"), (("n",), ()): ("n",), ((), ()): ()}

    def act_hook(t: Term, se):
        f = t[1]
        if f[0] == "attr" and f[2] == "membership" and f[1] == ("attr", SELF, "term"):
            return se.ev(t[2][0])
        if f[0] == "attr" and f[2] == "compute" and f[1] == ("attr", SELF, "implication"):
            return broadcast(*[se.ev(a) for a in t[2]])
        return None

    for (d, x), want in ACT.items():
        run_case(fa, ta, {xa: x, ("attr", SELF, "degree"): d, ("attr", SELF, "_degree"): d}, act_hook, want, f"Activated.membership/degree{fmt(d)}-x{fmt(x)}",
                 f"Activated.membership with degrees of shape {fmt(d)} at points of shape {fmt(x)}")

    # 3. Aggregated.membership
    agg = p.cls("Aggregated")
    fg = agg.methods["membership"]
    check.analysed(fg)
    tg = return_term(p, agg, "membership")
    xg = ("param", fg.params[1].name)
    for (d, x), want in ACT.items():
        def agg_hook(t: Term, se, d=d, x=x):
            f = t[1]
            if f[0] == "attr" and f[2] == "membership" and any(s_[0] == "elem" for s_ in walk(f[1])):
                if se.ev(t[2][0]) != x:
                    return None
                return ACT[(d, x)]
            if f[0] == "attr" and f[2] == "compute" and f[1] == ("attr", SELF, "aggregation"):
                return broadcast(*[se.ev(a) for a in t[2]])
            return None

        run_case(fg, tg, {xg: x}, agg_hook, want, f"Aggregated.membership/degree{fmt(d)}-x{fmt(x)}",
                 f"Aggregated.membership over activations with degrees {fmt(d)} at points {fmt(x)}")

    # 4. integral defuzzifiers
    for cname in ("Bisector", "Centroid", "LargestOfMaximum", "MeanOfMaximum", "SmallestOfMaximum"):
        c = p.cls(cname)
        f = c.methods["defuzzify"]
        check.analysed(f)
        t = return_term(p, c, "defuzzify")
        tparam = ("param", f.params[1].name)
        for d, want in (((), ()), (("n",), ("n",))):
            def int_hook(t_: Term, se, d=d, tparam=tparam):
                f_ = t_[1]
                if f_ == ("global", "fuzzylite.operation.Operation.midpoints"):
                    return ("r",)
                if f_[0] == "attr" and f_[2] == "membership" and f_[1] == tparam and t_[2]:
                    xs = se.ev(t_[2][0])
                    return ACT.get((d, xs))
                return None

            run_case(f, t, {}, int_hook, want, f"{cname}.defuzzify/degrees{fmt(d)}", f"{cname}.defuzzify of a fuzzy set activated with degrees of shape {fmt(d)}")

    # 5. weighted defuzzifiers
    for cname in ("WeightedAverage", "WeightedSum"):
        c = p.cls(cname)
        f = c.methods["defuzzify"]
        check.analysed(f)
        t = return_term(p, c, "defuzzify")
        for d, want in (((), ()), (("n",), ("n",)), ("mixed", ("n",))):
            mixed = d == "mixed"
            if mixed:
                d = ("n",)

            def w_env_hook(t_: Term, se, d=d):
                f_ = t_[1]
                if f_[0] == "call" and t_[2]:  # <term>.__getattribute__(name)(w) / getattr(term, name)(w): elementwise in w
                    return se.ev(t_[2][0])
                if f_[0] == "attr" and f_[2] in ("membership", "tsukamoto") and t_[2]:
                    return se.ev(t_[2][0])
                return None

            def w_env(t_: Term, d=d):
                if t_[0] == "attr" and t_[2] in ("degree", "_degree"):
                    return d
                if t_[0] == "attr" and t_[2] == "terms":
                    return ("k",)
                return None

            se = ShapeEval(w_env, w_env_hook)
            if mixed:
                se.ragged = lambda x: x[0] == "attr" and x[2] in ("degree", "_degree")
            tag = "mixed" if mixed else fmt(d)
            try:
                got = se.ev(t)
            except ShapeError as ex:
                check.violation("V9", f"{cname}.defuzzify/degrees{tag}", f"{cname}.defuzzify with degrees {tag}: {ex}", loc(f))
                continue
            if got == TOP:
                undecided += 1
                check.ok("V9", f"{cname}.defuzzify/degrees{tag}", f"{cname}.defuzzify with degrees {tag}: undecided ({se.unknown[:2]})", loc(f))
                continue
            check.require(got == want, "V9", f"{cname}.defuzzify/degrees{tag}", f"{cname}.defuzzify with degrees of shape {tag}: result has shape {fmt(got)}"
                          + ("" if got == want else f", specified {fmt(want)}"), loc(f), exhaustive=True, cases=1)
    check.notes.append(f"V9: {undecided} shape case(s) undecided (outside the lattice)")
